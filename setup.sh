#!/bin/sh
# Offline setup: nothing to download; warm the build cache for both harness modules from files on disk.
cd "$(dirname "$0")" || exit 1
export GOFLAGS=-mod=mod GOPROXY=off GOTOOLCHAIN=auto
for m in h23 h26; do
  if ls $m/*/ >/dev/null 2>&1; then (cd $m && go test -tags verif -vet=off -count=1 -run '^$' ./... >/dev/null 2>&1 || true); fi
done
mkdir -p evidence replays .work
exit 0
