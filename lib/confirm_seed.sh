#!/bin/bash
# usage: lib/confirm_seed.sh <ID> <X>   (reads /tmp/seed/<ID>/out/<X>/, confirms in a scratch worktree of the pinned commit, writes /verif/seeded/<ID>-<X>/)
ID=$1; X=$2; ROOT=${3:-/tmp/seed}; NAME=${4:-$X}; SRC=$ROOT/$ID/out/$X; BASE=$(cat $ROOT/$ID/BASE)
export GOFLAGS=-mod=mod GOPROXY=off
WT=/tmp/confirm-$ID-$NAME
git -C /repo worktree remove --force $WT 2>/dev/null; rm -rf $WT
git -C /repo worktree add --detach $WT $BASE -q || exit 2
cd $WT
DEMO=$(ls $SRC/*_test.go 2>/dev/null | head -1)
CMD=$(python3 -c "import json;print(json.load(open('$SRC/meta.json'))['demo_cmd'])")
# target dir for the demo: from its header comment or the demo_cmd
PKGDIR=$(python3 - "$DEMO" "$CMD" <<'PY'
import re,sys
txt=open(sys.argv[1]).read()[:3000]+" "+sys.argv[2]
m=re.findall(r'(?:\./)?((?:dagsync|announce|pcache|rwriter|find|ingest|metadata|dhash|maurl|mautil|apierror)(?:/[a-z0-9_]+)*)/?', txt)
# prefer the package mentioned in a 'go test ... ./pkg/' command
m2=re.findall(r'go test[^\n]*?\./([a-z0-9_/]+)', txt)
print((m2 or m or ["."])[0].rstrip('/'))
PY
)
RUN=$(python3 - "$CMD" <<'PY'
import re,sys
m=re.search(r"-run[ =]+'?\"?([^'\" ]+)", sys.argv[1]); print(m.group(1) if m else "Demo")
PY
)
res() { echo "$1" >> $WT/../confirm-$ID-$X.log; }
: > /tmp/confirm-$ID-$X.log
cp $DEMO $PKGDIR/zz_seed_demo_test.go
go test ${RACE:+-race} -vet=off -count=1 -run "$RUN" ./$PKGDIR/ > /tmp/confirm-$ID-$X.demo0 2>&1; D0=$?
git apply $SRC/patch.diff || { echo "PATCH FAILS"; exit 3; }
go test ${RACE:+-race} -vet=off -count=1 -run "$RUN" ./$PKGDIR/ > /tmp/confirm-$ID-$X.demo1 2>&1; D1=$?
rm $PKGDIR/zz_seed_demo_test.go
go build ./... > /tmp/confirm-$ID-$X.build 2>&1; B=$?
go test -vet=off -count=1 -timeout 20m ./... > /tmp/confirm-$ID-$X.suite 2>&1; S=$?
OK=no; [ $D0 -eq 0 ] && [ $D1 -ne 0 ] && [ $B -eq 0 ] && [ $S -eq 0 ] && OK=yes
echo "$ID-$NAME pkg=$PKGDIR run=$RUN demo_without=$D0 demo_with=$D1 build=$B suite=$S confirmed=$OK"
if [ $OK = yes ]; then
  mkdir -p /verif/seeded/$ID-$NAME
  cp $SRC/patch.diff /verif/seeded/$ID-$NAME/patch.diff; cp $DEMO /verif/seeded/$ID-$NAME/demo_test.go.txt
  python3 - <<PY
import json
m=json.load(open('$SRC/meta.json'))
m['confirmed_by_me']={'base_commit':'$BASE','demo_package_dir':'$PKGDIR','demo_run':'$RUN','demo_exit_without_change':$D0,'demo_exit_with_change':$D1,'go_build_exit_with_change':$B,'suite_exit_with_change':$S,'commands':['go test -vet=off -count=1 -run $RUN ./$PKGDIR/ (clean: pass, patched: fail)','go build ./... && go test -vet=off -count=1 ./... (patched: pass)']}
json.dump(m,open('/verif/seeded/$ID-$NAME/meta.json','w'),indent=1)
PY
fi
cd /; git -C /repo worktree remove --force $WT; rm -rf $WT
