"""Per-property configuration of the driver: which test units decide the
property, how many generated cases each tier runs and on how many shards."""


def R(mod, pkg, test, quick, thorough, **kw):
    """rapid unit; quick/thorough = (checks, shards[, timeout_s])"""
    def spec(x):
        if x is None:
            return None
        d = {"checks": x[0], "shards": x[1]}
        if len(x) > 2:
            d["timeout"] = x[2]
        return d
    u = {"mod": mod, "pkg": pkg, "test": test, "kind": "rapid"}
    if quick:
        u["quick"] = spec(quick)
    if thorough:
        u["thorough"] = spec(thorough)
    u.update(kw)
    return u


def E(mod, pkg, test, quick, thorough, **kw):
    """enumeration unit; quick/thorough = (shards[, timeout_s]) ; the bound is chosen by VERIF_TIER inside the test"""
    def spec(x):
        if x is None:
            return None
        d = {"checks": 0, "shards": x[0]}
        if len(x) > 1:
            d["timeout"] = x[1]
        return d
    u = {"mod": mod, "pkg": pkg, "test": test, "kind": "enum"}
    if quick:
        u["quick"] = spec(quick)
    if thorough:
        u["thorough"] = spec(thorough)
    u.update(kw)
    return u


PROPS = {
    "C20": {
        "level": "exploration",
        "units": [
            R("h23", "c20", "TestC20_URLRoundTrip", (40000, 4), (20000000, 16, 10000)),
            R("h23", "c20", "TestC20_Forms", (10000, 1), (300000, 4, 3000)),
            R("h23", "c20", "TestC20_Helpers", (20000, 2), (6000000, 16, 10000)),
            R("h26", "c20w", "TestC20_EndToEnd", (800, 4, 600), (200000, 16, 10000)),
        ],
    },
    "C11": {
        "level": "exploration",
        "units": [
            R("h23", "c11", "TestC11_RoundTrip", (20000, 4), (6000000, 16, 10000)),
            R("h23", "c11", "TestC11_Decode", (100000, 8), (2000000, 16, 3000)),
        ],
        "fuzz": [{"mod": "h23", "pkg": "c11", "target": "FuzzC11_Unmarshal", "secs": 300}],
    },
    "C12": {
        "level": "exploration",
        "units": [
            R("h23", "c12", "TestC12_Crypto", (20000, 4), (6000000, 16, 10000)),
            E("h23", "c12", "TestC12_CryptoExhaustive", (4,), (16, 3000)),
            R("h23", "c12", "TestC12_Keys", (10000, 2), (300000, 8, 3000)),
            R("h23", "c12", "TestC12_Index", (4000, 8), (400000, 16, 10000)),
            R("h23", "c12", "TestC12_Concurrent", (60, 2, 600), (4000, 4, 10000), race=True),
        ],
    },
    "C17": {
        "level": "exploration",
        "units": [
            R("h23", "c17", "TestC17_Expand", (100000, 8), (20000000, 16, 10000)),
        ],
    },
    "C18": {
        "level": "exploration",
        "units": [
            R("h23", "c18", "TestC18_Requests", (20000, 8), (4000000, 16, 10000)),
            R("h23", "c18", "TestC18_Concurrent", (40, 2, 600), (3000, 4, 10000), race=True),
            R("h23", "c18", "TestC18_ReadFirst", (300, 1), (20000, 4, 3000)),
        ],
    },
    "C05": {
        "level": "exploration",
        "units": [
            R("h23", "c05", "TestC05_SignVerify", (16000, 8), (3000000, 16, 10000)),
        ],
    },
    "C13": {
        "level": "exploration",
        "units": [
            R("h23", "c13", "TestC13_RoundTrip", (15000, 8), (3000000, 16, 10000)),
            R("h23", "c13", "TestC13_Decode", (100000, 8), (20000000, 16, 10000)),
        ],
        "fuzz": [{"mod": "h23", "pkg": "c13", "target": "FuzzC13_Decode", "secs": 300}],
    },
    "C10": {
        "level": "exploration",
        "units": [
            R("h23", "c10", "TestC10_RoundTrip", (30000, 8), (2000000, 16, 3000)),
            R("h23", "c10", "TestC10_AnnounceSend", (5000, 1), (100000, 2, 3000)),
            R("h23", "c10", "TestC10_Decode", (100000, 8), (3000000, 16, 3000)),
            R("h23", "c10", "TestC10_P2PSender", (800, 2), (40000, 8, 3000)),
        ],
        "fuzz": [{"mod": "h23", "pkg": "c10", "target": "FuzzC10_UnmarshalCBOR", "secs": 300}],
    },
    "C19": {
        "level": "exploration",
        "units": [
            R("h23", "c19", "TestC19_FindRoundTrip", (8000, 8), (1000000, 16, 10000)),
            R("h23", "c19", "TestC19_Negotiation", (10000, 4), (2000000, 16, 10000)),
            R("h23", "c19", "TestC19_APIError", (20000, 2), (1000000, 8, 3000)),
            R("h23", "c19", "TestC19_FindBatch", (2000, 4), (200000, 16, 3000)),
        ],
    },
    "C03": {
        "level": "exploration",
        "units": [
            R("h23", "c03", "TestC03_Head", (20000, 8), (500000, 16, 3000)),
            R("h23", "c03", "TestC03_PublisherHead", (3000, 2), (100000, 8, 3000)),
            R("h23", "c03", "TestC03_PublisherConcurrent", (300, 4, 600), (30000, 16, 3000)),
            R("h23", "c03", "TestC03_StreamHead", (120, 2, 600), (6000, 8, 3000)),
            R("h26", "c03w", "TestC03_Subscriber", (4000, 8, 500), (300000, 16, 10000)),
            R("h26", "c03w", "TestC03_ConcurrentHeads", (400, 4, 400), (40000, 16, 10000)),
        ],
        "fuzz": [{"mod": "h23", "pkg": "c03", "target": "FuzzC03_Head", "secs": 300}],
    },
    "C01": {
        "level": "exploration",
        "units": [
            R("h26", "c01", "TestC01_Random", (2500, 12, 500), (240000, 16, 10000)),
            E("h26", "c01", "TestC01_Sweep", (4, 500), (16, 6000)),
        ],
    },
    "C02": {
        "level": "fault_enumeration",
        "units": [
            R("h26", "c02", "TestC02_Random", (3000, 8, 500), (300000, 16, 10000)),
            E("h26", "c02", "TestC02_Exhaustive", (8, 500), (16, 10000)),
            R("h26", "c02", "TestC02_Concurrent", (600, 4, 600), (60000, 16, 10000)),
            E("h26", "c02", "TestC02_Sizes", (8, 900), (16, 10000)),
            R("h26", "c02", "TestC02_Mislabel", (400, 4, 400), (40000, 16, 10000)),
        ],
    },
    "C04": {
        "level": "fault_enumeration",
        "units": [
            R("h26", "c04", "TestC04_Random", (4000, 8, 500), (400000, 16, 10000)),
            E("h26", "c04", "TestC04_Exhaustive", (8, 500), (16, 10000)),
            R("h26", "c04", "TestC04_QueuedAnnounce", (1200, 8, 600), (100000, 16, 10000)),
            R("h26", "c04", "TestC04_Rounds", (800, 8, 400), (80000, 16, 10000)),
        ],
    },
    "C06": {
        "level": "exploration",
        "units": [
            R("h26", "c06", "TestC06_Model", (16000, 8, 500), (4000000, 16, 10000)),
            R("h23", "c06h", "TestC06_HTTPSource", (600, 4, 600), (40000, 16, 10000)),
        ],
    },
    "C07": {
        "level": "exploration",
        "units": [
            R("h26", "c07", "TestC07_Bubble", (4000, 8, 500), (600000, 16, 10000)),
            R("h26", "c07", "TestC07_Race", (300, 6, 500), (30000, 8, 10000), race=True),
        ],
    },
    "C09": {
        "level": "exploration",
        "units": [
            R("h26", "c09", "TestC09_Direct", (3000, 8, 500), (600000, 16, 10000)),
            E("h26", "c09", "TestC09_LRUExhaustive", (8, 500), (16, 8000)),
            R("h23", "c09p", "TestC09_Pubsub", (40, 1, 600), (1500, 4, 3000)),
        ],
    },
    "C16": {
        "level": "exploration",
        "units": [
            R("h23", "c16", "TestC16_Histories", (3000, 8, 500), (1000000, 16, 10000)),
            R("h23", "c16", "TestC16_Topic", (60, 4, 900), (6000, 8, 10000)),
            R("h23", "c16", "TestC16_CloseRace", (80, 4, 300), (8000, 8, 10000)),
            R("h23", "c16", "TestC16_PubsubGone", (60, 2, 300), (4000, 8, 10000)),
            R("h23", "c16", "TestC16_CancelledDirect", (60, 4, 300), (6000, 8, 10000)),
            R("h23", "c16", "TestC16_ClosePending", (128, 8, 400), (3200, 16, 10000)),
        ],
    },
    "C08": {
        "level": "exploration",
        "units": [
            R("h26", "c08", "TestC08_Scripts", (4000, 8, 400), (300000, 16, 10000)),
            R("h26", "c08", "TestC08_LongSync", (600, 4, 400), (40000, 16, 10000)),
            R("h26", "c08", "TestC08_Rounds", (800, 8, 400), (80000, 16, 10000)),
            R("h26", "c08", "TestC08_LastKnown", (300, 4, 400), (20000, 16, 10000)),
            R("h26", "c08", "TestC08_BehindExplicit", (400, 8, 400), (20000, 16, 10000)),
        ],
    },
    "C14": {
        "level": "exploration",
        "units": [
            R("h26", "c14", "TestC14_Scripts", (3000, 8, 400), (200000, 16, 10000)),
            R("h26", "c14", "TestC14_RegisterCancelStress", (400, 8, 300), (40000, 16, 10000)),
            R("h26", "c14", "TestC14_Backlog", (48, 8, 240), (1600, 16, 10000)),
            R("h26", "c14", "TestC14_CloseDuringSync", (400, 8, 400), (40000, 16, 10000)),
            R("h26", "c14", "TestC14_ManyListeners", (300, 8, 400), (30000, 16, 10000)),
            R("h26", "c14", "TestC14_BackToBack", (160, 8, 400), (16000, 16, 10000)),
            R("h26", "c14", "TestC14_Rounds", (800, 8, 400), (80000, 16, 10000)),
            R("h26", "c14", "TestC14_FirstContact", (160, 8, 400), (16000, 16, 10000)),
        ],
    },
    "C15": {
        "level": "exploration",
        "units": [
            R("h26", "c15", "TestC15_Scripts", (3000, 8, 400), (200000, 16, 10000)),
            R("h26", "c15", "TestC15_SlowHook", (400, 8, 400), (40000, 16, 10000)),
            R("h26", "c15", "TestC15_CancelledQueued", (400, 8, 400), (40000, 16, 10000)),
        ],
    },
}
