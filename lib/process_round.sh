#!/bin/bash
# usage: lib/process_round.sh <root> <nameA> <nameB> [IDs...]  -- confirm the seeds an agent left under <root>/<ID>/out/{A,B}
# (stored as seeded/<ID>-<nameA|nameB>) and run the property's quick check against each in a scratch worktree (lib/altrun.sh)
root=$1; na=$2; nb=$3; shift 3
ids="$@"; [ -z "$ids" ] && ids=$(ls $root | grep -E '^C[0-9]+$')
for id in $ids; do
  for pair in A:$na B:$nb; do
    x=${pair%%:*}; n=${pair##*:}
    [ -f $root/$id/out/$x/patch.diff ] || { echo "$id-$n: no patch delivered"; continue; }
    r=$(lib/confirm_seed.sh $id $x $root $n 2>&1 | tail -1)
    echo "$r"
    if echo "$r" | grep -q "confirmed=no"; then r=$(lib/confirm_seed.sh $id $x $root $n 2>&1 | tail -1); echo "retry: $r"; fi
    if echo "$r" | grep -q "confirmed=yes"; then
      echo "=== $id-$n vs $id"
      MSG=400 lib/altrun.sh seeded/$id-$n/patch.diff $id quick | grep -v "^VIOLATION"
    fi
  done
done
