#!/bin/bash
# usage: lib/runall.sh [tier]  -- run every claimed check once, print one line each
cd "$(dirname "$0")/.." || exit 2
TIER=${1:-quick}
for id in $(python3 -c "import json;print(' '.join(c['property_id'] for c in json.load(open('MANIFEST.json'))['checks']))"); do
  s=$(date +%s); out=$(./check $id $TIER 2>&1); rc=$?; e=$(date +%s)
  echo "$id rc=$rc $((e-s))s $(echo "$out" | grep -c '^VIOLATION') violations | $(echo "$out" | grep '^OK\|^INCONCLUSIVE' | tail -1 | cut -c1-150)"
done
