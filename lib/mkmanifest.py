#!/usr/bin/env python3
"""Regenerates /verif/MANIFEST.json from lib/props.py (checks) and lib/manifest_text.py (claims)."""
import json, os, subprocess, sys
VERIF = os.path.dirname(os.path.dirname(os.path.abspath(__file__)))
sys.path.insert(0, os.path.join(VERIF, "lib"))
from props import PROPS
from manifest_text import TEXT, HOOK_COMMITS, NOT_BUILT_REASON, NOTES

all_ids = [json.loads(l)["id"] for l in open(os.path.join(VERIF, "properties.jsonl"))]
checks, na = [], []
for pid in all_ids:
    if pid in PROPS and pid in TEXT:
        t = TEXT[pid]
        c = {
            "property_id": pid,
            "quick_cmd": "./check %s quick" % pid,
            "thorough_cmd": "./check %s thorough" % pid,
            "evidence_file": "/verif/evidence/%s.json" % pid,
            "replay_cmd_template": "./check %s replay {path}" % pid,
            "engine": t["engine"],
            "level_claimed": {"category": PROPS[pid]["level"], "text": t["level_text"], "design_ref": "DESIGN.md section 5, %s" % pid},
            "level_note": t["level_note"],
            "technique": t["technique"],
        }
        checks.append(c)
    else:
        na.append({"property_id": pid, "reason": TEXT.get(pid, {}).get("na_reason", NOT_BUILT_REASON)})
m = {
    "version": 1,
    "setup_cmd": "./setup.sh",
    "hooks": {
        "guard": "verif",
        "enable": "go test -tags verif (the harness modules h23 and h26 replace github.com/ipni/go-libipni => /repo and are built with -tags verif from the current working tree on every run)",
        "baseline_off_cmd": "cd /repo && GOFLAGS=-mod=mod GOPROXY=off go test -json -vet=off -count=1 -timeout 25m ./...",
        "source_commits": HOOK_COMMITS,
        "add_only": True,
    },
    "engines": [
        {"name": "h23", "path": "/verif/h23", "serves_properties": [p for p in all_ids if p in PROPS and any(u["mod"] == "h23" for u in PROPS[p]["units"])],
         "kind_free_text": "Go module on the repository's own toolchain (go1.23.6): rapid v1.3.0 generators + oracles for the pure-input properties, native go fuzz targets"},
        {"name": "h26", "path": "/verif/h26", "serves_properties": [p for p in all_ids if p in PROPS and any(u["mod"] == "h26" for u in PROPS[p]["units"])],
         "kind_free_text": "Go module on go1.26.8: rapid-drawn scripts executed against the real subscriber / provider cache / receiver inside a testing/synctest bubble with an in-memory network, fault plans and gates"},
        {"name": "driver", "path": "/verif/lib/driver.py", "serves_properties": [p for p in all_ids if p in PROPS],
         "kind_free_text": "builds from /repo's working tree, shards rapid runs by seed, merges evidence fragments, replays regress/ files, maps outcomes to exit 0/1/2"},
    ],
    "checks": checks,
    "notes": NOTES,
    "not_applicable": na,
}
json.dump(m, open(os.path.join(VERIF, "MANIFEST.json"), "w"), indent=1)
print("checks:", [c["property_id"] for c in checks], "not_applicable:", [n["property_id"] for n in na])
