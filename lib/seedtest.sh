#!/bin/sh
# usage: lib/seedtest.sh <patch.diff> <ID> [tier]   -- apply a seeded change to /repo, run the check, undo the change
P=$(realpath "$1"); ID=$2; TIER=${3:-quick}
cd /repo || exit 2
if [ -n "$(git status --porcelain)" ]; then echo "/repo not clean"; exit 2; fi
if ! git apply "$P" 2>/dev/null; then
  if ! patch -p1 --no-backup-if-mismatch -s < "$P"; then echo "PATCH-DOES-NOT-APPLY"; git checkout -- .; git clean -fdq; exit 3; fi
fi
cp /verif/evidence/$ID.json /tmp/evidence-$ID.bak 2>/dev/null
(cd /verif && ./check "$ID" "$TIER" 2>&1 | grep -v "^\s\|^goroutine\|^$\|^runtime\.\|^created by\|^testing\.\|^main\.\|^github\|^verif/\|^pgregory" | cut -c1-400 | tail -${LINES_OUT:-6}); 
cp /tmp/evidence-$ID.bak /verif/evidence/$ID.json 2>/dev/null; rm -f /tmp/evidence-$ID.bak
cd /repo && git checkout -- . && git clean -fdq
git status --porcelain | head -3
