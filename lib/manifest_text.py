HOOK_COMMITS = []
NOT_BUILT_REASON = "check not built yet in this session; claimed in DESIGN.md section 5, to be decided by property-based testing (work in progress, not a limitation of the technique)"
NOTES = ("Every check is generated-input search against an explicit oracle (pgregory.net/rapid v1.3.0 generators and drawn scripts, "
         "bounded-exhaustive enumerations, native go fuzzing in the thorough tier). Exit 2 = inconclusive infrastructure outcome. "
         "KNOWN_FINDINGS.txt lists genuine defects: 'known:' lines are printed as KNOWN-FINDING and excluded from the search, "
         "'fixed:' lines suppress nothing. regress/ holds the shrunk reproductions, replayed first on every run.")
TEXT = {
    "C20": {
        "engine": "h23",
        "technique": "property-based testing (rapid): URL<->multiaddr round trip and set-theoretic reference specifications of the address helpers",
        "level_text": "Generated-input search: 40k (quick) / 3M (thorough) URLs over every host kind, port and the full path alphabet are converted to a multiaddr and back (also after the multiaddr travelled as bytes and as text) and compared field by field; multiaddr forms (http, https, tls/http, legacy httpath) are converted and compared with the expected URL; address lists with nils, duplicates and permutations are checked against set-theoretic specifications of FindHTTPAddrs, FilterPublic, CleanPeerAddrInfo and MultiaddrsEqual. Exploration, not proof: held on every generated case.",
        "level_note": "Trusted: net/url parsing, go-multiaddr parsing, the harness's own classification of IP ranges as clearly public / clearly non-public (special-purpose ranges and nil entries are not asserted for FilterPublic). IPv6 zones and IPv4-mapped IPv6 hosts are outside the quantifier. The end-to-end request-target part runs in the h26 world once built.",
    },
    "C11": {
        "engine": "h23",
        "technique": "property-based testing (rapid) against an independent specification of the wire format; byte-mutation decoding with an allocation meter; native go fuzzing (thorough)",
        "level_text": "Generated-input search. Round trip: multisets of 1..6 protocols (all kinds, unknown codes up to 2^62, payloads to 900 B, repeated IDs) in two construction orders are encoded and compared with an independently written encoder (hand-written varint + DAG-CBOR), decoded, compared, looked up by ID and re-encoded. Decoder: raw bytes, mutated valid encodings, hostile varint / CBOR length prefixes up to MaxMetadataSize; oracle = no panic, input untouched, runtime TotalAlloc delta <= 64*len+64KiB, success implies re-encoding equals the input. Thorough adds coverage-guided native fuzzing of the same oracle. Found and led to 5 fix commits; one third-party allocation behaviour stays a known finding.",
        "level_note": "Trusted: the harness's own encoder of the wire format (written from the IPNI spec and multicodec table), runtime.MemStats as allocation meter (single goroutine). KF-C11-1 region (graphsync CBOR declaring a string longer than the remaining input) is recognised by an independent CBOR walk, counted in coverage.excluded_known and still bounded by 3x declared length.",
    },
    "C12": {
        "engine": "h23",
        "technique": "property-based testing (rapid) + bounded-exhaustive tamper enumeration; model-based check of the reader-privacy client against an independent in-memory dhstore",
        "level_text": "Generated-input search: round trip, determinism and fail-closed behaviour of the three encryption APIs under every tamper kind (truncate to any length, flip any bit, append, wrong passphrase); an exhaustive sweep of every truncation length, nonce/ciphertext split and single-bit flip for payloads of 0..6 (quick) / 0..24 (thorough) bytes; value-key split and second-hash against an independent SHA-256 computation; and small indexes stored through the dhash functions into an independent in-memory dhstore (via the DHStoreAPI interface or the library's HTTP dhstore client on loopback), with garbage value keys mixed in, compared as multisets with what DHashClient.Find returns.",
        "level_note": "Trusted: crypto/sha256 and the harness's 64-byte CR_DOUBLEHASH prefix constant (from the IPNI reader-privacy spec); loopback HTTP for the http transport variant. Metadata >= 1 byte and one metadata per (provider, context) by construction of the domain.",
    },
    "C17": {
        "engine": "h23",
        "technique": "property-based testing (rapid): differential against a reference expansion function written from the property statement",
        "level_text": "Generated-input search: 30k (quick) / 2M (thorough) provider records (chain-level and contextual sets, override, metadata nil/empty/same/own per entry, main provider present or absent, metadata lists nil/shorter/equal/longer, optional JSON round trip) are served by a fake source to a real ProviderCache; GetResults is compared element-wise (context ID, metadata, peer ID, addresses) with an independent specification function; any panic is a violation.",
        "level_note": "Trusted: the harness's reading of the statement (a missing metadata element counts as 'none of its own'; an error return is accepted for any record). Contextual sets have distinct context IDs.",
    },
    "C18": {
        "engine": "h23",
        "technique": "property-based testing (rapid): accept/reject predicate over independently drawn (named provider, signing key) pairs and envelope alterations",
        "level_text": "Generated-input search: requests of both kinds are built with the library constructors for independently drawn named-provider and signing keys of all four key types, then left alone or altered (envelope key swap, payload type / payload / signature byte flips through the protobuf, raw bit flips, truncation, foreign domain with the right payload type, cross-feeding); the reader must accept exactly when signer = named provider and nothing was semantically altered, and accepted requests must return the fields they were built from.",
        "level_note": "Trusted: libp2p's record.Seal / protobuf codec used by the harness to build alterations; a raw bit flip that leaves the four parsed envelope fields unchanged is not counted as an alteration.",
    },
    "C05": {
        "engine": "h23",
        "technique": "property-based testing (rapid): sign/verify round trip, single-value and envelope-level mutation, key-assignment predicate",
        "level_text": "Generated-input search: advertisements over all optional parts and 0..4 extended providers are signed with the library (ad signer = provider or separate publisher key, all four key types), optionally mutated once (each signed value, key/payload/signature bytes of any envelope through the protobuf, a raw bit flip, an entry signed by a key other than the named identity's, the main entry re-signed by a key other than the ad signer's), passed through none/DAG-JSON/DAG-CBOR, and VerifySignature must succeed with the signer's ID exactly when nothing was altered, the main provider is listed and all entries are correctly keyed.",
        "level_note": "Trusted: libp2p record.Seal and the envelope protobuf used to build alterations. One value is changed per case (the payload concatenates values without delimiters; the property excludes neighbouring simultaneous changes).",
    },
    "C13": {
        "engine": "h23",
        "technique": "property-based testing (rapid): codec round trips with a semantic equality, CID stability, generic-vs-typed load agreement; byte-mutation decoding; native go fuzzing (thorough)",
        "level_text": "Generated-input search: advertisements (all combinations of optional parts, present-but-empty extended providers, maximal context ID / metadata, arbitrary signature bytes) and entry chunks (0..200 multihashes, with and without next) are encoded in DAG-JSON and DAG-CBOR, decoded and compared with a hand-written semantic equality; stored twice through a link system (same CID), loaded with the generic and the typed prototype and through BytesTo...; decoders are fed mutated encodings and raw bytes with the oracle 'error, or re-encodable to an equal value, never a panic'. Thorough adds coverage-guided fuzzing of the decoder oracle.",
        "level_note": "Trusted: go-ipld-prime codecs and link system (the round trip goes through them), the harness's equality (nil == empty for lists and bytes; presence of optional parts preserved).",
    },
    "C10": {
        "engine": "h23",
        "technique": "property-based testing (rapid): codec round trips, sender wire capture, byte-mutation decoding with an allocation meter; native go fuzzing (thorough)",
        "level_text": "Generated-input search: messages (any CID, 0..32 address byte strings incl. unregistered protocol codes and empty strings, extra data to 4 KiB, optional OrigPeer) round-trip through CBOR and JSON; the 3/4-field form is checked; GetAddrs is compared with the known-protocol sublist; httpsender Send/SendJson are run against a loopback capture server and the captured body must decode to the original with /p2p/<publisher> appended; announce.Send is checked with recording senders. Decoder: mutated encodings with hostile CBOR headers (lengths 2^63, 2^64-1, 2 MiB+-1, 8192+-1, indefinite markers): no panic, error or re-encode fixpoint, TotalAlloc delta within the fixed caps. Thorough adds native fuzzing.",
        "level_note": "Trusted: runtime.MemStats as allocation meter; loopback HTTP. The p2psender (gossipsub) path is exercised by C09's pubsub cases only. Messages whose every address has an unknown protocol may go on the wire with a bare /p2p/<id> address or none: not asserted.",
    },
    "C19": {
        "engine": "h23",
        "technique": "property-based testing (rapid): write/read round trip through a loopback server running the documented handler idiom; negotiation model; API-error round trip",
        "level_text": "Generated-input search: result lists (0..20, occasionally 300..900 results; nil/empty/binary context IDs and metadata; 0..3 addresses) are written through the response writer and read back by client.Find or raw requests with every key form (base58 / hex multihash, CIDv0, CIDv1 in three bases) and Accept variant; JSON mode is compared result by result, streaming mode line by line; empty sets must be 404 on the wire and an empty response for the client. Accept headers (supported / unsupported / malformed elements, several header values) x preferJson x request paths are checked against a negotiation model (must-reject => 4xx *apierror.Error whose status and message survive the wire). API errors round-trip through EncodeError/DecodeError.",
        "level_note": "Trusted: net/http loopback transport, mime.ParseMediaType as the definition of 'malformed'. Hex keys that are also valid base58 are skipped (ambiguous in the API; counted). Headers mixing supported and malformed elements are not asserted.",
    },
    "C01": {
        "engine": "h26",
        "technique": "property-based testing (rapid) + bounded-exhaustive sweep of the real subscriber in a synctest bubble: reference model, request-log oracle, metamorphic family over segment size and pre-stored blocks",
        "level_text": "Generated-input search against the real dagsync.Subscriber and ipnisync.Publisher talking HTTP over an in-memory network inside a testing/synctest bubble. Each drawn base configuration (chain kind and length, initial latest-sync, stop CID, resync, explicit/queried head, every depth option, entry point, transport mode) is executed as a family over segment sizes and pre-stored subsets (fresh world each) and checked against (1) a reference model of the expected block list, returned head, latest-sync and notification, (2) the publisher's request log (exactly the non-stored segment blocks, in order; stop block and older never requested) and (3) equality of observations across the family. The sweep unit enumerates all configurations for chain lengths <= 3 (quick) / <= 5 (thorough).",
        "level_note": "Trusted: the harness's world (net.Pipe network, http.Server, request recorder) and its reference model written from the statement and option docs. Strict ads selector only; resync + queried head does not assert the latest-sync update. The library runs on the go1.26.8 standard library here (synctest exists nowhere else).",
    },
    "C02": {
        "engine": "h26",
        "technique": "fault enumeration + property-based testing: body faults injected by the simulated publisher, independent hash audit of the destination store after every sync",
        "level_text": "Every single-bit flip and every truncation length (honest and dishonest Content-Length), every substitution, empty / appended / oversized bodies are enumerated for a 3-ad chain (quick: sha2-256 full and truncated, one request position, ~11k syncs; thorough: 14 hash functions x 3 positions), plus random cases over 1..5-block ad and entry chains with 1..3 faulty syncs and 14 multihash functions incl. identity. After every sync an audit recomputes, independently of the library, the multihash named in each stored key over the stored value; hook calls must name audited chain blocks; a differing body must fail the sync, failed syncs must not move latest-sync or emit events; the final honest sync must leave exactly the chain.",
        "level_note": "Trusted: go-multihash for the audit (a different call path than the library's SumStream), the world. 'Differs' is byte inequality with the honest body (hash collisions ignored).",
    },
    "C03": {
        "engine": "h23+h26",
        "technique": "property-based testing (rapid): independent signature verifier and 'accepted => signed by the test' oracle on head encodings; scripted head responses against the real subscriber; native go fuzzing (thorough)",
        "level_text": "Unit level (h23): two valid heads and one alteration (CID/topic/key/signature replaced, swaps between heads, re-signing, bit flips, truncation, duplicated fields), all key types and topic shapes; whenever Decode+Validate accepts, an independent verifier (generic DAG-JSON decode + libp2p verify) must agree and (signer, cid||topic) must be one the test signed; publisher-served heads must verify for exactly root, topic and identity. Subscriber level (h26 bubble): 1..4 consecutive SyncAdChain calls on one syncer against drawn head responses (honest, valid, foreign signer, CID swapped under a kept signature, topic/sig/key alterations, empty peer ID): accepted iff valid and signed by the synced publisher, otherwise no block request after the head, no state change.",
        "level_note": "Trusted: libp2p key parsing/verification (also used by the independent verifier), go-ipld-prime DAG-JSON. When the generic decoder rejects an encoding the typed one accepts (repeated keys), only the no-forgery oracle applies.",
    },
    "C04": {
        "engine": "h26",
        "technique": "fault enumeration + property-based testing: differential against a fault-free run of the same configuration, three-attempt scripts (fault, fault in the retry, recovery)",
        "level_text": "All 12 fault kinds (HTTP 400/403/404/429/500/503, reset, truncated body, bit flip, stalled response costing only virtual time, caller cancellation, hook FailSync) are enumerated at every request index for explicit and announce-triggered, plain and discovery, segmented and unsegmented syncs (quick n=3; thorough n<=5 plus all ordered pairs for n=3), plus random cases with retryable client, two addresses and prior syncs. A failed attempt must leave latest-sync unchanged, emit no success and (announce) exactly one error notification; the recovery attempt must succeed, equal the fault-free reference run in latest-sync, store contents and reported blocks, and request exactly the blocks not yet stored. Led to two fix commits (sticky no-path fallback, exhausted address fail-over).",
        "level_note": "Trusted: the world and virtual clock. Faults the client legitimately masks (retry, fail-over) are accepted as success; only FailSync reached in a segmented sync must fail. Pubsub republish paths are outside this world (no libp2p host).",
    },
    "C06": {
        "engine": "h26",
        "technique": "stateful property-based testing (rapid-drawn histories) against a reference model of the statement, on the bubble's virtual clock",
        "level_text": "Generated histories of 5..40 steps over 1..3 fake sources and up to 40 providers run against a real ProviderCache in a synctest bubble: source content changes (appear, advance, regress, disappear, bulk updates crossing the merge threshold), source failures, Refresh, Refresh cancelled by source i, Refresh issued while another is parked inside a source (completing or cancelled), Get hit/miss/negative, List, time advances around the TTL. After every step the cache is compared with a reference model that keeps, per provider, the records ever delivered and [lo, hi] bounds on the freshest advertisement time (lo over completed operations), exact TTL bounds on the virtual clock, and the remembered-absent state (nil with zero Fetch calls). Found two defects, both fixed.",
        "level_note": "Trusted: the harness's reference model; where the statement leaves the outcome open (TTL equality, records delivered only by a cancelled refresh) the model accepts either and adopts what it observes through List. Automatic refresh is disabled here (C07).",
    },
    "C07": {
        "engine": "h26",
        "technique": "property-based testing of schedules: rapid-drawn scripts with the writer parked inside a source call in a synctest bubble (exact 'no reader blocked' check), plus rapid-drawn real-time stress under the Go race detector",
        "level_text": "Bubble unit: a writer (Refresh, miss-fetch, automatic refresh after the interval elapsed on the virtual clock) is parked inside the fake source while 1..8 readers run drawn Get/List/GetResults sequences on cached providers; synctest.Wait decides exactly, without timeouts, whether any reader is blocked; per-reader versions must be monotone, stable providers never missing, records never torn, the coalesced automatic refresh must cost exactly one FetchAll round. Race unit: the same oracles in real time with 2..16 readers and 1..3 writers, built with -race; a race report (exit 66) is a violation.",
        "level_note": "Trusted: the Go race detector and scheduler (interleavings are sampled, not enumerated; races are only seen on executions that happen). No library hook is needed: the writer is parked inside the harness's own ProviderSource.",
    },
    "C09": {
        "engine": "h26+h23",
        "technique": "model-based property testing: rapid-drawn announcement histories against a reference allow-set + recency-list model with exact quiescence in a bubble; bounded-exhaustive differential of the duplicate filter; pubsub attribution with real libp2p hosts",
        "level_text": "Direct path (h26 bubble): 1..400 announcements / un-cache operations over a CID alphabet larger than the cache, 4 peers, drawn allow filters and address lists; after each announcement a consumer waits and synctest.Wait decides exactly whether something was delivered; compared with a reference model (allow set + recency list of 64) including delivered CID, peer and the addresses the filter specification keeps. Duplicate filter: every update/remove sequence up to length 6 (quick) / 7 (thorough) over 4 symbols at capacities 1..3 against the reference list, through the verif-tag export. Pubsub (h23, three real hosts on loopback): attribution of direct, re-published and self re-published messages; non-delivery is never decided by a timeout.",
        "level_note": "Trusted: the reference model; gossipsub on loopback (messages that do not arrive before the sentinels are counted inconclusive, never reported). Special-purpose IP ranges are not asserted by the address-filter oracle. Hook: announce/export_verif.go (build tag verif) exposes the unexported LRU.",
    },
    "C16": {
        "engine": "h23",
        "technique": "property-based testing of call histories in real time (a leaked mutex is invisible to synctest): counting model of the one-slot channel, non-return confirmed by threefold reproduction",
        "level_text": "Histories of 1..10 calls over Close / Direct / Next / UncacheCid, awaited or started concurrently, on receivers without host, with a host and no topic, and with a host and its own gossipsub topic; a counting model of the one-slot delivery channel determines how many Direct and Next calls must have returned at each point; after Close every pending and four later calls must return (Direct with the closed error, Close with nil), and the watcher goroutine must be gone. A call that has not returned after 2 s is reported only if the same history fails the same way twice more on fresh receivers. Found a mutex leak in the second Close and a nil-subscription crash; both fixed.",
        "level_note": "Trusted: 2 s of real time as 'promptly' (normal cost: microseconds) together with the threefold reproduction; un-cache calls are ordered against neighbouring announcements rather than raced, so that the model stays deterministic.",
    },
}
