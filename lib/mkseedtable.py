#!/usr/bin/env python3
"""Rewrites the table between the SEEDTABLE markers of DESIGN.md from seeded/<ID>-<X>/{meta,detection}.json."""
import json, os, re
V = os.path.dirname(os.path.dirname(os.path.abspath(__file__)))
rows = []
for d in sorted(os.listdir(os.path.join(V, "seeded"))):
    if not re.match(r"^C\d+-[A-Z]$", d):
        continue
    mp = os.path.join(V, "seeded", d, "meta.json")
    if not os.path.exists(mp):
        continue
    m = json.load(open(mp))
    s = m.get("summary", "").replace("\n", " ").replace("|", "/")
    s = s[:150] + ("..." if len(s) > 150 else "")
    det = "not run"
    dp = os.path.join(V, "seeded", d, "detection.json")
    if os.path.exists(dp):
        dj = json.load(open(dp))
        if not dj.get("applies", False):
            det = "patch does not apply to the current tree"
        else:
            hit = [r for r in dj["results"] if r["exit"] == 1 and r["violations"] > 0]
            miss = [r["check"] for r in dj["results"] if not (r["exit"] == 1 and r["violations"] > 0)]
            def unit(r):
                u = r.get("first_unit") or ""
                if "regress/" in u:
                    return "committed regression " + u.split("regress/")[-1].replace(".json", "")
                return u or "crash / hang confirmation"
            det = ", ".join("%s (%s)" % (r["check"], unit(r)) for r in hit) or "MISSED"
            if hit and miss:
                det += "; not by " + ", ".join(miss)
    rows.append("| %s | %s | %s |" % (d, s, det))
table = "| seed | change (as described by its author) | detected by (quick tier) |\n|---|---|---|\n" + "\n".join(rows) + "\n"
p = os.path.join(V, "DESIGN.md")
s = open(p).read()
b, e = "<!-- SEEDTABLE BEGIN -->\n", "<!-- SEEDTABLE END -->"
i, j = s.index(b) + len(b), s.index(e)
open(p, "w").write(s[:i] + table + s[j:])
print(len(rows), "rows;", sum("MISSED" in r for r in rows), "missed")
