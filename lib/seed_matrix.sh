#!/bin/bash
# usage: lib/seed_matrix.sh [ID-X ...]  -- run the quick check of each seeded change's property against it; writes seeded/<ID-X>/detection.json and seeded/MATRIX.md
cd /verif || exit 2
LIST="$@"; [ -z "$LIST" ] && LIST=$(ls seeded | grep -E "^C[0-9]+-[A-Z]$")
for s in $LIST; do
  id=${s%-*}; checks=$id
  [ "$s" = "C04-B" ] && checks="C04 C09"   # changes announce/receiver.go: the pubsub unit of C09 sees it
  [ "$s" = "C01-C" ] && checks="C01 C08"   # overlapping syncs of one publisher: the scripts of C08 see it
  [ "$s" = "C04-D" ] && checks="C04 C14"
  [ "$s" = "C10-D" ] && checks="C10 C09"
  [ "$s" = "C08-F" ] && checks="C08 C09"   # duplicate filter vs allow callback: C09's statement
  [ "$s" = "C15-E" ] && checks="C15 C16"   # changes announce/receiver.go Close: needs a pubsub message in flight
  [ "$s" = "C14-F" ] && checks="C14 C01"
  [ "$s" = "C01-H" ] && checks="C01 C04"   # success with part of the segment reported: C04's completeness oracle
  [ "$s" = "C08-H" ] && checks="C08 C04"   # "its CID may be announced again" is C04's clause
  [ "$s" = "C07-H" ] && checks="C07 C06"   # the HTTP source adapter: C06's HTTP-source unit
  [ "$s" = "C17-G" ] && checks="C17 C06"
  [ "$s" = "C01-I" ] && checks="C01 C08"   # latest-sync forgotten after the idle period: C08's exactly-once oracle
  [ "$s" = "C01-J" ] && checks="C01 C03"   # publisher head cache race: C03's publisher unit
  [ "$s" = "C07-I" ] && checks="C07 C06"
  [ "$s" = "C07-J" ] && checks="C07 C06"
  [ "$s" = "C15-J" ] && checks="C15 C16"   # a Direct left waiting by Close: announce/receiver.go, C16's statement
  [ "$s" = "C14-J" ] && checks="C14 C08"   # idle cleaner vs a sync waiting for its head: C08's long-sync unit
  [ "$s" = "C15-L" ] && checks="C15 C14"   # notification of an explicit sync that finishes during Close: C14's close-during-sync unit
  [ "$s" = "C01-O" ] && checks="C01 C04"   # a hook failure that is dropped: "failure signalled by the hook" is C04's clause
  [ "$s" = "C01-P" ] && checks="C01 C08"   # stale stop point of a queued explicit sync: C08's exactly-once oracle
  [ "$s" = "C04-P" ] && checks="C04 C09"   # receiver duplicate filter vs un-cache for CIDv0: C09's model
  [ "$s" = "C15-P" ] && checks="C15 C14"   # bounded listener queue: C14's backlog unit
  cd /repo; if [ -n "$(git status --porcelain)" ]; then echo "/repo dirty"; exit 2; fi
  if ! git apply /verif/seeded/$s/patch.diff 2>/dev/null; then
    if ! patch -p1 --no-backup-if-mismatch -s < /verif/seeded/$s/patch.diff >/dev/null 2>&1; then git checkout -- .; git clean -fdq; echo "$s: patch does not apply to the current tree"; echo "{\"applies\": false}" > /verif/seeded/$s/detection.json; continue; fi
  fi
  go build ./... >/dev/null 2>&1 || { echo "$s: does not build on current tree"; git checkout -- .; git clean -fdq; continue; }
  res=""
  for c in $checks; do
    cp /verif/evidence/$c.json /tmp/ev-$c.bak 2>/dev/null
    out=$(cd /verif && ./check $c quick 2>&1); rc=$?
    cp /tmp/ev-$c.bak /verif/evidence/$c.json 2>/dev/null
    unit=$(echo "$out" | grep '^VIOLATION' | head -1 | sed 's/.*replays\/[^-]*-\([A-Za-z0-9_]*\)-s.*/\1/')
    res="$res{\"check\":\"$c\",\"exit\":$rc,\"violations\":$(echo "$out" | grep -c '^VIOLATION'),\"first_unit\":\"$unit\"},"
    echo "$s vs $c: rc=$rc violations=$(echo "$out" | grep -c '^VIOLATION') unit=$unit"
  done
  cd /repo; git checkout -- .; git clean -fdq
  echo "{\"applies\": true, \"results\": [${res%,}]}" > /verif/seeded/$s/detection.json
done
