#!/usr/bin/env python3
"""Driver for the go-libipni property checks.

usage: driver.py <ID> <quick|thorough> | driver.py <ID> replay <path>

exit 0: property held on everything explored (known findings are printed)
exit 1: a line "VIOLATION property=<ID> replay=<path>" was printed
exit 2: inconclusive infrastructure outcome (build failure, worker death, budget)
"""
import concurrent.futures as cf
import glob
import json
import os
import random
import re
import resource
import shutil
import subprocess
import sys
import time

VERIF = os.path.dirname(os.path.dirname(os.path.abspath(__file__)))
REPO = "/repo"
sys.path.insert(0, os.path.join(VERIF, "lib"))
from props import PROPS  # noqa: E402

NCPU = os.cpu_count() or 4


def goenv():
    e = dict(os.environ)
    e["GOFLAGS"] = "-mod=mod"
    e["GOPROXY"] = "off"
    e.pop("GOTOOLCHAIN", None)  # auto: the module cache holds go1.23.6 and go1.26.8
    e.pop("GOSUMDB", None)
    e["GOTOOLCHAIN"] = "auto"
    return e


def log(*a):
    print(*a, flush=True)


def repo_state():
    try:
        return subprocess.run(["git", "-C", REPO, "status", "--porcelain"], capture_output=True, text=True, timeout=60).stdout
    except Exception:
        return ""


def known_findings(prop):
    """-> (known: list of dict(id, regress, text)), fixed lines ignored (they suppress nothing)."""
    out = []
    p = os.path.join(VERIF, "KNOWN_FINDINGS.txt")
    if not os.path.exists(p):
        return out
    for line in open(p):
        line = line.strip()
        if not line.startswith("known:"):
            continue
        m = re.match(r"known:\s+property=(\S+)\s+id=(\S+)\s+regress=(\S+)\s+(.*)$", line)
        if m and m.group(1) == prop:
            out.append({"id": m.group(2), "regress": m.group(3), "text": m.group(4)})
    return out


class Build:
    def __init__(self, workdir):
        self.workdir = workdir
        self.bins = {}

    def get(self, mod, pkg, race=False):
        key = (mod, pkg, race)
        if key in self.bins:
            return self.bins[key]
        os.makedirs(os.path.join(self.workdir, "bin"), exist_ok=True)
        out = os.path.join(self.workdir, "bin", "%s_%s%s.test" % (mod, pkg.replace("/", "_"), "_race" if race else ""))
        cmd = ["go", "test", "-c", "-tags", "verif", "-vet=off", "-o", out]
        if race:
            cmd.append("-race")
        cmd.append("./" + pkg)
        t0 = time.time()
        r = subprocess.run(cmd, cwd=os.path.join(VERIF, mod), env=goenv(), capture_output=True, text=True)
        if r.returncode != 0 or not os.path.exists(out):
            log("BUILD-FAILED %s/%s\n%s\n%s" % (mod, pkg, r.stdout[-4000:], r.stderr[-6000:]))
            self.bins[key] = None
            return None
        log("built %s/%s%s in %.1fs" % (mod, pkg, " (race)" if race else "", time.time() - t0))
        self.bins[key] = out
        return out


def limit(mem_gb):
    def f():
        os.setsid()
        if mem_gb:
            b = int(mem_gb * (1 << 30))
            try:
                resource.setrlimit(resource.RLIMIT_AS, (b, b))
            except Exception:
                pass
    return f


def run_proc(cmd, env, cwd, timeout, mem_gb):
    """-> (rc or 'timeout', output)"""
    t0 = time.time()
    try:
        p = subprocess.Popen(cmd, cwd=cwd, env=env, stdout=subprocess.PIPE, stderr=subprocess.STDOUT, text=True,
                             errors="replace", preexec_fn=limit(mem_gb))
    except Exception as ex:  # pragma: no cover
        return 2, "spawn failed: %s" % ex, 0.0
    try:
        out, _ = p.communicate(timeout=timeout)
        rc = p.returncode
    except subprocess.TimeoutExpired:
        try:
            os.killpg(p.pid, 9)
        except Exception:
            pass
        out, _ = p.communicate()
        rc = "timeout"
    return rc, out, time.time() - t0


LIB_FRAME = "github.com/ipni/go-libipni/"


def panicked_in_library(out):
    """True when the goroutine that panicked (the first trace after the panic line) was running library code
    and the panic is not the bubble's own deadlock report (which lists every goroutine)."""
    m = re.search(r"^(panic: |fatal error: ).*$", out, re.M)
    if not m or "deadlock" in m.group(0) or "test timed out" in m.group(0) or "VERIF-" in m.group(0):
        return False
    rest = out[m.end():]
    g = re.search(r"^goroutine \d+ .*?:\n(.*?)(?:\n\n|\Z)", rest, re.M | re.S)
    if not g:
        return False
    frames = [l for l in g.group(1).splitlines() if l and not l.startswith("\t")]
    # skip runtime frames (panic machinery); the first non-runtime frame decides
    for fr in frames:
        if fr.startswith("runtime.") or fr.startswith("panic(") or fr.startswith("sync.") or fr.startswith("internal/"):
            continue
        return LIB_FRAME in fr
    return False


def save_replay(src, prop, unit, tag):
    os.makedirs(os.path.join(VERIF, "replays"), exist_ok=True)
    dst = os.path.join(VERIF, "replays", "%s-%s-%s.json" % (prop, unit, tag))
    shutil.copyfile(src, dst)
    return dst


def replay_unit(build, prop, unit_cfg, path, workdir, timeout=180, raw=False):
    """-> 'pass' | 'fail' | 'hang' | 'crash' | 'error', output"""
    binp = build.get(unit_cfg["mod"], unit_cfg["pkg"], unit_cfg.get("race", False))
    if not binp:
        return "error", "build failed"
    env = goenv()
    env["VERIF_REPLAY"] = os.path.abspath(path)
    env["VERIF_OUT"] = workdir
    # raw: committed reproductions are replayed without the known-finding exclusions, as plain regressions
    env["VERIF_KNOWN"] = "" if raw else ",".join(k["id"] for k in known_findings(prop))
    cmd = [binp, "-test.run", "^%s$" % unit_cfg["test"], "-test.timeout", "%ds" % timeout, "-test.v"]
    rc, out, _ = run_proc(cmd, env, os.path.join(VERIF, unit_cfg["mod"], unit_cfg["pkg"]), timeout + 30, None if unit_cfg.get("race") else 24)
    if rc == 0 and "REPLAY-PASS" in out:
        return "pass", out
    if "REPLAY-FAIL" in out:
        return "fail", out
    if "VERIF-NORETURN:" in out:
        return "noreturn", out
    if rc == "timeout" or "panic: test timed out" in out:
        return "hang", out
    if rc != 0 and (LIB_FRAME in out) and ("panic:" in out or "fatal error:" in out or "DATA RACE" in out):
        return "crash", out
    if rc == 0:
        return "pass", out  # unit skipped the file (addressed elsewhere)
    return "error", out


def find_unit(prop, name):
    for u in PROPS[prop]["units"]:
        if u["test"] == name:
            return u
    return None


def merge_evidence(prop, tier, seed, frags, wall, violations, extra):
    cfg = PROPS[prop]
    evals = sum(f["evaluations"] for f in frags)
    hashes = set()
    per_unit = {}
    classes = {}
    samples = []
    excluded = {}
    rules = []
    assumptions = list(cfg.get("assumptions", []))
    exhaustive_units = []
    skipped = 0
    for f in frags:
        u = per_unit.setdefault(f["unit"], {"evaluations": 0, "hashes": set(), "skipped": 0, "exhaustive": f.get("exhaustive", False), "space_size": f.get("space_size", 0)})
        u["evaluations"] += f["evaluations"]
        u["skipped"] += f.get("skipped", 0)
        skipped += f.get("skipped", 0)
        for h in (f.get("nontrivial_hashes") or []):
            u["hashes"].add(h)
            hashes.add(f["unit"] + ":" + h)
        for k, v in (f.get("classes") or {}).items():
            classes[k] = classes.get(k, 0) + v
        for k, v in (f.get("excluded_known") or {}).items():
            excluded[k] = excluded.get(k, 0) + v
        r = "%s: %s" % (f["unit"], f.get("rule", ""))
        if r not in rules:
            rules.append(r)
        for a in f.get("assumptions") or []:
            if a not in assumptions:
                assumptions.append(a)
        if f.get("exhaustive") and f["unit"] not in exhaustive_units:
            exhaustive_units.append(f["unit"])
    rnd = random.Random(seed)
    byunit = {}
    for f in frags:
        byunit.setdefault(f["unit"], []).extend(f.get("samples") or [])
    for unit, ss in byunit.items():
        pick = ss[:2] + (rnd.sample(ss[2:], min(2, len(ss) - 2)) if len(ss) > 2 else [])
        for s in pick:
            samples.append({"unit": unit, "sample": s})
    cov = {
        "evaluations": evals,
        "distinct_nontrivial": len(hashes),
        "rule": " || ".join(rules),
        "samples": samples[:40],
        "classes": dict(sorted(classes.items())),
        "units": {k: {"evaluations": v["evaluations"], "distinct_nontrivial": len(v["hashes"]), "skipped_out_of_domain": v["skipped"],
                      "exhaustive": v["exhaustive"], "space_size": v["space_size"]} for k, v in per_unit.items()},
        "skipped_out_of_domain": skipped,
        "excluded_known": excluded,
        "exhaustive": bool(exhaustive_units) and len(exhaustive_units) == len(per_unit),
        "exhaustive_units": exhaustive_units,
    }
    if any(f.get("hash_cap_hit") for f in frags):
        cov["distinct_nontrivial_is_lower_bound"] = True
        cov["rule"] += " || NOTE: at least one shard recorded more than 500000 distinct non-trivial cases; hashes beyond that were not kept, so distinct_nontrivial is a lower bound of the measured number."
    cov.update(extra)
    ev = {
        "property_id": prop,
        "tier": tier,
        "seed": seed,
        "level": cfg["level"],
        "coverage": cov,
        "assumptions": assumptions,
        "wall_s": round(wall, 2),
        "violations": violations,
    }
    os.makedirs(os.path.join(VERIF, "evidence"), exist_ok=True)
    tmp = os.path.join(VERIF, "evidence", ".%s.json.tmp" % prop)
    with open(tmp, "w") as fh:
        json.dump(ev, fh, indent=1)
    os.replace(tmp, os.path.join(VERIF, "evidence", "%s.json" % prop))


def run_fuzz(prop, fz, secs, workdir):
    """native coverage-guided fuzzing; -> (status, info dict, crasher path or None)"""
    cwd = os.path.join(VERIF, fz["mod"])
    cmd = ["go", "test", "-tags", "verif", "-vet=off", "-run", "^$", "-fuzz", "^%s$" % fz["target"], "-fuzztime", "%ds" % secs,
           "-parallel", str(fz.get("workers", NCPU)), "./" + fz["pkg"]]
    env = goenv()
    env["VERIF_KNOWN"] = ",".join(k["id"] for k in known_findings(prop))
    rc, out, wall = run_proc(cmd, env, cwd, secs + 600, None)
    info = {"target": fz["target"], "seconds": secs}
    m = re.findall(r"execs: (\d+) .*?new interesting: (\d+) \(total: (\d+)\)", out)
    if m:
        info["execs"], info["new_interesting"], info["corpus_total"] = int(m[-1][0]), int(m[-1][1]), int(m[-1][2])
    mm = re.search(r"Failing input written to (\S+)", out)
    if mm:
        src = os.path.join(cwd, fz["pkg"], mm.group(1))
        os.makedirs(os.path.join(VERIF, "replays"), exist_ok=True)
        dst = os.path.join(VERIF, "replays", "%s-%s-%s-%s.fuzz" % (prop, fz["pkg"].replace("/", "_"), fz["target"], os.path.basename(src)))
        try:
            shutil.copyfile(src, dst)
            os.remove(src)  # do not leave crashers in the committed corpus directory
        except Exception:
            dst = src
        log(out[-3000:])
        return "violation", info, dst
    if rc == 0:
        return "ok", info, None
    log(out[-3000:])
    return "inconclusive", info, None


def replay_fuzz(prop, path):
    base = os.path.basename(path)
    m = re.match(r"(C\d+)-(.+?)-(Fuzz[^-]+)-(.+)\.fuzz$", base)
    if not m:
        log("cannot parse fuzz replay name", base)
        return 2
    pkg, target = m.group(2), m.group(3)
    fz = None
    for f in PROPS[prop].get("fuzz", []):
        if f["target"] == target:
            fz = f
    if not fz:
        log("unknown fuzz target", target)
        return 2
    d = os.path.join(VERIF, fz["mod"], fz["pkg"], "testdata", "fuzz", target)
    os.makedirs(d, exist_ok=True)
    tmp = os.path.join(d, "replay-" + m.group(4))
    shutil.copyfile(path, tmp)
    try:
        cmd = ["go", "test", "-tags", "verif", "-vet=off", "-run", "^%s$/^%s$" % (target, os.path.basename(tmp)), "./" + fz["pkg"]]
        rc, out, _ = run_proc(cmd, goenv(), os.path.join(VERIF, fz["mod"]), 600, None)
    finally:
        os.remove(tmp)
    log(out[-3000:])
    if rc == 0:
        log("REPLAY-PASS")
        return 0
    log("VIOLATION property=%s replay=%s" % (prop, path))
    return 1


def main():
    if len(sys.argv) < 3 or sys.argv[1] not in PROPS:
        log(__doc__)
        return 2
    prop, tier = sys.argv[1], sys.argv[2]
    cfg = PROPS[prop]
    seed = int(os.environ.get("VERIF_SEED", "1") or "1")
    if seed == 0:
        seed = 0x5EED
    t0 = time.time()
    workdir = os.path.join(VERIF, ".work", "%s-%s-%d" % (prop, tier, os.getpid()))
    shutil.rmtree(workdir, ignore_errors=True)
    os.makedirs(workdir)
    build = Build(workdir)
    before = repo_state()
    try:
        if tier == "replay":
            path = sys.argv[3]
            if path.endswith(".fuzz"):
                return replay_fuzz(prop, path)
            rf = json.load(open(path))
            u = find_unit(prop, rf["unit"])
            if not u:
                log("replay file names unknown unit", rf.get("unit"))
                return 2
            st, out = replay_unit(build, prop, u, path, workdir)
            log(out[-6000:])
            if st == "pass":
                log("REPLAY-PASS property=%s" % prop)
                return 0
            if st in ("fail", "crash", "hang", "noreturn"):
                log("VIOLATION property=%s replay=%s" % (prop, path))
                return 1
            return 2
        if tier not in ("quick", "thorough"):
            log(__doc__)
            return 2
        return check(prop, tier, seed, cfg, build, workdir, t0)
    finally:
        after = repo_state()
        if after != before:
            log("WARNING: /repo working tree changed during the run:\n" + after)
        shutil.rmtree(workdir, ignore_errors=True)


def check(prop, tier, seed, cfg, build, workdir, t0):
    for old in glob.glob(os.path.join(VERIF, "replays", "%s-*-s%d-*" % (prop, seed))):
        try:
            os.remove(old)  # replays of an earlier run of this check would only confuse
        except OSError:
            pass
    known = known_findings(prop)
    known_ids = ",".join(k["id"] for k in known)
    violations = []  # replay paths
    inconclusive = []
    # ---- build everything needed
    units = [u for u in cfg["units"] if tier in u]
    for u in units:
        if not build.get(u["mod"], u["pkg"], u.get("race", False)):
            log("INCONCLUSIVE property=%s build failed" % prop)
            return 2
    # ---- committed regressions first (seconds)
    regress_run = 0
    for path in sorted(glob.glob(os.path.join(VERIF, "regress", "%s-*.json" % prop))):
        rf = json.load(open(path))
        u = find_unit(prop, rf["unit"])
        if not u:
            continue
        rel = os.path.relpath(path, VERIF)
        kf = [k for k in known if k["regress"] == rel]
        st, out = replay_unit(build, prop, u, path, workdir, raw=True)
        regress_run += 1
        if st == "pass":
            if kf:
                log("note: known finding %s no longer reproduces from %s (line can become 'fixed:')" % (kf[0]["id"], rel))
            continue
        if st in ("fail", "crash", "hang", "noreturn"):
            if kf:
                log("KNOWN-FINDING: property=%s %s %s" % (prop, kf[0]["id"], kf[0]["text"]))
            else:
                log(out[-3000:])
                violations.append(path)
        else:
            log(out[-3000:])
            inconclusive.append("regress %s: %s" % (rel, st))
    # ---- generated search
    jobs = []
    for u in units:
        spec = u[tier]
        checks, shards = spec["checks"], spec.get("shards", 1)
        per = max(1, (checks + shards - 1) // shards) if checks else 0
        for sh in range(shards):
            jobs.append((u, sh, shards, per, spec))

    def run_job(job):
        u, sh, shards, per, spec = job
        binp = build.get(u["mod"], u["pkg"], u.get("race", False))
        env = goenv()
        env.update({"VERIF_OUT": workdir, "VERIF_SHARD": str(sh), "VERIF_NSHARDS": str(shards), "VERIF_TIER": tier,
                    "VERIF_SEED": str(seed), "VERIF_KNOWN": known_ids})
        env.update(u.get("env", {}))
        if u.get("race"):
            env["GORACE"] = "halt_on_error=1 exitcode=66"
        timeout = spec.get("timeout", 900)
        cmd = [binp, "-test.run", "^%s$" % u["test"], "-test.timeout", "%ds" % timeout]
        if u.get("kind", "rapid") == "rapid":
            cmd += ["-rapid.checks", str(per), "-rapid.seed", str(seed * 1000 + sh + 1), "-rapid.nofailfile", "-rapid.shrinktime", spec.get("shrinktime", "20s")]
        cmd += u.get("args", [])
        rc, out, wall = run_proc(cmd, env, os.path.join(VERIF, u["mod"], u["pkg"]), timeout + 60, None if u.get("race") else spec.get("mem_gb", 24))
        return job, rc, out, wall

    frags = []
    confirm = []
    with cf.ThreadPoolExecutor(max_workers=min(NCPU, max(1, len(jobs)))) as ex:
        results = list(ex.map(run_job, jobs))
    for (u, sh, shards, per, spec), rc, out, wall in results:
        base = os.path.join(workdir, "%s.%s.%d" % (prop, u["test"], sh))
        tag = "s%d-%d" % (seed, sh)
        fragp = base + ".frag.json"
        if os.path.exists(fragp):
            try:
                frags.append(json.load(open(fragp)))
            except Exception:
                pass
        failp = base + ".fail.json"
        curp = base + ".current.json"
        kind = u.get("kind", "rapid")
        if rc == 0:
            if kind == "rapid":
                m = re.search(r"OK, passed (\d+) tests", out)
                # rapid prints that only with -test.v; use the fragment count instead
                n = frags[-1]["evaluations"] + frags[-1].get("skipped", 0) if os.path.exists(fragp) else 0
                if n < per:
                    inconclusive.append("%s shard %d ran %d of %d cases" % (u["test"], sh, n, per))
            continue
        if os.path.exists(failp):
            dst = save_replay(failp, prop, u["test"], tag)
            msg = json.load(open(failp)).get("message", "")
            log("---- %s shard %d: oracle violated\n%s" % (u["test"], sh, msg[:3000]))
            violations.append(dst)
            continue
        if rc == 66 or "DATA RACE" in out:
            os.makedirs(os.path.join(VERIF, "replays"), exist_ok=True)
            dst = os.path.join(VERIF, "replays", "%s-%s-%s.race.txt" % (prop, u["test"], tag))
            open(dst, "w").write(out[-20000:])
            if LIB_FRAME in out:
                log("---- %s shard %d: data race reported\n%s" % (u["test"], sh, out[-3000:]))
                violations.append(dst)
            else:
                inconclusive.append("%s shard %d: race outside the library" % (u["test"], sh))
            continue
        hung = rc == "timeout" or "panic: test timed out" in out
        noreturn = "VERIF-NORETURN:" in out
        crashed = (not hung) and (not noreturn) and ("panic:" in out or "fatal error:" in out or "SIGSEGV" in out)
        if (hung or crashed or noreturn) and os.path.exists(curp):
            # confirm in fresh processes before reporting anything (all confirmations run concurrently below)
            want = "hang" if hung else ("noreturn" if noreturn else "crash")
            confirm.append((u, sh, spec, out, curp, tag, want))
            continue
        log(out[-4000:])
        inconclusive.append("%s shard %d: rc=%s without a failing case" % (u["test"], sh, rc))
    # ---- confirmation of hangs / crashes / calls that never returned
    def run_confirm(task):
        u, sh, spec, out, curp, tag, want = task
        n_ok, tries = 0, 2
        for _ in range(tries):
            st, rout = replay_unit(build, prop, u, curp, workdir, timeout=spec.get("hang_timeout", 90))
            if st == want or (want == "crash" and st == "fail"):
                n_ok += 1
        return task, n_ok, tries

    if confirm:
        with cf.ThreadPoolExecutor(max_workers=min(NCPU, len(confirm))) as ex:
            confirmed = list(ex.map(run_confirm, confirm))
        for (u, sh, spec, out, curp, tag, want), n_ok, tries in confirmed:
            lib_panic = want == "crash" and panicked_in_library(out)
            if (n_ok == tries and want in ("hang", "noreturn")) or lib_panic:
                # a panic raised inside the library is a violation even when the schedule that produced it does
                # not repeat: the saved case plus the trace below is then the reproduction material
                dst = save_replay(curp, prop, u["test"], tag + "-" + want)
                if lib_panic:
                    open(dst + ".trace.txt", "w").write(out[-30000:])
                log("---- %s shard %d: %s, reproduced %d/%d\n%s" % (u["test"], sh, want, n_ok, tries, out[-4000:]))
                violations.append(dst)
            else:
                log(out[-4000:])
                inconclusive.append("%s shard %d: %s not confirmed (%d/%d)" % (u["test"], sh, want, n_ok, tries))
    # ---- native fuzzing (thorough tier only)
    extra = {"regressions_replayed": regress_run}
    if tier == "thorough":
        finfo = []
        for fz in cfg.get("fuzz", []):
            st, info, crasher = run_fuzz(prop, fz, fz.get("secs", 300), workdir)
            finfo.append(info)
            if st == "violation":
                violations.append(crasher)
            elif st == "inconclusive":
                inconclusive.append("fuzz %s" % fz["target"])
        if finfo:
            extra["native_fuzz"] = finfo
    if known:
        extra["known_findings"] = [k["id"] for k in known]
    wall = time.time() - t0
    if frags:
        merge_evidence(prop, tier, seed, frags, wall, len(violations), extra)
    for v in violations:
        log("VIOLATION property=%s replay=%s" % (prop, v))
    if violations:
        return 1
    if inconclusive or not frags:
        for i in inconclusive:
            log("INCONCLUSIVE property=%s %s" % (prop, i))
        return 2
    ev = json.load(open(os.path.join(VERIF, "evidence", "%s.json" % prop)))
    log("OK property=%s tier=%s seed=%d evaluations=%d distinct_nontrivial=%d wall=%.1fs" % (
        prop, tier, seed, ev["coverage"]["evaluations"], ev["coverage"]["distinct_nontrivial"], wall))
    return 0


if __name__ == "__main__":
    sys.exit(main())
