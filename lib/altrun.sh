#!/bin/bash
# Development aid: run a check against a scratch worktree of /repo HEAD with a seeded patch applied, without
# touching /repo (a long run may be using it). Works on a throw-away copy of /verif whose replace directives
# point at the worktree. The registered commands and the committed evidence never come from here.
# usage: lib/altrun.sh <patch.diff|none> <ID> [tier]   (none: the unchanged HEAD, e.g. for a thorough silence run while /repo is in use)
patch=$1; [ "$patch" != none ] && patch=$(readlink -f "$1"); id=$2; tier=${3:-quick}
wt=$(mktemp -d /tmp/altrepo.XXXXXX); d=$(mktemp -d /tmp/altverif.XXXXXX)
git -C /repo worktree add -q --detach "$wt" HEAD || exit 2
if [ "$patch" != none ] && ! git -C "$wt" apply "$patch"; then echo "PATCH-DOES-NOT-APPLY $patch"; git -C /repo worktree remove --force "$wt"; rm -rf "$d"; exit 3; fi
rsync -a --exclude .git --exclude .work --exclude replays --exclude evidence /verif/ "$d/"
sed -i "s#=> /repo#=> $wt#" "$d/h23/go.mod" "$d/h26/go.mod"
(cd "$d" && VERIF_SEED=${VERIF_SEED:-1} ./check "$id" "$tier" > "$d/out.log" 2>&1; echo "rc=$?" >> "$d/out.log")
grep -v KNOWN-FINDING "$d/out.log" | grep -c "^VIOLATION" | sed 's/^/violations=/'
grep -v KNOWN-FINDING "$d/out.log" | tail -${TAIL:-3}
f=$(ls "$d"/replays/*.json 2>/dev/null | head -1)
if [ -n "$f" ]; then python3 -c "import json,sys;d=json.load(open('$f'));print('FIRST:',d.get('message','')[:${MSG:-600}])"; fi
git -C /repo worktree remove --force "$wt"; rm -rf "$d"
