package c03w

import (
	"strings"
	"context"
	"fmt"
	"testing"
	"testing/synctest"

	"github.com/ipfs/go-cid"
	"github.com/ipld/go-ipld-prime"
	cidlink "github.com/ipld/go-ipld-prime/linking/cid"
	"github.com/ipni/go-libipni/dagsync"
	"github.com/ipni/go-libipni/dagsync/ipnisync/head"
	"github.com/libp2p/go-libp2p/core/peer"
	"github.com/multiformats/go-multiaddr"
	"pgregory.net/rapid"

	"verif/h23/gen"
	"verif/h23/pbt"
	"verif/h26/world"
)

type step struct {
	Kind    string // honest | valid | foreign | cidswap | topicswap | sigflip | keyswap | emptypeer | foreignaddr | honestforeignaddr
	Pos     int    // chain position the (base) head is signed for
	SwapPos int    // position put into the head by cidswap
	Signer  int    // key pool index for foreign / keyswap
	Topic   string
	Pos2    int
	Resync  bool // the call asks for a re-sync (WithAdsResync): a rejected head must still fail it
	NilAddr int  // 1 / 2: the caller's address list also holds a nil entry, first / last (the library cleans such lists)
}

type Case struct {
	N         int
	Discovery bool
	PubKey    int // key of the publisher: 0 ed25519, -1 the RSA-4096 key, -2 the last key of the pool (RSA-2048)
	Steps     []step
}

var longTopic = strings.Repeat("/indexer/ingest/a-rather-long-network-name", 8)

func genCase(t *rapid.T) Case {
	c := Case{N: rapid.IntRange(2, 5).Draw(t, "n"), Discovery: rapid.Bool().Draw(t, "discovery")}
	c.PubKey = rapid.SampledFrom([]int{0, 0, 0, -1, -2}).Draw(t, "pubkey")
	ns := rapid.IntRange(1, 4).Draw(t, "nsteps")
	for i := 0; i < ns; i++ {
		s := step{Kind: rapid.SampledFrom([]string{"honest", "valid", "valid", "foreign", "cidswap", "cidswap", "topicswap", "sigflip", "keyswap", "emptypeer", "foreignaddr", "foreignaddr", "honestforeignaddr"}).Draw(t, "kind")}
		s.Pos = rapid.IntRange(0, c.N-1).Draw(t, "pos")
		if i > 0 && rapid.Bool().Draw(t, "reuse") {
			s.Pos = c.Steps[rapid.IntRange(0, i-1).Draw(t, "reuseof")].Pos
		}
		s.SwapPos = rapid.IntRange(0, c.N-1).Draw(t, "swappos")
		s.Signer = rapid.IntRange(1, len(gen.Keys())-2).Draw(t, "signer")
		s.Topic = rapid.SampledFrom([]string{"", "", "/indexer/ingest/mainnet", "t", longTopic}).Draw(t, "topic")
		s.Resync = rapid.IntRange(0, 3).Draw(t, "resync") == 0
		s.NilAddr = rapid.SampledFrom([]int{0, 0, 0, 1, 2}).Draw(t, "niladdr")
		c.Steps = append(c.Steps, s)
	}
	return c
}

func runCase(t *testing.T) func(Case) pbt.Result {
	return func(c Case) (res pbt.Result) {
		res.Classes = []string{fmt.Sprintf("discovery=%v", c.Discovery)}
		defer func() {
			if p := recover(); p != nil {
				res.Fail = fmt.Sprintf("panic: %v", p)
			}
		}()
		synctest.Test(t, func(t *testing.T) {
			w := world.New()
			defer w.Close()
			ki := c.PubKey
			if ki == -2 {
				ki = len(gen.Keys()) - 1
			}
			p := w.AddPublisher(ki, c.Discovery, "")
			p.ExtendAds(c.N)
			s, err := world.NewSub(w, false)
			if err != nil {
				res.Fail = err.Error()
				return
			}
			defer func() {
				if err := s.Shutdown(); err != nil && res.Fail == "" {
					res.Fail = "Close: " + err.Error()
				}
			}()
			keys := gen.Keys()
			ctx := context.Background()
			for si, st := range c.Steps {
				res.Classes = append(res.Classes, "step="+st.Kind)
				var body []byte
				wantAccept := false
				wantCid := p.Chain[st.Pos]
				mk := func(ci cid.Cid, topic string, k gen.Key) *head.SignedHead {
					sh, err := head.NewSignedHead(ci, topic, k.Priv)
					if err != nil {
						panic(err)
					}
					return sh
				}
				switch st.Kind {
				case "honest":
					p.Pub.SetRoot(p.Chain[st.Pos])
					p.SetHeadBody(nil)
					wantAccept = true
				case "valid":
					body, _ = mk(p.Chain[st.Pos], st.Topic, p.Key).Encode()
					wantAccept = true
				case "foreign", "foreignaddr": // validly signed by another identity
					body, _ = mk(p.Chain[st.Pos], st.Topic, keys[st.Signer]).Encode()
				case "honestforeignaddr":
					body, _ = mk(p.Chain[st.Pos], st.Topic, p.Key).Encode()
					wantAccept = true
				case "cidswap": // valid head, CID replaced (signature kept)
					sh := mk(p.Chain[st.Pos], st.Topic, p.Key)
					if st.SwapPos == st.Pos {
						st.SwapPos = (st.Pos + 1) % c.N
					}
					sh.Head = ipld.Link(cidlink.Link{Cid: p.Chain[st.SwapPos]})
					body, _ = sh.Encode()
				case "topicswap":
					sh := mk(p.Chain[st.Pos], st.Topic, p.Key)
					nt := st.Topic + "x"
					sh.Topic = &nt
					body, _ = sh.Encode()
				case "sigflip":
					sh := mk(p.Chain[st.Pos], st.Topic, p.Key)
					sh.Sig = append([]byte(nil), sh.Sig...)
					sh.Sig[st.SwapPos%len(sh.Sig)] ^= 0x10
					body, _ = sh.Encode()
				case "keyswap": // publisher's key with a foreign signature, or foreign key with the publisher's signature
					a, b := mk(p.Chain[st.Pos], st.Topic, p.Key), mk(p.Chain[st.Pos], st.Topic, keys[st.Signer])
					if st.SwapPos%2 == 0 {
						a.Sig = b.Sig
					} else {
						a.Pubkey = b.Pubkey
					}
					body, _ = a.Encode()
				}
				if body != nil {
					p.SetHeadBody(body)
				}
				info := p.Info()
				if st.Kind == "emptypeer" {
					info = peer.AddrInfo{Addrs: info.Addrs}
				}
				foreignID := keys[st.Signer].ID
				if st.Kind == "foreignaddr" || st.Kind == "honestforeignaddr" {
					// the caller names publisher P; the address carries another identity's /p2p component (the
					// identity that signed the head, for foreignaddr): the expected signer is still P
					suffix := multiaddr.StringCast("/p2p/" + foreignID.String())
					for i, a := range info.Addrs {
						info.Addrs[i] = multiaddr.Join(a, suffix)
					}
				}
				if st.Kind != "emptypeer" {
					switch st.NilAddr {
					case 1:
						info.Addrs = append([]multiaddr.Multiaddr{nil}, info.Addrs...)
					case 2:
						info.Addrs = append(info.Addrs[:len(info.Addrs):len(info.Addrs)], nil)
					}
				}
				foreignLatest0 := s.Latest(foreignID)
				latest0, ev0, req0, hk0 := s.Latest(p.ID), s.NEvents(), len(w.Requests()), s.NHooks()
				var so []dagsync.SyncOption
				if st.Resync {
					so = append(so, dagsync.WithAdsResync(true))
				}
				got, err := s.S.SyncAdChain(ctx, info, so...)
				w.Settle()
				what := fmt.Sprintf("step %d (%s, head for position %d)", si, st.Kind, st.Pos)
				reqs := w.Requests()[req0:]
				if st.Kind == "emptypeer" {
					if err == nil || len(reqs) != 0 {
						res.Fail = fmt.Sprintf("%s: sync with an empty peer ID: err %v, %d requests", what, err, len(reqs))
						return
					}
					res.NonTrivial = true
					continue
				}
				if wantAccept {
					if err != nil || got != wantCid {
						res.Fail = fmt.Sprintf("%s: a head validly signed by the publisher was not accepted: got %s err %v", what, got, err)
						return
					}
					if latest0 != wantCid && s.Latest(p.ID) != wantCid {
						res.Fail = fmt.Sprintf("%s: latest-sync is %s after a successful sync of %s", what, s.Latest(p.ID), wantCid)
						return
					}
					continue
				}
				res.NonTrivial = true
				if err == nil {
					res.Fail = fmt.Sprintf("%s: head must be rejected but SyncAdChain returned %s", what, got)
					return
				}
				afterHead := false
				for _, r := range reqs {
					if r.Kind == "head" {
						afterHead = true
					} else if r.Kind == "block" && afterHead {
						res.Fail = fmt.Sprintf("%s: block %s was requested after a head that must be rejected", what, r.Cid)
						return
					}
				}
				if s.Latest(foreignID) != foreignLatest0 {
					res.Fail = fmt.Sprintf("%s: the sync for publisher %s was rejected but moved latest-sync of %s (the identity embedded in the address) to %s", what, p.ID, foreignID, s.Latest(foreignID))
					return
				}
				if s.Latest(p.ID) != latest0 || s.NEvents() != ev0 || s.NHooks() != hk0 {
					res.Fail = fmt.Sprintf("%s: rejected head changed state: latest %s -> %s, events %d -> %d, hooks %d -> %d", what, latest0, s.Latest(p.ID), ev0, s.NEvents(), hk0, s.NHooks())
					return
				}
			}
		})
		return res
	}
}

func TestC03_Subscriber(t *testing.T) {
	pbt.Run(t, pbt.Config{Prop: "C03", Unit: "TestC03_Subscriber", TrackCurrent: true,
		Rule: "one real subscriber and one publisher (ed25519, RSA-2048 or RSA-4096 identity; topics from none to 330 characters, so encoded heads of 300..2500 bytes; plain or discovery transport), 1..4 consecutive SyncAdChain calls on the same handler/syncer, each against a drawn head response: the publisher's honest head, a valid head for any chain position, a head validly signed by another identity, a valid head with the CID replaced (signature kept; often the very head a previous step accepted), topic changed, signature bit flipped, key or signature swapped with a foreign signer's, a call with an empty peer ID, or a call that names the publisher but whose addresses carry another identity's /p2p component (with a head signed by that identity: must be rejected and leave that identity's latest-sync alone; with the publisher's own head: accepted); any call's address list may also hold a nil entry; oracle: accepted iff valid and signed by the synced publisher (returns that CID, latest-sync = CID); otherwise error, no block request after the head request, latest-sync / events / hooks unchanged; empty peer ID rejected before any request. Non-trivial: a step that must be rejected; distinct by case.",
	}, genCase, runCase(t))
}
