package c03w

import (
	"context"
	"fmt"
	"testing"
	"testing/synctest"

	"github.com/ipfs/go-cid"
	"github.com/libp2p/go-libp2p/core/peer"
	"pgregory.net/rapid"

	"verif/h23/gen"
	"verif/h23/pbt"
	"verif/h26/world"
)

// Two head queries in flight at the same address at once, for two different expected publishers: the server
// is publisher Y; one caller syncs Y, the other names identity X but gives Y's address. Whatever the library
// shares between concurrent queries, X's caller must not be handed a head signed by Y.

type concHeadCase struct {
	N         int
	Discovery bool
	Foreign   int  // key pool index of X
	XFirst    bool // which call is issued first
}

func TestC03_ConcurrentHeads(t *testing.T) {
	pbt.Run(t, pbt.Config{Prop: "C03", Unit: "TestC03_ConcurrentHeads", TrackCurrent: true,
		Rule: "one publisher Y (plain or discovery transport) whose head requests are held; SyncAdChain for Y and SyncAdChain for another identity X at Y's address are issued (either order) while the head requests are held, then released; oracle at quiescence: the sync of Y returns Y's head; the sync of X fails, records no latest-sync for X, and requests no block. Non-trivial: always; distinct by case.",
	}, func(t *rapid.T) concHeadCase {
		return concHeadCase{N: rapid.IntRange(1, 3).Draw(t, "n"), Discovery: rapid.Bool().Draw(t, "discovery"), Foreign: rapid.IntRange(1, len(gen.Keys())-1).Draw(t, "foreign"), XFirst: rapid.Bool().Draw(t, "xfirst")}
	}, func(c concHeadCase) (res pbt.Result) {
		res.NonTrivial = true
		defer func() {
			if p := recover(); p != nil {
				res.Fail = fmt.Sprintf("panic: %v", p)
			}
		}()
		synctest.Test(t, func(t *testing.T) {
			w := world.New()
			defer w.Close()
			p := w.AddPublisher(0, c.Discovery, "")
			p.ExtendAds(c.N)
			s, err := world.NewSub(w, false)
			if err != nil {
				res.Fail = err.Error()
				return
			}
			defer func() {
				if err := s.Shutdown(); err != nil && res.Fail == "" {
					res.Fail = "Close: " + err.Error()
				}
			}()
			x := gen.Keys()[c.Foreign].ID
			ctx := context.Background()
			type out struct {
				c   cid.Cid
				err error
			}
			yc, xc := make(chan out, 1), make(chan out, 1)
			p.HoldHeads()
			callY := func() { go func() { got, err := s.S.SyncAdChain(ctx, p.Info()); yc <- out{got, err} }() }
			callX := func() {
				go func() {
					got, err := s.S.SyncAdChain(ctx, peer.AddrInfo{ID: x, Addrs: p.Info().Addrs})
					xc <- out{got, err}
				}()
			}
			if c.XFirst {
				callX()
				w.SettleUntil(func() bool { return p.ParkedHeads() > 0 })
				callY()
			} else {
				callY()
				w.SettleUntil(func() bool { return p.ParkedHeads() > 0 })
				callX()
			}
			w.SettleUntil(nil)
			p.OpenHeads()
			w.SettleUntilCap(func() bool { return len(yc) == 1 && len(xc) == 1 }, 50000)
			if len(yc) != 1 || len(xc) != 1 {
				panic("VERIF-NORETURN: a sync call has not returned 10 s after the head requests were released")
			}
			synctest.Wait()
			oy, ox := <-yc, <-xc
			if oy.err != nil || oy.c != p.Chain[c.N-1] {
				res.Fail = fmt.Sprintf("the sync of publisher Y returned %s, %v (want its head)", oy.c, oy.err)
				return
			}
			if ox.err == nil {
				res.Fail = fmt.Sprintf("a sync that names publisher %s at Y's address returned %s without error while a sync of Y was in flight at the same address: the head is signed by Y, not by the publisher asked for", x, ox.c)
				return
			}
			if l := s.Latest(x); l.Defined() {
				res.Fail = fmt.Sprintf("the rejected sync recorded latest-sync %s for %s", l, x)
			}
		})
		return res
	})
}
