package c08

import (
	"context"
	"fmt"
	"sync/atomic"
	"testing"
	"testing/synctest"
	"time"

	"github.com/ipni/go-libipni/dagsync"
	"github.com/multiformats/go-multiaddr"
	"pgregory.net/rapid"

	"verif/h23/pbt"
	"verif/h26/world"
)

// A sync of a publisher is queued behind a running explicit sync of the same publisher. The tail of the first
// sync (record the address, record latest-sync, notify) is stretched by an application that is busy with the
// subscriber's HTTP peer store (Subscriber.HttpPeerStore, a public accessor): whatever the second sync reads
// must already include the first sync's result.

type behindCase struct {
	N1, N2 int
	Second string // sync | announce | both
	Busy   bool   // the application keeps writing large address lists to the subscriber's HTTP peer store
}

var manyAddrs = func() []multiaddr.Multiaddr {
	var out []multiaddr.Multiaddr
	for i := 0; i < 4000; i++ {
		out = append(out, multiaddr.StringCast(fmt.Sprintf("/ip4/10.%d.%d.%d/tcp/80/http", 100+i/65536, (i/256)%256, i%256)))
	}
	return out
}()

func TestC08_BehindExplicit(t *testing.T) {
	pbt.Run(t, pbt.Config{Prop: "C08", Unit: "TestC08_BehindExplicit", TrackCurrent: true,
		Rule: "one publisher; an explicit sync of 1..3 ads is parked at its first block request (its head is already known); 1..3 more ads are published and a second sync of the publisher is issued (explicit, announcement, or both) and queues behind the first; optionally an application goroutine keeps writing a list of 4000 addresses for the publisher into the subscriber's HTTP peer store (which the tail of every successful sync also writes to); the gate opens; oracle at exact quiescence: both syncs succeed, every advertisement was handed to the hook exactly once, latest-sync = the last head, one notification per sync. Non-trivial: the peer store was kept busy; distinct by case.",
	}, func(t *rapid.T) behindCase {
		return behindCase{N1: rapid.IntRange(1, 3).Draw(t, "n1"), N2: rapid.IntRange(1, 3).Draw(t, "n2"), Second: rapid.SampledFrom([]string{"sync", "announce", "both"}).Draw(t, "second"), Busy: rapid.IntRange(0, 4).Draw(t, "busy") > 0}
	}, func(c behindCase) (res pbt.Result) {
		res.NonTrivial = c.Busy
		res.Classes = []string{"second=" + c.Second, fmt.Sprintf("busy=%v", c.Busy)}
		var viol string
		defer func() {
			if p := recover(); p != nil {
				if viol == "" {
					viol = fmt.Sprintf("panic: %v", p)
				}
				res.Fail = fmt.Sprintf("%s\ncase: %+v", viol, c)
			}
		}()
		synctest.Test(t, func(t *testing.T) {
			w := world.New()
			defer w.Close()
			p := w.AddPublisher(0, false, "")
			p.ExtendAds(c.N1)
			s, err := world.NewSub(w, true, dagsync.HttpTimeout(24*time.Hour), dagsync.SegmentDepthLimit(-1))
			if err != nil {
				viol = err.Error()
				return
			}
			ctx := context.Background()
			p.Hold()
			firstDone, secondDone := make(chan error, 1), make(chan error, 1)
			go func() { _, err := s.S.SyncAdChain(ctx, p.Info()); firstDone <- err }()
			synctest.Wait() // only one library call so far: nobody waits on a mutex
			if p.Parked() != 1 {
				viol = "the first sync did not park"
				p.Open()
				return
			}
			p.ExtendAds(c.N2)
			head := p.Chain[len(p.Chain)-1]
			if c.Second == "announce" || c.Second == "both" {
				_ = s.S.Announce(ctx, head, p.Info())
			}
			if c.Second == "sync" || c.Second == "both" {
				go func() { _, err := s.S.SyncAdChain(ctx, p.Info()); secondDone <- err }()
			} else {
				secondDone <- nil
			}
			w.SettleUntil(nil)
			var stop atomic.Bool
			busyDone := make(chan struct{})
			if c.Busy {
				ps := s.S.HttpPeerStore()
				go func() {
					defer close(busyDone)
					for !stop.Load() {
						ps.AddAddrs(p.ID, manyAddrs, time.Hour)
					}
				}()
			} else {
				close(busyDone)
			}
			p.Open()
			w.SettleUntilCap(func() bool { return len(firstDone) == 1 && len(secondDone) == 1 && s.Latest(p.ID) == head }, 50000)
			stop.Store(true)
			<-busyDone
			if len(firstDone) != 1 || len(secondDone) != 1 {
				panic("VERIF-NORETURN: a sync call has not returned 10 s after the gate was opened")
			}
			synctest.Wait()
			if err := <-firstDone; err != nil {
				viol = "first sync failed: " + err.Error()
				return
			}
			if err := <-secondDone; err != nil {
				viol = "second sync failed: " + err.Error()
				return
			}
			count := map[int]int{}
			var order []int
			for _, hc := range s.HookCids(0) {
				i := posIn(p.Chain, hc)
				count[i]++
				order = append(order, i)
			}
			for i := range p.Chain {
				if count[i] != 1 {
					viol = fmt.Sprintf("advertisement at position %d was handed to the hook %d times (hook calls in order: %v): the sync queued behind the first one did not start from the first one's result", i, count[i], order)
					return
				}
			}
			if got := s.Latest(p.ID); got != head {
				viol = fmt.Sprintf("latest-sync is at position %d after both syncs completed, the last head is at %d", posIn(p.Chain, got), len(p.Chain)-1)
				return
			}
			if n := s.NEvents(); n != 2 {
				viol = fmt.Sprintf("%d notifications for two syncs that each moved latest-sync: %+v", n, s.EventsFrom(0))
				return
			}
			if err := s.Shutdown(); err != nil {
				viol = "Close: " + err.Error()
			}
		})
		res.Fail = viol
		if viol != "" {
			res.Fail = fmt.Sprintf("%s\ncase: %+v", viol, c)
		}
		return res
	})
}
