package c08

import (
	"context"
	"fmt"
	"sync"
	"testing"
	"testing/synctest"
	"time"

	"github.com/ipfs/go-cid"
	"github.com/ipni/go-libipni/dagsync"
	"github.com/libp2p/go-libp2p/core/peer"
	"pgregory.net/rapid"

	"verif/h23/pbt"
	"verif/h26/world"
)

// A subscriber that starts from a persisted "last known sync" (WithLastKnownSync): the application reads
// GetLatestSync while syncs of the same publisher run. The callback is application code (a datastore read) and
// takes as long as it takes; the harness owns that duration.

type lastKnownCase struct {
	Known   int    // position of the persisted last-known sync
	N1      int    // ads after it when the first sync runs
	Entry   string // announce | sync
	Readers int    // application goroutines calling GetLatestSync before the sync starts; their callback returns late
	Release string // before | during | after: when the readers' callbacks return, relative to the sync
	N2      int    // ads published afterwards and announced
}

func TestC08_LastKnown(t *testing.T) {
	pbt.Run(t, pbt.Config{Prop: "C08", Unit: "TestC08_LastKnown", TrackCurrent: true,
		Rule: "one publisher; the subscriber is created with WithLastKnownSync returning a persisted position 0..2; 1..3 newer ads; 0..2 application goroutines call GetLatestSync and their callback invocation (a datastore read) returns before, during (the sync is parked at the publisher's gate) or after a sync of the publisher (announce-triggered or explicit); then 0..2 more ads are published and announced; oracle at exact quiescence: latest-sync = the last head, every advertisement after the persisted position was handed to the hook exactly once, none at or before it. Non-trivial: a reader's callback returned during or after the sync; distinct by case.",
	}, func(t *rapid.T) lastKnownCase {
		c := lastKnownCase{Known: rapid.IntRange(0, 2).Draw(t, "known"), N1: rapid.IntRange(1, 3).Draw(t, "n1"), Entry: rapid.SampledFrom([]string{"announce", "sync"}).Draw(t, "entry")}
		c.Readers = rapid.IntRange(0, 2).Draw(t, "readers")
		c.Release = rapid.SampledFrom([]string{"before", "during", "after"}).Draw(t, "release")
		c.N2 = rapid.IntRange(0, 2).Draw(t, "n2")
		return c
	}, func(c lastKnownCase) (res pbt.Result) {
		res.NonTrivial = c.Readers > 0 && c.Release != "before"
		res.Classes = []string{"entry=" + c.Entry, "release=" + c.Release, fmt.Sprintf("readers=%d", c.Readers)}
		var viol string
		defer func() {
			if p := recover(); p != nil {
				if viol == "" {
					viol = fmt.Sprintf("panic: %v", p)
				}
				res.Fail = fmt.Sprintf("%s\ncase: %+v", viol, c)
			}
		}()
		synctest.Test(t, func(t *testing.T) {
			w := world.New()
			defer w.Close()
			p := w.AddPublisher(0, false, "")
			p.ExtendAds(c.Known + 1 + c.N1)
			known := p.Chain[c.Known]
			var mu sync.Mutex
			slow := false // the next callback invocations are the application readers': they return when released
			release := make(chan struct{})
			parked := 0
			cb := func(id peer.ID) (cid.Cid, bool) {
				mu.Lock()
				wait := slow
				if wait {
					parked++
				}
				mu.Unlock()
				if wait {
					<-release
				}
				return known, id == p.ID
			}
			s, err := world.NewSub(w, true, dagsync.WithLastKnownSync(cb), dagsync.HttpTimeout(24*time.Hour), dagsync.SegmentDepthLimit(-1))
			if err != nil {
				viol = err.Error()
				return
			}
			ctx := context.Background()
			readersDone := make(chan struct{}, c.Readers)
			mu.Lock()
			slow = c.Readers > 0
			mu.Unlock()
			for i := 0; i < c.Readers; i++ {
				go func() { _ = s.S.GetLatestSync(p.ID); readersDone <- struct{}{} }()
			}
			synctest.Wait()
			mu.Lock()
			slow = false
			np := parked
			mu.Unlock()
			if np != c.Readers {
				viol = fmt.Sprintf("%d of %d readers reached the last-known-sync callback", np, c.Readers)
				close(release)
				return
			}
			if c.Release == "before" {
				close(release)
				synctest.Wait()
			}
			if c.Release == "during" {
				p.Hold()
			}
			syncDone := make(chan error, 1)
			head := p.Chain[len(p.Chain)-1]
			if c.Entry == "announce" {
				_ = s.S.Announce(ctx, head, p.Info())
				syncDone <- nil
			} else {
				go func() { _, err := s.S.SyncAdChain(ctx, p.Info()); syncDone <- err }()
			}
			synctest.Wait()
			if c.Release == "during" {
				if p.Parked() != 1 {
					viol = "the sync did not park at the publisher's gate"
					close(release)
					p.Open()
					return
				}
				close(release)
				synctest.Wait()
				p.Open()
				synctest.Wait()
			}
			if c.Release == "after" {
				close(release)
				synctest.Wait()
			}
			if err := <-syncDone; err != nil {
				viol = "sync failed: " + err.Error()
				return
			}
			for i := 0; i < c.Readers; i++ {
				<-readersDone
			}
			if got := s.Latest(p.ID); got != head {
				viol = fmt.Sprintf("after the sync of the head (position %d) completed and all activity ceased, latest-sync is at position %d (persisted last-known position %d): a GetLatestSync call that had read the persisted value before the sync finished stored it over the sync's result", len(p.Chain)-1, posIn(p.Chain, got), c.Known)
				return
			}
			if c.N2 > 0 {
				p.ExtendAds(c.N2)
				_ = s.S.Announce(ctx, p.Chain[len(p.Chain)-1], p.Info())
				synctest.Wait()
				if got := s.Latest(p.ID); got != p.Chain[len(p.Chain)-1] {
					viol = fmt.Sprintf("latest-sync is at position %d after the announcement of position %d was handled", posIn(p.Chain, got), len(p.Chain)-1)
					return
				}
			}
			count := map[int]int{}
			for _, hc := range s.HookCids(0) {
				count[posIn(p.Chain, hc)]++
			}
			for i := range p.Chain {
				want := 1
				if i <= c.Known {
					want = 0
				}
				if count[i] != want {
					viol = fmt.Sprintf("advertisement at position %d was handed to the hook %d times, expected %d (persisted last-known position %d)", i, count[i], want, c.Known)
					return
				}
			}
			if err := s.Shutdown(); err != nil {
				viol = "Close: " + err.Error()
			}
		})
		res.Fail = viol
		if viol != "" {
			res.Fail = fmt.Sprintf("%s\ncase: %+v", viol, c)
		}
		return res
	})
}

func posIn(chain []cid.Cid, c cid.Cid) int {
	for i, x := range chain {
		if x == c {
			return i
		}
	}
	return -1
}
