package c08

import (
	"fmt"
	"sort"
	"strings"
	"testing"
	"testing/synctest"

	"github.com/ipfs/go-cid"
	"github.com/ipni/go-libipni/dagsync"
	"pgregory.net/rapid"

	"verif/h23/pbt"
	"verif/h26/world"
)

type Case struct {
	Script    world.Script
	Discovery bool
}

func genCase(t *rapid.T) Case {
	k := rapid.IntRange(1, 3).Draw(t, "k")
	sc := world.Script{K: k}
	sc.MaxAsync = rapid.SampledFrom([]int{0, 0, 1, 2, k, max(1, k-1)}).Draw(t, "maxasync")
	n := rapid.IntRange(3, 40).Draw(t, "nsteps")
	ops := []string{"publish", "publish", "announce", "announce", "announce", "sync", "hold", "open", "failannounce", "badannounce", "entries", "rmhandler", "tick"}
	for i := 0; i < n; i++ {
		st := world.Step{Op: rapid.SampledFrom(ops).Draw(t, "op"), P: rapid.IntRange(0, k-1).Draw(t, "p"), N: rapid.IntRange(1, 3).Draw(t, "n")}
		sc.Steps = append(sc.Steps, st)
		// bursts: a publish is usually followed by its announcement
		if st.Op == "publish" && rapid.IntRange(0, 3).Draw(t, "thenannounce") > 0 {
			sc.Steps = append(sc.Steps, world.Step{Op: "announce", P: st.P})
		}
	}
	if rapid.IntRange(0, 7).Draw(t, "longsync") == 0 {
		// a sync that outlives the idle-handler TTL, then more traffic for the same or another publisher
		p := rapid.IntRange(0, k-1).Draw(t, "lsp")
		q := rapid.IntRange(0, k-1).Draw(t, "lsq")
		motif := []world.Step{{Op: "publish", P: p, N: 1}, {Op: "hold", P: p}, {Op: "announce", P: p}, {Op: "tick"}, {Op: "publish", P: q, N: 1}, {Op: "announce", P: q}, {Op: "open", P: p}}
		if rapid.Bool().Draw(t, "lsentries") {
			// the long-running sync is an explicit entries sync; afterwards the publisher is announced
			motif = []world.Step{{Op: "hold", P: p}, {Op: "entries", P: p, N: 2}, {Op: "tick"}, {Op: "open", P: p}, {Op: "publish", P: p, N: 1}, {Op: "announce", P: p}}
		}
		at := rapid.IntRange(0, len(sc.Steps)).Draw(t, "lsat")
		sc.Steps = append(sc.Steps[:at:at], append(motif, sc.Steps[at:]...)...)
	}
	return Case{Script: sc, Discovery: rapid.Bool().Draw(t, "discovery")}
}

func runCase(t *testing.T) func(Case) pbt.Result {
	return func(c Case) (res pbt.Result) {
		known := pbt.IsKnown("KF-C08-2")
		var viol string
		kinds := map[string]int{}
		defer func() {
			if p := recover(); p != nil {
				if viol != "" {
					res.Fail = viol
				} else {
					res.Fail = fmt.Sprintf("panic: %v", p)
				}
			}
		}()
		synctest.Test(t, func(t *testing.T) {
			w := world.New()
			defer w.Close()
			e, err := world.NewExec(w, c.Script, c.Discovery, dagsync.SegmentDepthLimit(-1))
			if err != nil {
				viol = "NewSubscriber: " + err.Error()
				return
			}
			overlapExplicit := map[int]bool{} // publishers whose explicit sync overlapped another sync (known finding region when not excluded)
			for i, st := range c.Script.Steps {
				// classification before running
				switch st.Op {
				case "announce", "failannounce", "badannounce":
					if e.Pubs[st.P].InFlight() > 0 {
						kinds["announce-while-sync-held"]++
					}
				case "sync":
					busy := e.Pubs[st.P].InFlight() > 0
					if busy {
						kinds["explicit-overlaps-sync"]++
						overlapExplicit[st.P] = true
					}
				}
				e.Run(i, st, known)
				if e.Viol != "" {
					break
				}
			}
			e.Finish(true)
			if err := e.S.Shutdown(); err != nil && e.Viol == "" {
				e.Viol = "Close: " + err.Error()
			}
			viol = e.Viol
			for k, v := range e.Excluded {
				kinds["excluded:"+k] += v
			}
			if viol != "" {
				return
			}
			// ---- final state, at exact quiescence
			if c.Script.MaxAsync > 0 && e.MaxPubsBusy > c.Script.MaxAsync {
				viol = fmt.Sprintf("%d publishers had announce-triggered syncs in flight at once, the configured maximum is %d", e.MaxPubsBusy, c.Script.MaxAsync)
				return
			}
			if c.Script.MaxAsync > 0 && e.MaxPubsBusy == c.Script.MaxAsync && c.Script.K > c.Script.MaxAsync {
				kinds["semaphore-saturated"]++
			}
			evs := e.S.EventsFrom(0)
			for pi, p := range e.Pubs {
				pos := map[string]int{}
				for i, ci := range p.Chain {
					pos[ci.String()] = i
				}
				// RemoveHandler drops the publisher's handler (locks, pending announcement, syncer) but not its
				// latest-sync, so the observations before and after it are judged as one history
				if len(e.Marks[pi]) > 0 {
					kinds["handler-removed"]++
				}
				if e.Ticks > 0 {
					kinds["idle-ttl-passed"]++
				}
				if e.TicksDuringSync > 0 {
					kinds["idle-ttl-passed-during-sync"]++
				}
				final := world.Mark{Hooks: len(e.S.Hooks), Events: len(evs), Announced: len(e.Announced[pi]), Ops: len(e.Ops), Latest: e.S.Latest(p.ID)}
				if v := checkEpoch(e, pi, p, pos, world.Mark{}, final, evs); v != "" {
					viol = fmt.Sprintf("publisher %d: %s", pi, v)
					return
				}
			}
			// entries syncs: the scoped hook of each received exactly its own chain, newest to oldest
			for _, o := range e.Ops {
				if o.Kind != "entries" || !o.Done() {
					continue
				}
				kinds["entries-sync"]++
				want := make([]cid.Cid, 0, len(o.Ent))
				for i := len(o.Ent) - 1; i >= 0; i-- {
					want = append(want, o.Ent[i])
				}
				got := o.Scoped()
				if o.Err == nil && len(got) != len(want) {
					viol = fmt.Sprintf("entries sync of publisher %d issued at step %d succeeded, its scoped hook was called %d times for a chain of %d chunks", o.P, o.Step, len(got), len(want))
					return
				}
				for i, g := range got {
					if i >= len(want) || g != want[i] {
						viol = fmt.Sprintf("entries sync of publisher %d issued at step %d: call %d of its scoped hook is for block %s, which is not the next chunk of its own chain (a block of another sync)", o.P, o.Step, i, g)
						return
					}
				}
			}
		})
		if viol != "" {
			res.Fail = viol + "\nscript: " + render(c)
		}
		var ks []string
		for k := range kinds {
			ks = append(ks, k)
		}
		sort.Strings(ks)
		res.Classes = ks
		res.NonTrivial = kinds["announce-while-sync-held"] > 0 || kinds["explicit-overlaps-sync"] > 0 || kinds["semaphore-saturated"] > 0
		for k, v := range kinds {
			if strings.HasPrefix(k, "excluded:") && v > 0 {
				res.Known = "" // exclusion by construction is counted through the class histogram
			}
		}
		return res
	}
}

// checkEpoch judges one publisher's observations between two RemoveHandler points (or the start / the end).
func checkEpoch(e *world.Exec, pi int, p *world.Publisher, pos map[string]int, from, to world.Mark, evs []dagsync.SyncFinished) string {
	lpos, okl := pos[to.Latest.String()]
	if !okl {
		lpos = -1
	}
	evs = evs[from.Events:to.Events]
	ann := e.Announced[pi][from.Announced:to.Announced]
	// I3: the last announced head is synced, or an error notification for it was delivered
	if len(ann) > 0 {
		last := ann[len(ann)-1]
		errEvent := false
		for _, ev := range evs {
			if ev.PeerID == p.ID && ev.Err != nil && ev.Cid == last {
				errEvent = true
			}
		}
		if lpos < pos[last.String()] && !errEvent {
			return fmt.Sprintf("the last announced head (position %d) was never synced (latest-sync at position %d) and no error notification for it was delivered; announced positions %v", pos[last.String()], lpos, positions(ann, pos))
		}
	}
	// I4: every advertisement up to latest-sync was reported exactly once, none beyond
	count := map[int]int{}
	var seq []int
	for _, hc := range e.S.Hooks[from.Hooks:to.Hooks] {
		if hc.Peer != p.ID {
			continue
		}
		i, ok := pos[hc.Cid.String()]
		if !ok {
			return "the subscriber's general hook was called for a block that is not an advertisement of its chain (a block of an entries sync that has its own scoped hook)"
		}
		count[i]++
		seq = append(seq, i)
	}
	for i := 0; i <= lpos; i++ {
		if count[i] != 1 {
			return fmt.Sprintf("advertisement at position %d was reported %d times (latest-sync at %d); hook order %v", i, count[i], lpos, seq)
		}
	}
	for i := range count {
		if i > lpos {
			return fmt.Sprintf("advertisement at position %d was reported but latest-sync is at %d; hook order %v", i, lpos, seq)
		}
	}
	// I1: hook calls of different syncs never interleave: the sequence is a concatenation of descending runs
	for i := 1; i < len(seq); i++ {
		if seq[i] != seq[i-1]-1 && !(seq[i] > seq[i-1]) {
			return fmt.Sprintf("hook order %v is not a concatenation of newest-to-oldest runs", seq)
		}
	}
	// notifications: per publisher in completion order, counts add up
	lastPos, nEv := -1, 0
	for _, ev := range evs {
		if ev.PeerID != p.ID {
			continue
		}
		nEv++
		if ev.Err != nil {
			continue
		}
		ep := pos[ev.Cid.String()]
		if ep <= lastPos {
			return fmt.Sprintf("success notifications out of order (position %d after %d)", ep, lastPos)
		}
		if ev.Count != ep-lastPos {
			return fmt.Sprintf("notification for position %d reports %d blocks, %d were synced since position %d", ep, ev.Count, ep-lastPos, lastPos)
		}
		lastPos = ep
	}
	// I5: coalescing: never more handled syncs than announcements + explicit syncs
	nSync := 0
	for _, o := range e.Ops[from.Ops:to.Ops] {
		if o.P == pi && o.Kind == "sync" {
			nSync++
		}
	}
	if nEv > len(ann)+nSync {
		return fmt.Sprintf("%d notifications for %d announcements and %d explicit syncs", nEv, len(ann), nSync)
	}
	return ""
}

func positions(cs []cid.Cid, pos map[string]int) []int {
	var out []int
	for _, c := range cs {
		out = append(out, pos[c.String()])
	}
	return out
}

func render(c Case) string {
	var sb strings.Builder
	fmt.Fprintf(&sb, "k=%d maxAsync=%d discovery=%v:", c.Script.K, c.Script.MaxAsync, c.Discovery)
	for _, s := range c.Script.Steps {
		switch s.Op {
		case "publish":
			fmt.Fprintf(&sb, " publish(p%d,+%d)", s.P, s.N)
		default:
			fmt.Fprintf(&sb, " %s(p%d)", s.Op, s.P)
		}
	}
	return sb.String()
}

func TestC08_Scripts(t *testing.T) {
	pbt.Run(t, pbt.Config{Prop: "C08", Unit: "TestC08_Scripts", TrackCurrent: true,
		Rule: "scripts of 3..40 steps over 1..3 publishers and one real subscriber (MaxAsyncConcurrency unlimited, 1, 2, k-1, k): publish 1..3 ads, announce the current head (in chain order), announce a head whose first block request fails, announce the head with sender information no sync can use (only a non-HTTP address), explicit sync, explicit sync of a fresh entries chain of 1..3 chunks with its own scoped hook, RemoveHandler of a publisher that is certainly idle (its handler with locks and pending state is dropped, latest-sync is kept), let the virtual clock pass the idle-handler TTL (idle handlers are dropped; a handler with a parked sync must stay), hold / open a publisher's gate (block requests park), so that announcement bursts arrive while a sync of the same publisher is held; after every step: at most one block request in flight per publisher, concurrently busy publishers <= the configured maximum; at exact quiescence with all gates open: every publisher's latest-sync is at or after its last announced head or an error notification for that head was delivered; every advertisement up to latest-sync was reported exactly once and none beyond; hook calls form whole newest-to-oldest runs; success notifications are in order with counts that add up; never more syncs handled than announcements + explicit syncs; each entries sync's scoped hook received exactly its own chunks, newest to oldest, and the general hook none of them. Non-trivial: an announcement arrived while a sync of the same publisher was held, an explicit sync overlapped another sync, or the semaphore was saturated; distinct by case.",
		Assumptions: []string{"announcements per publisher follow chain order (documented caller obligation); arrival timing varies", "while a gate-held sync coexists with goroutines waiting on a library mutex the harness settles heuristically (1 ms of stable activity); only 'nothing bad has happened' is asserted then, every 'has happened' assertion waits for exact quiescence"},
	}, genCase, runCase(t))
}

