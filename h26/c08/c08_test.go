package c08

import (
	"fmt"
	"sort"
	"strings"
	"testing"
	"testing/synctest"

	"github.com/ipfs/go-cid"
	"github.com/ipni/go-libipni/dagsync"
	"pgregory.net/rapid"

	"verif/h23/pbt"
	"verif/h26/world"
)

type Case struct {
	Script    world.Script
	Discovery bool
}

func genCase(t *rapid.T) Case {
	k := rapid.IntRange(1, 3).Draw(t, "k")
	sc := world.Script{K: k}
	sc.MaxAsync = rapid.SampledFrom([]int{0, 0, 1, 2, k, max(1, k-1)}).Draw(t, "maxasync")
	n := rapid.IntRange(3, 40).Draw(t, "nsteps")
	ops := []string{"publish", "publish", "announce", "announce", "announce", "sync", "hold", "open", "failannounce", "badannounce"}
	for i := 0; i < n; i++ {
		st := world.Step{Op: rapid.SampledFrom(ops).Draw(t, "op"), P: rapid.IntRange(0, k-1).Draw(t, "p"), N: rapid.IntRange(1, 3).Draw(t, "n")}
		sc.Steps = append(sc.Steps, st)
		// bursts: a publish is usually followed by its announcement
		if st.Op == "publish" && rapid.IntRange(0, 3).Draw(t, "thenannounce") > 0 {
			sc.Steps = append(sc.Steps, world.Step{Op: "announce", P: st.P})
		}
	}
	return Case{Script: sc, Discovery: rapid.Bool().Draw(t, "discovery")}
}

func runCase(t *testing.T) func(Case) pbt.Result {
	return func(c Case) (res pbt.Result) {
		known := pbt.IsKnown("KF-C08-2")
		var viol string
		kinds := map[string]int{}
		defer func() {
			if p := recover(); p != nil {
				if viol != "" {
					res.Fail = viol
				} else {
					res.Fail = fmt.Sprintf("panic: %v", p)
				}
			}
		}()
		synctest.Test(t, func(t *testing.T) {
			w := world.New()
			defer w.Close()
			e, err := world.NewExec(w, c.Script, c.Discovery, dagsync.SegmentDepthLimit(-1))
			if err != nil {
				viol = "NewSubscriber: " + err.Error()
				return
			}
			overlapExplicit := map[int]bool{} // publishers whose explicit sync overlapped another sync (known finding region when not excluded)
			for i, st := range c.Script.Steps {
				// classification before running
				switch st.Op {
				case "announce", "failannounce", "badannounce":
					if e.Pubs[st.P].InFlight() > 0 {
						kinds["announce-while-sync-held"]++
					}
				case "sync":
					busy := e.Pubs[st.P].InFlight() > 0
					if busy {
						kinds["explicit-overlaps-sync"]++
						overlapExplicit[st.P] = true
					}
				}
				e.Run(i, st, known)
				if e.Viol != "" {
					break
				}
			}
			e.Finish(true)
			if err := e.S.Shutdown(); err != nil && e.Viol == "" {
				e.Viol = "Close: " + err.Error()
			}
			viol = e.Viol
			for k, v := range e.Excluded {
				kinds["excluded:"+k] += v
			}
			if viol != "" {
				return
			}
			// ---- final state, at exact quiescence
			if c.Script.MaxAsync > 0 && e.MaxPubsBusy > c.Script.MaxAsync {
				viol = fmt.Sprintf("%d publishers had announce-triggered syncs in flight at once, the configured maximum is %d", e.MaxPubsBusy, c.Script.MaxAsync)
				return
			}
			if c.Script.MaxAsync > 0 && e.MaxPubsBusy == c.Script.MaxAsync && c.Script.K > c.Script.MaxAsync {
				kinds["semaphore-saturated"]++
			}
			evs := e.S.EventsFrom(0)
			for pi, p := range e.Pubs {
				pos := map[string]int{}
				for i, ci := range p.Chain {
					pos[ci.String()] = i
				}
				latest := e.S.Latest(p.ID)
				lpos, okl := pos[latest.String()]
				if !okl {
					lpos = -1
				}
				// I3: the last announced head is synced, or an error notification for it was delivered
				if ann := e.Announced[pi]; len(ann) > 0 {
					last := ann[len(ann)-1]
					errEvent := false
					for _, ev := range evs {
						if ev.PeerID == p.ID && ev.Err != nil && ev.Cid == last {
							errEvent = true
						}
					}
					if lpos < pos[last.String()] && !errEvent {
						viol = fmt.Sprintf("publisher %d: the last announced head (position %d) was never synced (latest-sync at position %d) and no error notification for it was delivered; announced positions %v", pi, pos[last.String()], lpos, positions(ann, pos))
						return
					}
				}
				// I4: every advertisement up to latest-sync was reported exactly once, none beyond
				count := map[int]int{}
				var seq []int
				for _, hc := range e.S.Hooks {
					if hc.Peer != p.ID {
						continue
					}
					i, ok := pos[hc.Cid.String()]
					if !ok {
						viol = fmt.Sprintf("publisher %d: hook called for a block that is not on its chain", pi)
						return
					}
					count[i]++
					seq = append(seq, i)
				}
				exactlyOnce := !(overlapExplicit[pi] && !known)
				_ = exactlyOnce
				for i := 0; i <= lpos; i++ {
					if count[i] != 1 {
						viol = fmt.Sprintf("publisher %d: advertisement at position %d was reported %d times (latest-sync at %d); hook order %v", pi, i, count[i], lpos, seq)
						return
					}
				}
				for i := range count {
					if i > lpos {
						viol = fmt.Sprintf("publisher %d: advertisement at position %d was reported but latest-sync is at %d; hook order %v", pi, i, lpos, seq)
						return
					}
				}
				// I1: hook calls of different syncs never interleave: the sequence is a concatenation of descending runs
				for i := 1; i < len(seq); i++ {
					if seq[i] != seq[i-1]-1 && !(seq[i] > seq[i-1]) {
						viol = fmt.Sprintf("publisher %d: hook order %v is not a concatenation of newest-to-oldest runs", pi, seq)
						return
					}
				}
				// notifications: per publisher in completion order, counts add up
				total, lastPos := 0, -1
				nEv := 0
				for _, ev := range evs {
					if ev.PeerID != p.ID {
						continue
					}
					nEv++
					if ev.Err != nil {
						continue
					}
					ep := pos[ev.Cid.String()]
					if ep <= lastPos {
						viol = fmt.Sprintf("publisher %d: success notifications out of order (position %d after %d)", pi, ep, lastPos)
						return
					}
					if ev.Count != ep-lastPos {
						viol = fmt.Sprintf("publisher %d: notification for position %d reports %d blocks, %d were synced since position %d", pi, ep, ev.Count, ep-lastPos, lastPos)
						return
					}
					lastPos = ep
					total += ev.Count
				}
				// I5: coalescing: never more handled syncs than announcements + explicit syncs
				nSync := 0
				for _, o := range e.Ops {
					if o.P == pi && o.Kind == "sync" {
						nSync++
					}
				}
				if nEv > len(e.Announced[pi])+nSync {
					viol = fmt.Sprintf("publisher %d: %d notifications for %d announcements and %d explicit syncs", pi, nEv, len(e.Announced[pi]), nSync)
					return
				}
			}
		})
		if viol != "" {
			res.Fail = viol + "\nscript: " + render(c)
		}
		var ks []string
		for k := range kinds {
			ks = append(ks, k)
		}
		sort.Strings(ks)
		res.Classes = ks
		res.NonTrivial = kinds["announce-while-sync-held"] > 0 || kinds["explicit-overlaps-sync"] > 0 || kinds["semaphore-saturated"] > 0
		for k, v := range kinds {
			if strings.HasPrefix(k, "excluded:") && v > 0 {
				res.Known = "" // exclusion by construction is counted through the class histogram
			}
		}
		return res
	}
}

func positions(cs []cid.Cid, pos map[string]int) []int {
	var out []int
	for _, c := range cs {
		out = append(out, pos[c.String()])
	}
	return out
}

func render(c Case) string {
	var sb strings.Builder
	fmt.Fprintf(&sb, "k=%d maxAsync=%d discovery=%v:", c.Script.K, c.Script.MaxAsync, c.Discovery)
	for _, s := range c.Script.Steps {
		switch s.Op {
		case "publish":
			fmt.Fprintf(&sb, " publish(p%d,+%d)", s.P, s.N)
		default:
			fmt.Fprintf(&sb, " %s(p%d)", s.Op, s.P)
		}
	}
	return sb.String()
}

func TestC08_Scripts(t *testing.T) {
	pbt.Run(t, pbt.Config{Prop: "C08", Unit: "TestC08_Scripts", TrackCurrent: true,
		Rule: "scripts of 3..40 steps over 1..3 publishers and one real subscriber (MaxAsyncConcurrency unlimited, 1, 2, k-1, k): publish 1..3 ads, announce the current head (in chain order), announce a head whose first block request fails, announce the head with sender information no sync can use (only a non-HTTP address), explicit sync, hold / open a publisher's gate (block requests park), so that announcement bursts arrive while a sync of the same publisher is held; after every step: at most one block request in flight per publisher, concurrently busy publishers <= the configured maximum; at exact quiescence with all gates open: every publisher's latest-sync is at or after its last announced head or an error notification for that head was delivered; every advertisement up to latest-sync was reported exactly once and none beyond; hook calls form whole newest-to-oldest runs; success notifications are in order with counts that add up; never more syncs handled than announcements + explicit syncs. Non-trivial: an announcement arrived while a sync of the same publisher was held, an explicit sync overlapped another sync, or the semaphore was saturated; distinct by case.",
		Assumptions: []string{"announcements per publisher follow chain order (documented caller obligation); arrival timing varies", "while a gate-held sync coexists with goroutines waiting on a library mutex the harness settles heuristically (1 ms of stable activity); only 'nothing bad has happened' is asserted then, every 'has happened' assertion waits for exact quiescence"},
	}, genCase, runCase(t))
}
