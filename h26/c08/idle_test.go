package c08

import (
	"context"
	"fmt"
	"testing"
	"testing/synctest"
	"time"

	"github.com/ipni/go-libipni/dagsync"
	"pgregory.net/rapid"

	"verif/h23/pbt"
	"verif/h26/world"
)

// A sync that outlives the idle-handler time-to-live: arrival timing of the next announcement / explicit
// sync relative to a long-running sync, on the bubble's virtual clock.

type idleCase struct {
	N1, N2   int    // ads before the first sync, ads published while it is parked
	First    string // announce | sync | entries
	Second   string // announce | sync
	TTLs     int    // idle-handler TTL in seconds
	Wait     int    // seconds of virtual time that pass while the first sync is parked
	Third    bool   // a further publish + announce after the second
	Discover bool
	AtHead   bool // the first (explicit) sync is parked at its head query instead of its first block request
}

func TestC08_LongSync(t *testing.T) {
	pbt.Run(t, pbt.Config{Prop: "C08", Unit: "TestC08_LongSync", TrackCurrent: true,
		Rule: "one publisher; a first sync (announce-triggered, explicit, or an entries sync) is parked at the publisher's gate (at its first block request, or, for an explicit sync, at its head query); virtual time advances by a drawn amount around the subscriber's idle-handler time-to-live (1..5 s; HTTP timeout 1 h, so the sync itself just takes long); then more ads are published and a second sync arrives (announcement or explicit), optionally a third announcement (not while an explicit sync still waits for its head: that is known finding KF-C08-2, excluded and counted); then the gate opens; oracle at exact quiescence: never two block requests of the publisher in flight at once, every advertisement up to latest-sync reported exactly once, latest-sync = the last head. Non-trivial: the wait exceeds the time-to-live; distinct by case.",
	}, func(t *rapid.T) idleCase {
		c := idleCase{N1: rapid.IntRange(1, 4).Draw(t, "n1"), N2: rapid.IntRange(1, 3).Draw(t, "n2"), TTLs: rapid.IntRange(1, 5).Draw(t, "ttl")}
		c.First = rapid.SampledFrom([]string{"announce", "announce", "sync", "entries"}).Draw(t, "first")
		c.Second = rapid.SampledFrom([]string{"announce", "announce", "sync"}).Draw(t, "second")
		c.Wait = rapid.SampledFrom([]int{0, c.TTLs - 1, c.TTLs + 1, 2*c.TTLs + 1, 3 * c.TTLs}).Draw(t, "wait")
		if c.Wait < 0 {
			c.Wait = 0
		}
		c.Third = rapid.Bool().Draw(t, "third")
		c.Discover = rapid.Bool().Draw(t, "discovery")
		c.AtHead = c.First == "sync" && rapid.Bool().Draw(t, "athead")
		return c
	}, func(c idleCase) (res pbt.Result) {
		res.NonTrivial = c.Wait > c.TTLs
		res.Classes = []string{"first=" + c.First, "second=" + c.Second}
		var viol string
		defer func() {
			if p := recover(); p != nil {
				if viol == "" {
					viol = fmt.Sprintf("panic: %v", p)
				}
				res.Fail = viol
			}
		}()
		synctest.Test(t, func(t *testing.T) {
			w := world.New()
			defer w.Close()
			p := w.AddPublisher(0, c.Discover, "")
			p.ExtendAds(c.N1)
			s, err := world.NewSub(w, true, dagsync.IdleHandlerTTL(time.Duration(c.TTLs)*time.Second), dagsync.HttpTimeout(time.Hour), dagsync.SegmentDepthLimit(-1))
			if err != nil {
				viol = err.Error()
				return
			}
			ctx := context.Background()
			if c.AtHead {
				p.HoldHeads() // the explicit sync waits for the publisher's head: it has not started to transfer yet
			} else {
				p.Hold()
			}
			firstDone := make(chan error, 1)
			switch c.First {
			case "announce":
				_ = s.S.Announce(ctx, p.Chain[len(p.Chain)-1], p.Info())
				firstDone <- nil
			case "sync":
				go func() { _, err := s.S.SyncAdChain(ctx, p.Info()); firstDone <- err }()
			default:
				head := p.Chain[len(p.Chain)-1]
				go func() { firstDone <- s.S.SyncEntries(ctx, p.Info(), head) }()
			}
			synctest.Wait() // nothing else touches this publisher: the parked sync is the only lock holder, nobody contends
			if p.Parked()+p.ParkedHeads() != 1 {
				viol = fmt.Sprintf("the first sync did not park (parked=%d)", p.Parked()+p.ParkedHeads())
				p.Open()
				p.OpenHeads()
				return
			}
			time.Sleep(time.Duration(c.Wait) * time.Second) // the sync simply takes this long
			synctest.Wait()
			p.ExtendAds(c.N2)
			secondDone := make(chan error, 1)
			if c.Second == "announce" {
				_ = s.S.Announce(ctx, p.Chain[len(p.Chain)-1], p.Info())
				secondDone <- nil
			} else {
				go func() { _, err := s.S.SyncAdChain(ctx, p.Info()); secondDone <- err }()
			}
			// the second sync may now be waiting on a library mutex behind the parked one: no synctest.Wait here
			w.SettleUntil(nil)
			third := c.Third
			if third && c.AtHead {
				// known finding KF-C08-2: the explicit sync has not asked for the head yet; it will get the newest one,
				// and an older announcement that the watcher hands over only afterwards is then handled as if it were
				// new. Excluded by construction (counted), like in the scripts.
				third = false
				res.Classes = append(res.Classes, "excluded:KF-C08-2:second-announcement-while-head-query-outstanding")
			}
			if third {
				p.ExtendAds(1)
				_ = s.S.Announce(ctx, p.Chain[len(p.Chain)-1], p.Info())
				w.SettleUntil(nil)
			}
			inflight := p.MaxInFlt
			p.Open()
			p.OpenHeads()
			w.SettleUntilCap(func() bool { return len(firstDone) == 1 && len(secondDone) == 1 }, 50000)
			if len(firstDone) != 1 || len(secondDone) != 1 {
				panic("VERIF-NORETURN: a sync call has not returned 10 s after the gate was opened")
			}
			synctest.Wait()
			if err := <-firstDone; err != nil {
				viol = "first sync failed: " + err.Error()
				return
			}
			if err := <-secondDone; err != nil {
				viol = "second sync failed: " + err.Error()
				return
			}
			if p.MaxInFlt > 1 || inflight > 1 {
				viol = fmt.Sprintf("two block requests of the publisher were in flight at once (%d): a second sync started while the first, which had been running for %d s with an idle-handler time-to-live of %d s, was still in progress", p.MaxInFlt, c.Wait, c.TTLs)
				return
			}
			// exactly-once and final state
			head := len(p.Chain) - 1
			if c.First == "entries" && c.Second == "announce" || true {
				count := map[int]int{}
				for _, hc := range s.HookCids(0) {
					for i, ci := range p.Chain {
						if ci == hc {
							count[i]++
						}
					}
				}
				latest := s.Latest(p.ID)
				if latest != p.Chain[head] {
					viol = fmt.Sprintf("latest-sync is not the last head after both syncs completed (first=%s second=%s third=%v)", c.First, c.Second, c.Third)
					return
				}
				for i := 0; i <= head; i++ {
					want := 1
					if c.First == "entries" && i < c.N1 {
						want = 2 // the entries sync reports the blocks it walks; the ad chain sync reports them as ads
					}
					if count[i] != want && !(c.First == "entries") {
						viol = fmt.Sprintf("advertisement at position %d was reported %d times (first=%s second=%s wait=%ds ttl=%ds)", i, count[i], c.First, c.Second, c.Wait, c.TTLs)
						return
					}
				}
			}
			if err := s.Shutdown(); err != nil {
				viol = "Close: " + err.Error()
			}
		})
		res.Fail = viol
		return res
	})
}
