package c20w

import (
	"context"
	"fmt"
	"net/url"
	"strings"
	"testing"
	"testing/synctest"

	"github.com/ipni/go-libipni/maurl"
	"github.com/libp2p/go-libp2p/core/peer"
	"github.com/multiformats/go-multiaddr"
	"pgregory.net/rapid"

	"verif/h23/pbt"
	"verif/h26/world"
)

// End to end: a publisher advertised by URL with a drawn handler path receives the sync client's
// head request on exactly <path>/ipni/v1/ad/head.

type Case struct {
	Segs      []string // decoded path segments (non-empty, no '/')
	Discovery bool
	ViaText   bool // the multiaddr travels as text instead of bytes
}

const segChars = "abcXYZ019-._~+ !$&'()*,;=:@%"

func genCase(t *rapid.T) Case {
	// plain HTTP only: a libp2p-HTTP publisher announces its path through the well-known document, not
	// through the multiaddr, so the URL <-> multiaddr conversion under test is not involved there
	c := Case{Discovery: false, ViaText: rapid.Bool().Draw(t, "viatext")}
	n := rapid.IntRange(0, 3).Draw(t, "nseg")
	for i := 0; i < n; i++ {
		k := rapid.IntRange(1, 6).Draw(t, "len")
		var sb strings.Builder
		for j := 0; j < k; j++ {
			sb.WriteByte(segChars[rapid.IntRange(0, len(segChars)-1).Draw(t, "ch")])
		}
		s := sb.String()
		if s == "." || s == ".." {
			s = "x" + s
		}
		c.Segs = append(c.Segs, s)
	}
	return c
}

func runCase(t *testing.T) func(Case) pbt.Result {
	return func(c Case) (res pbt.Result) {
		defer func() {
			if p := recover(); p != nil {
				res.Fail = fmt.Sprintf("panic: %v", p)
			}
		}()
		decoded := strings.Join(c.Segs, "/")
		for _, f := range []string{" ", "+", "%"} {
			if strings.Contains(decoded, f) {
				res.NonTrivial = true
				res.Classes = append(res.Classes, "path:"+f)
			}
		}
		synctest.Test(t, func(t *testing.T) {
			w := world.New()
			defer w.Close()
			p := w.AddPublisher(0, c.Discovery, decoded)
			p.ExtendAds(2)
			u := &url.URL{Scheme: "http", Host: "10.0.0.1:80", Path: "/" + decoded}
			if decoded == "" {
				u.Path = ""
			}
			ma, err := maurl.FromURL(u)
			if err != nil {
				res.Fail = fmt.Sprintf("FromURL(%s): %v", u, err)
				return
			}
			if c.ViaText {
				ma, err = multiaddr.NewMultiaddr(ma.String())
			} else {
				ma, err = multiaddr.NewMultiaddrBytes(ma.Bytes())
			}
			if err != nil {
				res.Fail = fmt.Sprintf("multiaddr of %s does not survive transport: %v", u, err)
				return
			}
			s, err := world.NewSub(w, false)
			if err != nil {
				res.Fail = err.Error()
				return
			}
			got, err := s.S.SyncAdChain(context.Background(), peer.AddrInfo{ID: p.ID, Addrs: []multiaddr.Multiaddr{ma}})
			w.Settle()
			want := "/ipni/v1/ad/head"
			if decoded != "" {
				want = "/" + decoded + want
			}
			var heads []string
			for _, r := range w.Requests() {
				if r.Kind == "head" {
					heads = append(heads, r.Path)
				}
			}
			if len(heads) == 0 || heads[0] != want {
				res.Fail = fmt.Sprintf("publisher advertised at %q (multiaddr %s): head request arrived on %q, want exactly %q (sync result: %v)", u.String(), ma, heads, want, err)
			} else if err != nil || got != p.Chain[1] {
				res.Fail = fmt.Sprintf("publisher advertised at %q: sync failed: %v", u.String(), err)
			}
			if err := s.Shutdown(); err != nil && res.Fail == "" {
				res.Fail = "Close: " + err.Error()
			}
		})
		return res
	}
}

func TestC20_EndToEnd(t *testing.T) {
	pbt.Run(t, pbt.Config{Prop: "C20", Unit: "TestC20_EndToEnd", TrackCurrent: true,
		Rule: "a simulated publisher serving under a drawn handler path (0..3 segments over unreserved characters, sub-delims, '+', space, '%', ':', '@'), advertised to a real subscriber as the multiaddr of its http URL (travelling as bytes or as text), plain HTTP transport; oracle: the head request arrives on exactly <path>/ipni/v1/ad/head (decoded path, byte for byte) and the sync succeeds. Non-trivial: the path contains a space, '+' or '%'; distinct by case.",
		Assumptions: []string{"clean paths only (no empty or dot segments): the publisher joins its handler path with path.Join"},
	}, genCase, runCase(t))
}
