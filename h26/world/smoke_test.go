package world

import (
	"context"
	"testing"
	"testing/synctest"
)

func TestSmoke(t *testing.T) {
	for _, disc := range []bool{false, true} {
		synctest.Test(t, func(t *testing.T) {
			w := New()
			defer w.Close()
			p := w.AddPublisher(0, disc, "")
			p.ExtendAds(4)
			s, err := NewSub(w, true)
			if err != nil {
				t.Fatal(err)
			}
			c, err := s.S.SyncAdChain(context.Background(), p.Info())
			if err != nil {
				t.Fatal(err)
			}
			w.Settle()
			if c != p.Chain[3] || s.NHooks() != 4 || s.NEvents() != 1 || len(s.Audit()) != 0 {
				t.Fatalf("cid %s hooks %d events %d audit %v", c, s.NHooks(), s.NEvents(), s.Audit())
			}
			p.ExtendAds(2)
			if err := s.S.Announce(context.Background(), p.Chain[5], p.Info()); err != nil {
				t.Fatal(err)
			}
			w.Settle()
			if s.Latest(p.ID) != p.Chain[5] || s.NHooks() != 6 {
				t.Fatalf("after announce: latest %s hooks %d", s.Latest(p.ID), s.NHooks())
			}
			for _, r := range w.Requests() {
				t.Logf("%+v", r)
			}
			if err := s.Shutdown(); err != nil {
				t.Fatal(err)
			}
		})
	}
}
