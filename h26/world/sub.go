package world

import (
	"bytes"
	"context"
	"fmt"
	"io"
	"sync"

	"github.com/ipfs/go-cid"
	"github.com/ipld/go-ipld-prime"
	"github.com/ipld/go-ipld-prime/codec/dagjson"
	cidlink "github.com/ipld/go-ipld-prime/linking/cid"
	"github.com/ipld/go-ipld-prime/node/basicnode"
	"github.com/ipni/go-libipni/dagsync"
	"github.com/libp2p/go-libp2p/core/peer"
	"github.com/multiformats/go-multihash"
)

// HookCall is one block-hook invocation.
type HookCall struct {
	Seq  int
	Peer peer.ID
	Cid  cid.Cid
	Act  int64 // activity stamp
}

// Sub wraps a real dagsync.Subscriber with logged store, hook and events.
type Sub struct {
	W      *World
	S      *dagsync.Subscriber
	Lsys   ipld.LinkSystem
	mu     sync.Mutex
	data   map[string][]byte // destination store: cid.KeyString -> bytes
	Writes int
	Hooks  []HookCall
	Scoped []HookCall             // calls of hooks handed out by ScopedHook
	Events []dagsync.SyncFinished // reference listener, registered at construction
	evDone chan struct{}
	cancel context.CancelFunc

	// FailAt: if >= 0, the hook calls FailSync at this hook-call ordinal (counted since ArmHook)
	failAt  int
	hookOrd int
	// ParkHook: called inside the hook (may block the sync on the harness)
	OnHook func(peer.ID, cid.Cid)
	// OnWriteOpen: called whenever the subscriber opens a writer of the destination store (may block)
	OnWriteOpen func()
	libHook     dagsync.BlockHookFunc
	// store write fault: the wfOrd-th writer opened since ArmWriteFault accepts wfAfter bytes and then fails
	writerOrd, wfOrd, wfAfter int
	// prevFailAt: if >= 0, the lookup function given to dagsync.MakeGeneralBlockHook fails at this call (counted since ArmPrevFail)
	prevOrd, prevFailAt int
	WriteFaults         int // writes that were failed
}

type failingWriter struct {
	buf  *bytes.Buffer
	left int
	s    *Sub
}

func (f *failingWriter) Write(b []byte) (int, error) {
	if len(b) <= f.left {
		f.left -= len(b)
		return f.buf.Write(b)
	}
	n, _ := f.buf.Write(b[:f.left])
	f.left = 0
	f.s.mu.Lock()
	f.s.WriteFaults++
	f.s.mu.Unlock()
	return n, fmt.Errorf("injected store write failure (no space left on device)")
}

// ArmWriteFault makes the ord-th store writer opened from now on fail after it has accepted `after` bytes (ord < 0 disarms).
func (s *Sub) ArmWriteFault(ord, after int) {
	s.mu.Lock()
	s.writerOrd, s.wfOrd, s.wfAfter = 0, ord, after
	s.mu.Unlock()
}

// NewSub builds the destination link system and the subscriber. withRecv adds an announce receiver (no libp2p host: direct announcements only).
func NewSub(w *World, withRecv bool, opts ...dagsync.Option) (*Sub, error) {
	s := &Sub{W: w, data: map[string][]byte{}, failAt: -1, wfOrd: -1, prevFailAt: -1}
	s.Lsys = cidlink.DefaultLinkSystem()
	s.Lsys.TrustedStorage = w.TrustedStorage
	if w.LibraryHook {
		s.libHook = dagsync.MakeGeneralBlockHook(func(ad cid.Cid) (cid.Cid, error) {
			s.mu.Lock()
			ord := s.prevOrd
			s.prevOrd++
			fail := s.prevFailAt >= 0 && ord == s.prevFailAt
			s.mu.Unlock()
			if fail {
				return cid.Undef, fmt.Errorf("previous-advertisement lookup failure injected at call %d", ord)
			}
			return s.NextOf(ad), nil
		})
	}
	s.Lsys.StorageReadOpener = func(_ ipld.LinkContext, l ipld.Link) (io.Reader, error) {
		s.mu.Lock()
		defer s.mu.Unlock()
		b, ok := s.data[l.(cidlink.Link).Cid.KeyString()]
		if !ok {
			return nil, ipld.ErrNotExists{}
		}
		return bytes.NewReader(b), nil
	}
	s.Lsys.StorageWriteOpener = func(_ ipld.LinkContext) (io.Writer, ipld.BlockWriteCommitter, error) {
		s.mu.Lock()
		on := s.OnWriteOpen
		s.mu.Unlock()
		if on != nil {
			on()
		}
		var buf bytes.Buffer
		s.mu.Lock()
		ord := s.writerOrd
		s.writerOrd++
		failAfter := -1
		if s.wfOrd >= 0 && ord == s.wfOrd {
			failAfter = s.wfAfter
		}
		s.mu.Unlock()
		var wr io.Writer = &buf
		if failAfter >= 0 {
			wr = &failingWriter{buf: &buf, left: failAfter, s: s}
		}
		// like a store that writes to a temporary file and renames it on commit: whatever was written is what a commit publishes
		return wr, func(l ipld.Link) error {
			s.mu.Lock()
			s.data[l.(cidlink.Link).Cid.KeyString()] = append([]byte(nil), buf.Bytes()...)
			s.Writes++
			s.mu.Unlock()
			w.Bump()
			return nil
		}, nil
	}
	all := append([]dagsync.Option{dagsync.BlockHook(s.hook)}, opts...)
	if withRecv {
		all = append(all, dagsync.RecvAnnounce(""))
	}
	sub, err := dagsync.NewSubscriber(nil, s.Lsys, all...)
	if err != nil {
		return nil, err
	}
	s.S = sub
	ch, cancel := sub.OnSyncFinished()
	s.cancel = cancel
	s.evDone = make(chan struct{})
	go func() {
		defer close(s.evDone)
		for ev := range ch {
			s.mu.Lock()
			s.Events = append(s.Events, ev)
			s.mu.Unlock()
			w.Bump()
		}
	}()
	return s, nil
}

// SetOnWriteOpen installs a callback run at every writer-open of the destination store.
func (s *Sub) SetOnWriteOpen(f func()) { s.mu.Lock(); s.OnWriteOpen = f; s.mu.Unlock() }

// Hook is the general block hook: logs, implements the segmented-sync contract
// (next = PreviousID of an ad / Next of an entry chunk) and optionally fails.
func (s *Sub) hook(p peer.ID, c cid.Cid, act dagsync.SegmentSyncActions) {
	s.mu.Lock()
	ord := s.hookOrd
	s.hookOrd++
	s.Hooks = append(s.Hooks, HookCall{Seq: len(s.Hooks), Peer: p, Cid: c, Act: s.W.activity.Load()})
	fail := s.failAt >= 0 && ord == s.failAt
	on := s.OnHook
	s.mu.Unlock()
	s.W.Bump()
	if on != nil {
		on(p, c)
	}
	if fail {
		act.FailSync(fmt.Errorf("hook failure injected at call %d", ord))
		return
	}
	if s.libHook != nil {
		// the library's own general hook decides the next segment (from the same "previous" lookup)
		s.libHook(p, c, act)
		return
	}
	act.SetNextSyncCid(s.NextOf(c))
}

// NextOf decodes a stored block generically and returns its PreviousID / Next link (Undef if none).
func (s *Sub) NextOf(c cid.Cid) cid.Cid {
	s.mu.Lock()
	b, ok := s.data[c.KeyString()]
	s.mu.Unlock()
	if !ok {
		return cid.Undef
	}
	nb := basicnode.Prototype.Any.NewBuilder()
	if err := dagjson.Decode(nb, bytes.NewReader(b)); err != nil {
		return cid.Undef
	}
	n := nb.Build()
	for _, f := range []string{"PreviousID", "Next"} {
		if ln, err := n.LookupByString(f); err == nil {
			if l, err := ln.AsLink(); err == nil {
				return l.(cidlink.Link).Cid
			}
		}
	}
	return cid.Undef
}

// ScopedHook returns a block hook for one call (dagsync.ScopedBlockHook) that logs into a separate list and
// keeps the segmented-sync contract like the general hook.
func (s *Sub) ScopedHook() dagsync.BlockHookFunc {
	return func(p peer.ID, c cid.Cid, act dagsync.SegmentSyncActions) {
		s.mu.Lock()
		s.Scoped = append(s.Scoped, HookCall{Seq: len(s.Scoped), Peer: p, Cid: c, Act: s.W.activity.Load()})
		s.mu.Unlock()
		s.W.Bump()
		act.SetNextSyncCid(s.NextOf(c))
	}
}

// ScopedCalls returns a copy of the scoped-hook log.
func (s *Sub) ScopedCalls() []HookCall {
	s.mu.Lock()
	defer s.mu.Unlock()
	return append([]HookCall(nil), s.Scoped...)
}

// SetOnHook installs a callback run inside every call of the general hook (nil removes it).
func (s *Sub) SetOnHook(f func(peer.ID, cid.Cid)) { s.mu.Lock(); s.OnHook = f; s.mu.Unlock() }

// ArmHook resets the hook ordinal; failAt < 0 disables the injected failure.
func (s *Sub) ArmHook(failAt int) { s.mu.Lock(); s.hookOrd, s.failAt = 0, failAt; s.mu.Unlock() }

// ArmPrevFail resets the call count of the library hook's lookup function; failAt < 0 disables its injected failure.
func (s *Sub) ArmPrevFail(failAt int) {
	s.mu.Lock()
	s.prevOrd, s.prevFailAt = 0, failAt
	s.mu.Unlock()
}

func (s *Sub) Has(c cid.Cid) bool {
	s.mu.Lock()
	defer s.mu.Unlock()
	_, ok := s.data[c.KeyString()]
	return ok
}

// Get returns the stored bytes of a block (nil if absent).
func (s *Sub) Get(c cid.Cid) []byte {
	s.mu.Lock()
	defer s.mu.Unlock()
	return append([]byte(nil), s.data[c.KeyString()]...)
}

// Put pre-stores a block in the destination store.
func (s *Sub) Put(c cid.Cid, b []byte) {
	s.mu.Lock()
	s.data[c.KeyString()] = append([]byte(nil), b...)
	s.mu.Unlock()
}

// Delete removes a block from the destination store (the consumer is done with it).
func (s *Sub) Delete(c cid.Cid) { s.mu.Lock(); delete(s.data, c.KeyString()); s.mu.Unlock() }

// HookCids returns the hook log from index from on.
func (s *Sub) HookCids(from int) []cid.Cid {
	s.mu.Lock()
	defer s.mu.Unlock()
	var out []cid.Cid
	for _, h := range s.Hooks[from:] {
		out = append(out, h.Cid)
	}
	return out
}

func (s *Sub) NHooks() int  { s.mu.Lock(); defer s.mu.Unlock(); return len(s.Hooks) }
func (s *Sub) NEvents() int { s.mu.Lock(); defer s.mu.Unlock(); return len(s.Events) }
func (s *Sub) NWrites() int { s.mu.Lock(); defer s.mu.Unlock(); return s.Writes }

func (s *Sub) EventsFrom(from int) []dagsync.SyncFinished {
	s.mu.Lock()
	defer s.mu.Unlock()
	return append([]dagsync.SyncFinished(nil), s.Events[from:]...)
}

// Audit recomputes, independently of the library, the multihash named by every
// stored key over the stored value; returns the keys that do not match.
func (s *Sub) Audit() []string {
	s.mu.Lock()
	defer s.mu.Unlock()
	var bad []string
	for k, v := range s.data {
		_, c, err := cid.CidFromBytes([]byte(k))
		if err != nil {
			bad = append(bad, fmt.Sprintf("unparseable key %x", k))
			continue
		}
		pref := c.Prefix()
		sum, err := multihash.Sum(v, pref.MhType, pref.MhLength)
		if err != nil || !bytes.Equal(sum, c.Hash()) {
			bad = append(bad, c.String())
		}
	}
	return bad
}

// Keys returns the stored CIDs as a set.
func (s *Sub) Keys() map[string]bool {
	s.mu.Lock()
	defer s.mu.Unlock()
	out := map[string]bool{}
	for k := range s.data {
		_, c, _ := cid.CidFromBytes([]byte(k))
		out[c.String()] = true
	}
	return out
}

// Latest returns GetLatestSync as a CID (Undef if nil).
func (s *Sub) Latest(p peer.ID) cid.Cid {
	l := s.S.GetLatestSync(p)
	if l == nil {
		return cid.Undef
	}
	return l.(cidlink.Link).Cid
}

// Shutdown closes the subscriber and drains the reference listener (needed for the bubble to empty).
func (s *Sub) Shutdown() error {
	err := s.S.Close()
	<-s.evDone
	return err
}
