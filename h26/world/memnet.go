// Package world is the simulated environment in which the real dagsync
// subscriber, ipnisync publisher, provider cache and announce receiver run
// inside a testing/synctest bubble: an in-memory network (net.Pipe), HTTP
// servers with request recording, fault plans and gates, chain builders and a
// subscriber wrapper with hook / store / event logs.
package world

import (
	"context"
	"errors"
	"net"
	"sync"
)

// memNet maps "host:port" to in-memory listeners.
type memNet struct {
	mu        sync.Mutex
	listeners map[string]*memListener
}

type memListener struct {
	addr   string
	conns  chan net.Conn
	closed chan struct{}
	once   sync.Once
}

type memAddr string

func (a memAddr) Network() string { return "mem" }
func (a memAddr) String() string  { return string(a) }

func newMemNet() *memNet { return &memNet{listeners: map[string]*memListener{}} }

func (n *memNet) Listen(addr string) *memListener {
	l := &memListener{addr: addr, conns: make(chan net.Conn), closed: make(chan struct{})}
	n.mu.Lock()
	n.listeners[addr] = l
	n.mu.Unlock()
	return l
}

func (l *memListener) Accept() (net.Conn, error) {
	select {
	case c := <-l.conns:
		return c, nil
	case <-l.closed:
		return nil, net.ErrClosed
	}
}

func (l *memListener) Close() error {
	l.once.Do(func() { close(l.closed) })
	return nil
}

func (l *memListener) Addr() net.Addr { return memAddr(l.addr) }

// Dial connects to a listener; unknown addresses are refused.
func (n *memNet) Dial(ctx context.Context, _, addr string) (net.Conn, error) {
	n.mu.Lock()
	l := n.listeners[addr]
	n.mu.Unlock()
	if l == nil {
		return nil, errors.New("memnet: connection refused: " + addr)
	}
	c, s := net.Pipe()
	select {
	case l.conns <- s:
		return c, nil
	case <-l.closed:
		return nil, errors.New("memnet: connection refused (listener closed): " + addr)
	case <-ctx.Done():
		return nil, ctx.Err()
	}
}
