package world

import (
	"context"
	"fmt"
	"sync"
	"testing/synctest"
	"time"

	"github.com/ipfs/go-cid"
	"github.com/ipni/go-libipni/dagsync"
	"github.com/libp2p/go-libp2p/core/peer"
	"github.com/multiformats/go-multiaddr"
	"pgregory.net/rapid"
)

// Sequential rounds against one subscriber: each round publishes some ads and then runs exactly one sync
// (of one of several kinds) to exact quiescence, so that the outcome of every round is fully determined by
// a small reference model. The same runner serves several properties; each gets its own list of violations.

type Round struct {
	P   int
	New int    // ads published before the operation (0..3)
	Op  string // announce | sync | resync | stopat | badannounce | noaddrannounce | failannounce | failsync
	Arg int
}

type RoundsCase struct {
	K        int   // publishers
	Seg      int64 // -1: unsegmented, else segment size
	LibHook  bool  // the hook delegates to dagsync.MakeGeneralBlockHook
	MaxAsync int   // 0: library default
	Discover bool
	Rounds   []Round
}

var roundOps = []string{"announce", "announce", "announce", "sync", "sync", "resync", "stopat", "badannounce", "badannounce", "noaddrannounce", "failannounce", "failsync"}

func GenRounds(t *rapid.T) RoundsCase {
	c := RoundsCase{K: rapid.IntRange(1, 2).Draw(t, "k")}
	c.Seg = rapid.SampledFrom([]int64{-1, -1, 1, 2, 3}).Draw(t, "seg")
	c.LibHook = c.Seg > 0 && rapid.Bool().Draw(t, "libhook")
	c.MaxAsync = rapid.SampledFrom([]int{0, 1, 1, 2}).Draw(t, "maxasync")
	c.Discover = rapid.Bool().Draw(t, "discovery")
	n := rapid.IntRange(2, 8).Draw(t, "nrounds")
	for i := 0; i < n; i++ {
		c.Rounds = append(c.Rounds, Round{P: rapid.IntRange(0, c.K-1).Draw(t, "p"), New: rapid.IntRange(0, 3).Draw(t, "new"),
			Op: rapid.SampledFrom(roundOps).Draw(t, "op"), Arg: rapid.IntRange(0, 5).Draw(t, "arg")})
	}
	return c
}

func (c RoundsCase) String() string {
	s := fmt.Sprintf("k=%d seg=%d libhook=%v maxasync=%d discovery=%v:", c.K, c.Seg, c.LibHook, c.MaxAsync, c.Discover)
	for _, r := range c.Rounds {
		s += fmt.Sprintf(" [p%d +%d %s(%d)]", r.P, r.New, r.Op, r.Arg)
	}
	return s
}

// RoundsResult holds the first violation found per aspect, and what the case exercised.
type RoundsResult struct {
	Once     string // blocks of a sync reported exactly once, latest-sync = the head acted on, no announcement lost
	Events   string // notifications: exactly one per head-updating sync and per failed announce-triggered sync, to each listener, right CID, publisher, count
	Failure  string // failed syncs leave latest-sync alone, emit no success notification, and later syncs work
	Classes  []string
	Failed   int // rounds that failed as designed
	Segments int // rounds that spanned more than one segment
}

func (r *RoundsResult) set(dst *string, format string, a ...any) {
	if *dst == "" {
		*dst = fmt.Sprintf(format, a...)
	}
}

// RunRounds must be called inside a synctest bubble.
func RunRounds(c RoundsCase, res *RoundsResult) {
	w := New()
	defer w.Close()
	w.LibraryHook = c.LibHook
	var pubs []*Publisher
	for i := 0; i < c.K; i++ {
		p := w.AddPublisher(i, c.Discover, "")
		p.ExtendAds(1)
		pubs = append(pubs, p)
	}
	opts := []dagsync.Option{dagsync.SegmentDepthLimit(c.Seg), dagsync.IdleHandlerTTL(time.Hour)}
	if c.MaxAsync != 0 {
		opts = append(opts, dagsync.MaxAsyncConcurrency(c.MaxAsync))
	}
	s, err := NewSub(w, true, opts...)
	if err != nil {
		res.Once, res.Events, res.Failure = "NewSubscriber: "+err.Error(), "NewSubscriber: "+err.Error(), "NewSubscriber: "+err.Error()
		return
	}
	// a second listener
	var mu sync.Mutex
	var evB []dagsync.SyncFinished
	chB, cancelB := s.S.OnSyncFinished()
	doneB := make(chan struct{})
	go func() {
		defer close(doneB)
		for ev := range chB {
			mu.Lock()
			evB = append(evB, ev)
			mu.Unlock()
		}
	}()
	latest := make([]int, c.K) // model: position of latest-sync
	for i := range latest {
		latest[i] = -1
	}
	quiesce := func() {
		time.Sleep(2 * time.Minute)
		synctest.Wait()
	}
	ctx := context.Background()
	afterFailure := false
	classes := map[string]bool{}
	for ri, r := range c.Rounds {
		p := pubs[r.P]
		p.ExtendAds(r.New)
		head := len(p.Chain) - 1
		L := latest[r.P]
		op := r.Op
		if op == "stopat" && head < 1 {
			op = "sync"
		}
		// a fault can only strike a block the subscriber still has to fetch
		var cand []int
		for i := head; i > L; i-- {
			if !s.Has(p.Chain[i]) {
				cand = append(cand, i)
			}
		}
		if (op == "failannounce" || op == "failsync") && len(cand) == 0 {
			op = map[string]string{"failannounce": "announce", "failsync": "sync"}[op]
		}
		what := fmt.Sprintf("round %d (%s of publisher %d, head at position %d, latest-sync at %d)", ri, op, r.P, head, L)
		ev0, hk0 := s.NEvents(), s.NHooks()
		mu.Lock()
		evB0 := len(evB)
		mu.Unlock()
		posOf := func(ci cid.Cid) int {
			for i, x := range p.Chain {
				if x == ci {
					return i
				}
			}
			return -1
		}
		// expected hook positions (newest first) and outcome
		var wantHooks []int
		wantEvent, wantErrEvent, lenient := false, false, false
		var callErr error
		var callCid cid.Cid
		explicit := false
		faultAt := -1
		switch op {
		case "announce", "badannounce", "noaddrannounce", "failannounce":
			info := p.Info()
			if op == "badannounce" {
				info = p.BadInfo()
			} else if op == "noaddrannounce" {
				info.Addrs = nil
			}
			if head != L {
				for i := head; i > L; i-- {
					wantHooks = append(wantHooks, i)
				}
				wantEvent = true
				if op == "badannounce" || op == "noaddrannounce" {
					// fails before its first request, unless the subscriber remembers a usable address from an earlier sync
					lenient = true
				}
				if op == "failannounce" {
					faultAt = cand[r.Arg%len(cand)]
					p.FaultCid(p.Chain[faultAt], Fault{Kind: "status", Code: 500})
					wantErrEvent = true
				}
			}
			if err := s.S.Announce(ctx, p.Chain[head], info); err != nil {
				res.set(&res.Once, "%s: Announce: %v", what, err)
				return
			}
		case "sync", "failsync":
			explicit = true
			if head != L {
				for i := head; i > L; i-- {
					wantHooks = append(wantHooks, i)
				}
				wantEvent = true
				if op == "failsync" {
					faultAt = cand[r.Arg%len(cand)]
					p.FaultCid(p.Chain[faultAt], Fault{Kind: "status", Code: 500})
				}
			}
			info := p.Info()
			if r.Arg%3 == 0 {
				// the caller names the publisher only through the /p2p component of its addresses
				suffix := multiaddr.StringCast("/p2p/" + p.ID.String())
				var as []multiaddr.Multiaddr
				for _, a := range info.Addrs {
					as = append(as, multiaddr.Join(a, suffix))
				}
				info = peer.AddrInfo{Addrs: as}
				classes["id-in-address"] = true
			}
			callCid, callErr = s.S.SyncAdChain(ctx, info)
		case "resync":
			explicit = true
			for i := head; i >= 0; i-- {
				wantHooks = append(wantHooks, i)
			}
			wantEvent = true
			callCid, callErr = s.S.SyncAdChain(ctx, p.Info(), dagsync.WithAdsResync(true))
		case "stopat":
			explicit = true
			d := 1 + r.Arg%head
			for i := head; i > head-d; i-- {
				wantHooks = append(wantHooks, i)
			}
			wantEvent = true
			callCid, callErr = s.S.SyncAdChain(ctx, p.Info(), dagsync.WithStopAdCid(p.Chain[head-d]))
		}
		quiesce()
		classes[op] = true
		evs := s.EventsFrom(ev0)
		mu.Lock()
		evsB := append([]dagsync.SyncFinished(nil), evB[evB0:]...)
		mu.Unlock()
		var hooks []int
		for _, hc := range s.HookCids(hk0) {
			hooks = append(hooks, posOf(hc))
		}
		gotLatest := posOf(s.Latest(p.ID))
		// ---- notifications: both listeners saw the same
		if len(evs) != len(evsB) {
			res.set(&res.Events, "%s: the two listeners received %d and %d notifications", what, len(evs), len(evsB))
		} else {
			for i := range evs {
				if evs[i].Cid != evsB[i].Cid || evs[i].PeerID != evsB[i].PeerID || evs[i].Count != evsB[i].Count || (evs[i].Err == nil) != (evsB[i].Err == nil) {
					res.set(&res.Events, "%s: the two listeners received different notifications: %+v / %+v", what, evs[i], evsB[i])
				}
			}
		}
		designedFailure := faultAt >= 0
		failed := false
		if lenient && len(evs) >= 1 && evs[0].Err != nil {
			// the unusable sender information made the sync fail before its first request
			designedFailure, failed = true, true
			wantErrEvent = true
		}
		if designedFailure {
			failed = true
			res.Failed++
			// ---- a failed sync
			if explicit {
				if callErr == nil {
					res.set(&res.Failure, "%s: the publisher answered 500 for the block at position %d but SyncAdChain returned no error", what, faultAt)
				}
				if len(evs) != 0 {
					res.set(&res.Failure, "%s: a failed explicit sync produced notifications: %+v", what, evs)
					res.set(&res.Events, "%s: a failed explicit sync produced notifications: %+v", what, evs)
				}
			} else {
				if len(evs) != 1 || evs[0].Err == nil || evs[0].Cid != p.Chain[head] || evs[0].PeerID != p.ID {
					res.set(&res.Failure, "%s: a failed announce-triggered sync must produce exactly one error notification for the announced CID, got %d: %+v", what, len(evs), evs)
					res.set(&res.Events, "%s: a failed announce-triggered sync must produce exactly one error notification for the announced CID, got %d: %+v", what, len(evs), evs)
				}
			}
			if gotLatest != L {
				res.set(&res.Failure, "%s: the sync failed but latest-sync moved from position %d to %d", what, L, gotLatest)
			}
			for i, h := range hooks {
				if h != head-i || h <= L {
					res.set(&res.Once, "%s: a sync that failed at position %d handed blocks %v to the hook", what, faultAt, hooks)
					break
				}
			}
			afterFailure = true
			continue
		}
		// ---- a sync that must succeed (or has nothing to do)
		also := func(format string, a ...any) {
			if afterFailure {
				res.set(&res.Failure, "after an earlier failed sync: "+format, a...)
			}
		}
		if explicit {
			if callErr != nil {
				res.set(&res.Once, "%s: SyncAdChain failed: %v", what, callErr)
				also("%s: SyncAdChain failed: %v", what, callErr)
				return
			}
			if callCid != p.Chain[head] {
				res.set(&res.Once, "%s: SyncAdChain returned %s, the head is %s", what, callCid, p.Chain[head])
			}
		}
		if fmt.Sprint(hooks) != fmt.Sprint(wantHooks) {
			res.set(&res.Once, "%s: blocks at positions %v were handed to the hook, expected exactly %v (each once, newest first)", what, hooks, wantHooks)
			also("%s: blocks at positions %v were handed to the hook, expected exactly %v", what, hooks, wantHooks)
		}
		if wantEvent {
			if gotLatest != head {
				res.set(&res.Once, "%s: at quiescence latest-sync is at position %d, not at the head %d, and no error notification was delivered (%d notifications)", what, gotLatest, head, len(evs))
				also("%s: at quiescence latest-sync is at position %d, not at the head %d", what, gotLatest, head)
			}
			if len(evs) != 1 {
				res.set(&res.Events, "%s: the sync completed and set latest-sync (now at %d; %d blocks handed to the hook) but %d notifications were delivered: %+v", what, gotLatest, len(hooks), len(evs), evs)
			} else if ev := evs[0]; ev.Err != nil || ev.Cid != p.Chain[head] || ev.PeerID != p.ID || ev.Count != len(hooks) {
				res.set(&res.Events, "%s: notification %+v does not describe the sync (head %s, publisher %s, %d blocks handed to the hook)", what, ev, p.Chain[head], p.ID, len(hooks))
			}
			if gotLatest == head {
				latest[r.P] = head
			}
			if c.Seg > 0 && len(wantHooks) > int(c.Seg) {
				res.Segments++
			}
		} else {
			if len(evs) != 0 {
				res.set(&res.Events, "%s: nothing to sync, but notifications were delivered: %+v", what, evs)
			}
			if gotLatest != L {
				res.set(&res.Once, "%s: nothing to sync, but latest-sync moved from %d to %d", what, L, gotLatest)
			}
		}
		_ = wantErrEvent
		_ = failed
		if res.Once != "" || res.Events != "" || res.Failure != "" {
			break
		}
	}
	for k := range classes {
		res.Classes = append(res.Classes, "op="+k)
	}
	bad := res.Once != "" || res.Events != "" || res.Failure != ""
	if bad {
		// a subscriber in a broken state may not be able to close; the bubble is abandoned by the caller's recover
		closed := make(chan error, 1)
		go func() { closed <- s.Shutdown() }()
		time.Sleep(time.Minute)
		select {
		case <-closed:
		default:
			panic("VERIF-ABANDON: " + res.Once + res.Events + res.Failure)
		}
		cancelB()
		<-doneB
		return
	}
	if err := s.Shutdown(); err != nil {
		res.set(&res.Once, "Close: %v", err)
	}
	cancelB()
	<-doneB
}
