package world

import (
	"bytes"
	"context"
	"crypto/tls"
	"fmt"
	"io"
	"net"
	"net/http"
	"net/http/httptest"
	"net/url"
	"runtime"
	"strings"
	"sync"
	"sync/atomic"
	"testing/synctest"
	"time"

	"github.com/ipfs/go-cid"
	"github.com/ipld/go-ipld-prime"
	"github.com/ipld/go-ipld-prime/datamodel"
	"github.com/ipld/go-ipld-prime/fluent/qp"
	cidlink "github.com/ipld/go-ipld-prime/linking/cid"
	"github.com/ipld/go-ipld-prime/node/basicnode"
	"github.com/ipld/go-ipld-prime/storage/memstore"
	"github.com/ipni/go-libipni/dagsync/ipnisync"
	"github.com/ipni/go-libipni/ingest/schema"
	"github.com/libp2p/go-libp2p/core/peer"
	"github.com/multiformats/go-multiaddr"
	"github.com/multiformats/go-multihash"

	"verif/h23/gen"
)

// ticks is a real-time tick counter fed from outside any bubble (atomics cross
// the bubble boundary); used only by the settle heuristic for unsafe states.
var ticks atomic.Int64

func init() {
	go func() {
		for {
			time.Sleep(200 * time.Microsecond)
			ticks.Add(1)
		}
	}()
}

// Request is one entry of the request log.
type Request struct {
	Seq     int
	Pub     int
	Path    string
	Kind    string // head | block | wellknown | other
	Cid     string
	Schema  string // Ipni-Cid-Schema-Type header
	Fault   string // fault applied, if any
	Status  int    // status written (0: connection killed)
	Done    bool
	Attempt int // value of World.Attempt when the request arrived
}

// Fault describes a deviation from the honest response.
type Fault struct {
	Kind   string // status | reset | truncate | shortbody | flipbit | append | substitute | empty | oversize | stall | cancelcaller | custom
	Code   int    // status
	N      int    // truncate/shortbody length, flipbit position, oversize size, append count
	Bit    int
	Body   []byte // custom / substitute body
	Cancel context.CancelFunc
}

func (f Fault) String() string {
	switch f.Kind {
	case "status":
		return fmt.Sprintf("status(%d)", f.Code)
	case "truncate", "shortbody", "oversize", "append":
		return fmt.Sprintf("%s(%d)", f.Kind, f.N)
	case "flipbit":
		return fmt.Sprintf("flipbit(%d.%d)", f.N, f.Bit)
	}
	return f.Kind
}

// World owns the network, the publishers and the logs of one case.
type World struct {
	mu        sync.Mutex
	net       *memNet
	Pubs      []*Publisher
	reqs      []*Request
	activity  atomic.Int64
	Attempt   int
	transport *http.Transport
	oldDT     http.RoundTripper
	servers   []*http.Server
	parkedReq atomic.Int64 // requests parked at a gate or stalled
	parkedHk  atomic.Int64 // goroutines parked at a library hook

	// configuration of subscribers created afterwards (NewSub)
	TrustedStorage bool // the destination link system has TrustedStorage set (no re-hashing on local reads)
	LibraryHook    bool // the subscriber's block hook delegates to dagsync.MakeGeneralBlockHook
}

// New creates a world and installs its transport as http.DefaultTransport.
// Must be called inside the bubble; Close restores the transport.
func New() *World {
	w := &World{net: newMemNet()}
	w.transport = &http.Transport{
		DialContext:       w.net.Dial,
		TLSClientConfig:   &tls.Config{},
		DisableKeepAlives: true,
	}
	w.oldDT = http.DefaultTransport
	http.DefaultTransport = w.transport
	return w
}

// Close shuts the servers down and restores the default transport.
func (w *World) Close() {
	for _, s := range w.servers {
		_ = s.Close()
	}
	w.transport.CloseIdleConnections()
	http.DefaultTransport = w.oldDT
}

func (w *World) Bump() { w.activity.Add(1) }

// Unsafe reports whether some goroutine may hold a library mutex while waiting for the harness.
func (w *World) Unsafe() bool { return w.parkedReq.Load() > 0 || w.parkedHk.Load() > 0 }

// Settle waits until the bubble is quiet: exactly (synctest.Wait) in safe
// states, heuristically (activity counter stable for 1 ms of real time) otherwise.
func (w *World) Settle() {
	if !w.Unsafe() {
		synctest.Wait()
		return
	}
	w.SettleUntil(nil)
}

// SettleUntil spins until cond holds (if given) and activity has been stable for 1 ms real time; capped at 100 ms.
func (w *World) SettleUntil(cond func() bool) { w.SettleUntilCap(cond, 500) }

// SettleUntilCap is SettleUntil with an explicit cap in ticks of 200 us.
func (w *World) SettleUntilCap(cond func() bool, capTicks int64) {
	start := ticks.Load()
	last := w.activity.Load()
	lastChange := ticks.Load()
	for {
		runtime.Gosched()
		now := ticks.Load()
		if a := w.activity.Load(); a != last {
			last, lastChange = a, now
		}
		if now-start > capTicks {
			return
		}
		if now-lastChange >= 5 && (cond == nil || cond()) {
			return
		}
	}
}

// Requests returns a snapshot of the request log.
func (w *World) Requests() []Request {
	w.mu.Lock()
	defer w.mu.Unlock()
	out := make([]Request, len(w.reqs))
	for i, r := range w.reqs {
		out[i] = *r
	}
	return out
}

// Publisher is a simulated index-provider.
type Publisher struct {
	w           *World
	Idx         int
	Key         gen.Key
	ID          peer.ID
	Store       *memstore.Store
	Lsys        ipld.LinkSystem
	Pub         *ipnisync.Publisher
	HostPort    string
	Addr        multiaddr.Multiaddr
	Alias, Dead multiaddr.Multiaddr
	Discovery   bool      // serve /.well-known/libp2p/protocols (libp2p-HTTP mode)
	Chain       []cid.Cid // ads, oldest first
	LinkProto   cidlink.LinkPrototype

	mu          sync.Mutex
	headFlt     []Fault         // consumed by head requests, in order
	blockFlt    map[int][]Fault // block-request ordinal (since ArmFaults) -> faults
	cidFlt      map[string][]Fault
	blockOrd    int
	held        bool
	gate        chan struct{}
	inFlight    int // block requests currently being served (including parked)
	MaxInFlt    int
	Legacy      bool          // serves /head and /<cid> at the root only (no IPNI path): requests for the IPNI path get 404
	headBody    []byte        // custom head for every head request (C03)
	parked      atomic.Int32  // requests of this publisher parked at its gate right now
	headGate    chan struct{} // non-nil: head requests park here
	parkedHeads atomic.Int32
}

// AddPublisher creates publisher i (key pool index keyIdx; -1: the RSA-4096 key) listening on 10.0.0.(i+1):80.
func (w *World) AddPublisher(keyIdx int, discovery bool, handlerPath string) *Publisher {
	i := len(w.Pubs)
	key := gen.BigKey() // keyIdx < 0: the RSA-4096 key
	if keyIdx >= 0 {
		key = gen.Keys()[keyIdx]
	}
	p := &Publisher{w: w, Idx: i, Key: key, Discovery: discovery, blockFlt: map[int][]Fault{}, cidFlt: map[string][]Fault{}}
	p.ID = p.Key.ID
	p.Store = &memstore.Store{}
	p.Lsys = cidlink.DefaultLinkSystem()
	ls := &lockedStore{s: p.Store} // the script publishes while requests are being served
	p.Lsys.SetReadStorage(ls)
	p.Lsys.SetWriteStorage(ls)
	p.LinkProto = schema.Linkproto
	p.HostPort = fmt.Sprintf("10.0.0.%d:80", i+1)
	opts := []ipnisync.Option{ipnisync.WithStartServer(false)}
	addr := fmt.Sprintf("/ip4/10.0.0.%d/tcp/80/http", i+1)
	if handlerPath != "" {
		opts = append(opts, ipnisync.WithHandlerPath(handlerPath))
	}
	pub, err := ipnisync.NewPublisher(p.Lsys, p.Key.Priv, opts...)
	if err != nil {
		panic(err)
	}
	p.Pub = pub
	p.Addr = multiaddr.StringCast(addr)
	if handlerPath != "" {
		p.Addr = multiaddr.StringCast(addr + "/http-path/" + url.QueryEscape(strings.Trim(handlerPath, "/")))
	}
	l := w.net.Listen(p.HostPort)
	srv := &http.Server{Handler: p}
	w.servers = append(w.servers, srv)
	go func() { _ = srv.Serve(l) }()
	w.Pubs = append(w.Pubs, p)
	return p
}

// Info returns the AddrInfo to sync this publisher with.
func (p *Publisher) Info() peer.AddrInfo {
	ai := peer.AddrInfo{ID: p.ID}
	if p.Dead != nil {
		ai.Addrs = append(ai.Addrs, p.Dead)
	}
	ai.Addrs = append(ai.Addrs, p.Addr)
	if p.Alias != nil {
		ai.Addrs = append(ai.Addrs, p.Alias)
	}
	return ai
}

// AddDead puts an address nobody listens on (connections are refused) in front of the publisher's addresses.
func (p *Publisher) AddDead() {
	p.Dead = multiaddr.StringCast(fmt.Sprintf("/ip4/10.0.9.%d/tcp/80/http", p.Idx+1))
}

// BadInfo is an announcement's sender information with an address no HTTP sync can use.
func (p *Publisher) BadInfo() peer.AddrInfo {
	return peer.AddrInfo{ID: p.ID, Addrs: []multiaddr.Multiaddr{multiaddr.StringCast(fmt.Sprintf("/ip4/10.0.8.%d/tcp/4001", p.Idx+1))}}
}

// AddAlias gives the publisher a second address (10.0.1.N:80) served by the same handler.
func (p *Publisher) AddAlias() {
	hp := fmt.Sprintf("10.0.1.%d:80", p.Idx+1)
	l := p.w.net.Listen(hp)
	srv := &http.Server{Handler: p}
	p.w.servers = append(p.w.servers, srv)
	go func() { _ = srv.Serve(l) }()
	p.Alias = multiaddr.StringCast(fmt.Sprintf("/ip4/10.0.1.%d/tcp/80/http", p.Idx+1))
}

// SetHashFunc makes later blocks use the given multihash function and digest length.
func (p *Publisher) SetHashFunc(code uint64, length int) {
	p.LinkProto = cidlink.LinkPrototype{Prefix: cid.Prefix{Version: 1, Codec: cid.DagJSON, MhType: code, MhLength: length}}
}

// ExtendAds appends n signed advertisements to the chain and makes the last one the root.
func (p *Publisher) ExtendAds(n int) {
	for k := 0; k < n; k++ {
		i := len(p.Chain)
		ad := schema.Advertisement{
			Provider:  p.ID.String(),
			Addresses: []string{"/ip4/8.8.8.8/tcp/9999"},
			Entries:   schema.NoEntries,
			ContextID: []byte(fmt.Sprintf("ctx-%d-%d", p.Idx, i)),
			Metadata:  []byte{0x80, 0x12},
		}
		if i > 0 {
			ad.PreviousID = cidlink.Link{Cid: p.Chain[i-1]}
		}
		if err := ad.Sign(p.Key.Priv); err != nil {
			panic(err)
		}
		nd, err := ad.ToNode()
		if err != nil {
			panic(err)
		}
		l, err := p.Lsys.Store(ipld.LinkContext{}, p.LinkProto, nd)
		if err != nil {
			panic(err)
		}
		p.Chain = append(p.Chain, l.(cidlink.Link).Cid)
	}
	if len(p.Chain) > 0 {
		p.Pub.SetRoot(p.Chain[len(p.Chain)-1])
	}
}

// BuildEntries stores an entries chain of n chunks and returns the CIDs, oldest (tail) first.
func (p *Publisher) BuildEntries(n int, tag int) []cid.Cid {
	var out []cid.Cid
	for i := 0; i < n; i++ {
		ch := schema.EntryChunk{}
		for j := 0; j < 2; j++ {
			mh, _ := multihash.Sum([]byte(fmt.Sprintf("e-%d-%d-%d-%d", p.Idx, tag, i, j)), multihash.SHA2_256, -1)
			ch.Entries = append(ch.Entries, mh)
		}
		if i > 0 {
			ch.Next = cidlink.Link{Cid: out[i-1]}
		}
		nd, err := ch.ToNode()
		if err != nil {
			panic(err)
		}
		l, err := p.Lsys.Store(ipld.LinkContext{}, p.LinkProto, nd)
		if err != nil {
			panic(err)
		}
		out = append(out, l.(cidlink.Link).Cid)
	}
	return out
}

// MislabelHead makes the publisher hostile in one particular way: it publishes one more advertisement whose
// PreviousID names the current head's *content* under another hash function: a CID whose multihash code is
// code but whose digest is the digest of the current head's block under the chain's own hash function. The
// body of the current head is served for that CID. Returns the crafted CID (no honest client may store it).
func (p *Publisher) MislabelHead(code uint64) cid.Cid { return p.MislabelHeadAs(code, 0) }

// MislabelHeadAs is MislabelHead with another source for the digest: digestCode != 0 names the function the digest
// of the current head's body is computed with (e.g. the native 160-bit member of a hash family), and the crafted
// CID labels it as `code` with that digest's length (e.g. the 256-bit member truncated to 160 bits).
func (p *Publisher) MislabelHeadAs(code, digestCode uint64) cid.Cid {
	cur := p.Chain[len(p.Chain)-1]
	body := p.Body(cur)
	dm, err := multihash.Decode(cur.Hash())
	if err != nil {
		panic(err)
	}
	digest := dm.Digest
	if digestCode != 0 {
		sum, err := multihash.Sum(body, digestCode, -1)
		if err != nil {
			panic(err)
		}
		sd, err := multihash.Decode(sum)
		if err != nil {
			panic(err)
		}
		digest = sd.Digest
	}
	mh, err := multihash.Encode(digest, code)
	if err != nil {
		panic(err)
	}
	crafted := cid.NewCidV1(cur.Prefix().Codec, mh)
	// the honest publisher code would refuse to serve bytes that do not hash to the key: serve them as a custom body
	p.FaultCid(crafted, Fault{Kind: "custom", Body: body}, Fault{Kind: "custom", Body: body}, Fault{Kind: "custom", Body: body})
	i := len(p.Chain)
	ad := schema.Advertisement{
		Provider:   p.ID.String(),
		Addresses:  []string{"/ip4/8.8.8.8/tcp/9999"},
		Entries:    schema.NoEntries,
		ContextID:  []byte(fmt.Sprintf("ctx-%d-%d", p.Idx, i)),
		Metadata:   []byte{0x80, 0x12},
		PreviousID: cidlink.Link{Cid: crafted},
	}
	if err := ad.Sign(p.Key.Priv); err != nil {
		panic(err)
	}
	nd, err := ad.ToNode()
	if err != nil {
		panic(err)
	}
	l, err := p.Lsys.Store(ipld.LinkContext{}, p.LinkProto, nd)
	if err != nil {
		panic(err)
	}
	p.Chain = append(p.Chain, l.(cidlink.Link).Cid)
	p.Pub.SetRoot(p.Chain[len(p.Chain)-1])
	return crafted
}

// BuildGenericChain stores n generic map nodes, each linking to its predecessor under a key that is neither
// an advertisement's nor an entry chunk's link field (the shape of a HAMT path: only an explore-all selector
// follows it, and a block hook cannot name a "next" CID). Returns the CIDs, deepest node first.
func (p *Publisher) BuildGenericChain(n int, tag int) []cid.Cid {
	var out []cid.Cid
	for i := 0; i < n; i++ {
		nd, err := qp.BuildMap(basicnode.Prototype.Map, 3, func(ma datamodel.MapAssembler) {
			qp.MapEntry(ma, "Bucket", qp.String(fmt.Sprintf("g-%d-%d-%d", p.Idx, tag, i)))
			if i > 0 {
				qp.MapEntry(ma, "Child", qp.Link(cidlink.Link{Cid: out[i-1]}))
			}
		})
		if err != nil {
			panic(err)
		}
		l, err := p.Lsys.Store(ipld.LinkContext{}, p.LinkProto, nd)
		if err != nil {
			panic(err)
		}
		out = append(out, l.(cidlink.Link).Cid)
	}
	return out
}

// BuildSizedNode stores one generic node whose encoded block is exactly size bytes long (padding in an ASCII
// string field), optionally linking to child, and returns its CID. size must exceed the unpadded encoding.
func (p *Publisher) BuildSizedNode(size int, child cid.Cid, tag int) (cid.Cid, bool) {
	build := func(pad int) (cid.Cid, int) {
		nd, err := qp.BuildMap(basicnode.Prototype.Map, 3, func(ma datamodel.MapAssembler) {
			qp.MapEntry(ma, "Bucket", qp.String(fmt.Sprintf("s-%d-%d-", p.Idx, tag)+strings.Repeat("a", pad)))
			if child != cid.Undef {
				qp.MapEntry(ma, "Child", qp.Link(cidlink.Link{Cid: child}))
			}
		})
		if err != nil {
			panic(err)
		}
		l, err := p.Lsys.Store(ipld.LinkContext{}, p.LinkProto, nd)
		if err != nil {
			panic(err)
		}
		c := l.(cidlink.Link).Cid
		return c, len(p.Body(c))
	}
	_, base := build(0)
	if size < base {
		return cid.Undef, false
	}
	c, n := build(size - base)
	return c, n == size
}

// Body returns the honest response body for a block.
func (p *Publisher) Body(c cid.Cid) []byte {
	rec := httptest.NewRecorder()
	req := httptest.NewRequest(http.MethodGet, p.basePath()+"/"+c.String(), nil)
	p.Pub.ServeHTTP(rec, req)
	return rec.Body.Bytes()
}

func (p *Publisher) basePath() string {
	u := "/ipni/v1/ad"
	if v, err := p.Addr.ValueForProtocol(multiaddr.P_HTTP_PATH); err == nil && v != "" {
		hp, _ := urlUnescape(v)
		u = "/" + strings.Trim(hp, "/") + u
	}
	return u
}

// ArmFaults resets the block-request ordinal and installs faults for this attempt.
func (p *Publisher) ArmFaults(head []Fault, byOrdinal map[int][]Fault) {
	p.mu.Lock()
	p.headFlt = head
	p.blockFlt = byOrdinal
	if p.blockFlt == nil {
		p.blockFlt = map[int][]Fault{}
	}
	p.blockOrd = 0
	p.mu.Unlock()
}

// FaultCid installs faults consumed by requests for one CID.
func (p *Publisher) FaultCid(c cid.Cid, f ...Fault) {
	p.mu.Lock()
	p.cidFlt[c.String()] = append(p.cidFlt[c.String()], f...)
	p.mu.Unlock()
}

// SetHeadBody makes every head request return the given bytes.
func (p *Publisher) SetHeadBody(b []byte) { p.mu.Lock(); p.headBody = b; p.mu.Unlock() }

// Hold makes block requests park at the gate until Open.
func (p *Publisher) Hold() {
	p.mu.Lock()
	if !p.held {
		p.held = true
		p.gate = make(chan struct{})
	}
	p.mu.Unlock()
}

func (p *Publisher) Open() {
	p.mu.Lock()
	if p.held {
		p.held = false
		close(p.gate)
	}
	p.mu.Unlock()
}

// Parked reports how many requests of this publisher are parked at its closed gate right now.
func (p *Publisher) Parked() int { return int(p.parked.Load()) }

// HoldHeads makes head requests park until OpenHeads is called.
func (p *Publisher) HoldHeads() { p.mu.Lock(); p.headGate = make(chan struct{}); p.mu.Unlock() }

// OpenHeads releases parked head requests.
func (p *Publisher) OpenHeads() {
	p.mu.Lock()
	if p.headGate != nil {
		close(p.headGate)
		p.headGate = nil
	}
	p.mu.Unlock()
}

// ParkedHeads returns the number of head requests parked at the head gate.
func (p *Publisher) ParkedHeads() int { return int(p.parkedHeads.Load()) }

func (p *Publisher) IsHeld() bool { p.mu.Lock(); defer p.mu.Unlock(); return p.held }

func (p *Publisher) InFlight() int { p.mu.Lock(); defer p.mu.Unlock(); return p.inFlight }

func (p *Publisher) ServeHTTP(rw http.ResponseWriter, r *http.Request) {
	w := p.w
	req := &Request{Pub: p.Idx, Path: r.URL.Path, Schema: r.Header.Get(ipnisync.CidSchemaHeader)}
	base := path(r.URL.Path)
	switch {
	case strings.HasPrefix(r.URL.Path, "/.well-known/libp2p"):
		req.Kind = "wellknown"
	case base == "head":
		req.Kind = "head"
	default:
		if c, err := cid.Parse(base); err == nil {
			req.Kind, req.Cid = "block", c.String()
		} else {
			req.Kind = "other"
		}
	}
	if p.Legacy && strings.Contains(r.URL.Path, "/ipni/v1/ad/") {
		// a publisher from before the IPNI path existed: it serves /head and /<cid> only and knows nothing of the
		// path the client tries first. Logged as a probe: not a block request, never faulted.
		req.Kind, req.Cid = "probe", ""
	}
	w.mu.Lock()
	req.Seq = len(w.reqs)
	req.Attempt = w.Attempt
	w.reqs = append(w.reqs, req)
	w.mu.Unlock()
	w.Bump()
	if req.Kind == "probe" {
		w.mu.Lock()
		req.Status, req.Done = 404, true
		w.mu.Unlock()
		http.Error(rw, "404 page not found", http.StatusNotFound)
		return
	}
	defer func() {
		w.mu.Lock()
		req.Done = true
		w.mu.Unlock()
		w.Bump()
	}()

	if req.Kind == "wellknown" {
		if p.Discovery {
			rw.Header().Set("Content-Type", "application/json")
			req.Status = 200
			_, _ = io.WriteString(rw, `{"/ipni/v1/ad":{"path":"`+p.basePath()+`/"}}`)
			return
		}
		req.Status = 404
		http.Error(rw, "not found", http.StatusNotFound)
		return
	}

	var flt *Fault
	p.mu.Lock()
	switch req.Kind {
	case "head":
		if len(p.headFlt) > 0 {
			f := p.headFlt[0]
			p.headFlt = p.headFlt[1:]
			flt = &f
		}
	case "block":
		ord := p.blockOrd
		p.blockOrd++
		if fs := p.blockFlt[ord]; len(fs) > 0 {
			f := fs[0]
			p.blockFlt[ord] = fs[1:]
			flt = &f
		} else if fs := p.cidFlt[req.Cid]; len(fs) > 0 {
			f := fs[0]
			p.cidFlt[req.Cid] = fs[1:]
			flt = &f
		}
		p.inFlight++
		if p.inFlight > p.MaxInFlt {
			p.MaxInFlt = p.inFlight
		}
	}
	held, gate := p.held, p.gate
	headBody := p.headBody
	headGate := p.headGate
	p.mu.Unlock()
	if req.Kind == "head" && headGate != nil {
		w.parkedReq.Add(1)
		p.parkedHeads.Add(1)
		w.Bump()
		select {
		case <-headGate:
		case <-r.Context().Done():
		}
		p.parkedHeads.Add(-1)
		w.parkedReq.Add(-1)
		w.Bump()
	}
	if req.Kind == "block" {
		defer func() { p.mu.Lock(); p.inFlight--; p.mu.Unlock() }()
		if held {
			w.parkedReq.Add(1)
			p.parked.Add(1)
			w.Bump()
			select {
			case <-gate:
			case <-r.Context().Done():
			}
			p.parked.Add(-1)
			w.parkedReq.Add(-1)
			w.Bump()
		}
	}

	// honest response
	rec := httptest.NewRecorder()
	if p.Legacy {
		r2 := r.Clone(r.Context())
		r2.URL.Path = "/ipni/v1/ad/" + base
		p.Pub.ServeHTTP(rec, r2)
	} else {
		p.Pub.ServeHTTP(rec, r)
	}
	status, body := rec.Code, rec.Body.Bytes()
	if req.Kind == "head" && headBody != nil {
		status, body = 200, headBody
	}
	if flt == nil {
		req.Status = status
		rw.WriteHeader(status)
		_, _ = rw.Write(body)
		return
	}
	req.Fault = flt.String()
	switch flt.Kind {
	case "status":
		req.Status = flt.Code
		http.Error(rw, "fault", flt.Code)
	case "reset":
		killConn(rw)
	case "truncate":
		// declared honest length, fewer bytes sent, then the connection dies
		n := flt.N
		if n > len(body) {
			n = len(body)
		}
		rw.Header().Set("Content-Length", fmt.Sprint(len(body)))
		rw.WriteHeader(status)
		_, _ = rw.Write(body[:n])
		if f, ok := rw.(http.Flusher); ok {
			f.Flush()
		}
		killConn(rw)
	case "shortbody":
		n := flt.N
		if n > len(body) {
			n = len(body)
		}
		req.Status = status
		rw.WriteHeader(status)
		_, _ = rw.Write(body[:n])
	case "flipbit":
		b := append([]byte(nil), body...)
		if len(b) > 0 {
			b[flt.N%len(b)] ^= 1 << uint(flt.Bit%8)
		}
		req.Status = status
		rw.WriteHeader(status)
		_, _ = rw.Write(b)
	case "append":
		req.Status = status
		rw.WriteHeader(status)
		_, _ = rw.Write(append(append([]byte(nil), body...), bytes.Repeat([]byte{' '}, flt.N)...))
	case "substitute", "custom":
		req.Status = 200
		rw.WriteHeader(200)
		_, _ = rw.Write(flt.Body)
	case "empty":
		req.Status = 200
		rw.WriteHeader(200)
	case "oversize":
		req.Status = 200
		rw.WriteHeader(200)
		_, _ = rw.Write(body)
		_, _ = rw.Write(bytes.Repeat([]byte{'\n'}, flt.N))
	case "stall":
		w.parkedReq.Add(1)
		<-r.Context().Done()
		w.parkedReq.Add(-1)
	case "cancelcaller":
		if flt.Cancel != nil {
			flt.Cancel()
		}
		// then answer honestly (the caller may or may not still be listening)
		req.Status = status
		rw.WriteHeader(status)
		_, _ = rw.Write(body)
	}
}

func killConn(rw http.ResponseWriter) {
	if hj, ok := rw.(http.Hijacker); ok {
		if c, _, err := hj.Hijack(); err == nil {
			_ = c.Close()
			return
		}
	}
	panic(http.ErrAbortHandler)
}

func path(p string) string {
	p = strings.TrimSuffix(p, "/")
	if i := strings.LastIndexByte(p, '/'); i >= 0 {
		return p[i+1:]
	}
	return p
}

func urlUnescape(s string) (string, error) { return url.QueryUnescape(s) }

var _ net.Listener = (*memListener)(nil)

// lockedStore makes the publisher's source store safe for concurrent publish and serve.
type lockedStore struct {
	mu sync.RWMutex
	s  *memstore.Store
}

func (l *lockedStore) Has(ctx context.Context, key string) (bool, error) {
	l.mu.RLock()
	defer l.mu.RUnlock()
	return l.s.Has(ctx, key)
}

func (l *lockedStore) Get(ctx context.Context, key string) ([]byte, error) {
	l.mu.RLock()
	defer l.mu.RUnlock()
	return l.s.Get(ctx, key)
}

func (l *lockedStore) Put(ctx context.Context, key string, content []byte) error {
	l.mu.Lock()
	defer l.mu.Unlock()
	return l.s.Put(ctx, key, content)
}
