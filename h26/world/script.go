package world

import (
	"context"
	"fmt"
	"sync"
	"sync/atomic"
	"testing/synctest"
	"time"

	"github.com/ipfs/go-cid"
	"github.com/ipni/go-libipni/dagsync"
	"github.com/libp2p/go-libp2p/core/peer"
)

// Step is one instruction of a drawn script for the subscriber-level checks (C08, C14, C15).
type Step struct {
	Op string // publish | announce | failannounce | sync | hold | open | register | regcancel | cancel | read | close | post
	P  int    // publisher
	N  int    // publish: ads to add; read: events to read; post: which call
	L  int    // listener
}

type Script struct {
	K        int // publishers
	MaxAsync int // MaxAsyncConcurrency (0 = unlimited)
	Steps    []Step
}

// Op is an API call running in its own goroutine.
type Op struct {
	Kind       string
	P          int
	Step       int
	done       atomic.Bool
	Err        error
	Cid        cid.Cid
	Head       cid.Cid // announce: the announced head
	Start      int     // len(R) when issued (lower bound)
	AfterClose bool    // a Close call had certainly returned before this call was issued
	Ent        []cid.Cid // entries: the chunks of the chain to sync, oldest first
	smu        sync.Mutex
	scoped     []cid.Cid // entries: the calls of this sync's scoped hook
}

// Scoped returns the calls made to this entries sync's scoped block hook.
func (o *Op) Scoped() []cid.Cid {
	o.smu.Lock()
	defer o.smu.Unlock()
	return append([]cid.Cid(nil), o.scoped...)
}

// Mark is the state of one publisher's observations when its handler was removed.
type Mark struct {
	Hooks, Events, Announced, Ops int
	Latest                        cid.Cid
}

func (o *Op) Done() bool { return o.done.Load() }

// Listener is a harness-side OnSyncFinished consumer whose reads are granted by the script.
type Listener struct {
	Idx        int
	ch         <-chan dagsync.SyncFinished
	cancelFn   context.CancelFunc
	mu         sync.Mutex
	Events     []dagsync.SyncFinished
	Closed     bool
	permits    chan struct{}
	drain      chan struct{}
	Registered bool
	Cancelled  bool
	// bounds on the window [a, b) of the reference sequence this listener must have received
	ALo, AHi int // events distributed before the registration took effect
	BLo, BHi int // events distributed before the removal took effect (BHi = -1: until the end)
	RegStep  int
	CanStep  int
	exitCh   chan struct{}
}

func (l *Listener) run(w *World) {
	defer close(l.exitCh)
	for {
		select {
		case <-l.permits:
		case <-l.drain:
			for ev := range l.ch {
				l.mu.Lock()
				l.Events = append(l.Events, ev)
				l.mu.Unlock()
			}
			l.mu.Lock()
			l.Closed = true
			l.mu.Unlock()
			return
		}
		ev, ok := <-l.ch
		l.mu.Lock()
		if !ok {
			l.Closed = true
			l.mu.Unlock()
			return
		}
		l.Events = append(l.Events, ev)
		l.mu.Unlock()
		w.Bump()
	}
}

func (l *Listener) Snapshot() ([]dagsync.SyncFinished, bool) {
	l.mu.Lock()
	defer l.mu.Unlock()
	return append([]dagsync.SyncFinished(nil), l.Events...), l.Closed
}

// IdleTTL is the idle-handler TTL of scripted subscribers (virtual time; only "tick" steps let it pass).
const IdleTTL = time.Minute

// Exec runs scripts against one subscriber.
type Exec struct {
	W         *World
	S         *Sub
	Pubs      []*Publisher
	Ops       []*Op
	Listeners []*Listener
	Announced [][]cid.Cid // per publisher: heads announced, in order
	FailHeads map[string]bool
	CloseAt   int // step index at which the first Close was issued (-1: none)
	CloseRet  bool
	// bookkeeping for the settle rule
	contender bool
	Excluded  map[string]int // steps skipped because of an open known finding
	dirty     map[int]bool   // publisher has announcements that may not have been handled yet
	Notes     []string
	Viol      string
	// world counters frozen when the first Close returned
	frozen                                     bool
	hooksAtClose, writesAtClose, eventsAtClose int
	MaxPubsBusy                                int // max publishers with an in-flight block request while no explicit sync was outstanding
	explicitOut                                int
	HoldBursts                                 []string
	handlerRemoved                             bool
	BadAnnounces                               int
	Marks                                      map[int][]Mark // per publisher: RemoveHandler points
	opsSinceExact                              map[int]int    // per publisher: sync-starting calls issued since the last exact quiescence
	Ticks                                      int            // times the virtual clock was moved past the idle-handler TTL
	TicksDuringSync                            int            // ... while a sync was parked
	freezeOnce                                 sync.Once
	frozenFlag                                 atomic.Bool
}

func NewExec(w *World, sc Script, discovery bool, opts ...dagsync.Option) (*Exec, error) {
	e := &Exec{W: w, FailHeads: map[string]bool{}, CloseAt: -1, Excluded: map[string]int{}, dirty: map[int]bool{}, Marks: map[int][]Mark{}, opsSinceExact: map[int]int{}}
	for i := 0; i < sc.K; i++ {
		p := w.AddPublisher(i, discovery, "")
		p.ExtendAds(1)
		e.Pubs = append(e.Pubs, p)
		e.Announced = append(e.Announced, nil)
	}
	if sc.MaxAsync != 0 {
		opts = append(opts, dagsync.MaxAsyncConcurrency(sc.MaxAsync))
	}
	// requests parked at a gate must not time out when a tick moves the clock
	opts = append(opts, dagsync.IdleHandlerTTL(IdleTTL), dagsync.HttpTimeout(24*time.Hour))
	s, err := NewSub(w, true, opts...)
	if err != nil {
		return nil, err
	}
	e.S = s
	return e, nil
}

func (e *Exec) fail(format string, a ...any) {
	if e.Viol == "" {
		e.Viol = fmt.Sprintf(format, a...)
	}
}

// anyParked reports whether a request is parked at a gate.
func (e *Exec) anyParked() bool { return e.W.parkedReq.Load() > 0 }

// anyHeld reports whether some publisher's gate is closed (a request may park at any moment).
func (e *Exec) anyHeld() bool {
	for _, p := range e.Pubs {
		if p.IsHeld() {
			return true
		}
	}
	return false
}

// Settle waits for quiet. exact == true means synctest.Wait returned (every goroutine durably blocked).
// synctest.Wait is only used when no gate is closed and nothing is parked: then no goroutine can hold a
// library mutex while waiting for the harness, so a goroutine blocked in Mutex.Lock (which synctest does
// not count as durably blocked) is always released and Wait terminates. Otherwise the harness settles
// heuristically; that only affects which interleaving is explored.
func (e *Exec) Settle() (exact bool) {
	if e.anyHeld() || e.anyParked() {
		e.W.SettleUntil(nil)
		e.sample()
		return false
	}
	synctest.Wait()
	// exact quiescence with every gate open: every announcement has been handled
	for i := range e.Pubs {
		e.dirty[i] = false
		e.opsSinceExact[i] = 0
	}
	e.sample()
	return true
}

func (e *Exec) sample() {
	busy := 0
	for _, p := range e.Pubs {
		if p.InFlight() > 0 {
			busy++
		}
		if p.MaxInFlt > 1 && !e.handlerRemoved {
			e.fail("publisher %d had %d block requests in flight at once: two syncs of one publisher ran concurrently", p.Idx, p.MaxInFlt)
		}
	}
	if e.explicitOut == 0 && busy > e.MaxPubsBusy {
		e.MaxPubsBusy = busy
	}
	if e.frozen {
		// Hook calls and store writes are counted synchronously inside the library's goroutines, so the
		// comparison is exact. Notifications are not compared: what the reference listener still receives was
		// queued before its channel was closed (a send after that would panic, which the bubble reports).
		if h, wr := e.S.NHooks(), e.S.NWrites(); h != e.hooksAtClose || wr != e.writesAtClose {
			e.fail("after Close returned: hook calls %d -> %d, store writes %d -> %d", e.hooksAtClose, h, e.writesAtClose, wr)
		}
	}
}

// HandlerRemoved reports whether RemoveHandler was called on a publisher whose sync may have been running (then a
// second handler, with locks of its own, can run a second sync of that publisher next to the first).
func (e *Exec) HandlerRemoved() bool { return e.handlerRemoved }

// Dirty reports whether publisher p may have announcements that were not handled yet.
func (e *Exec) Dirty(p int) bool { return e.dirty[p] }

// busy reports whether publisher p may have a sync in flight or pending.
func (e *Exec) busy(p int) bool {
	if e.Pubs[p].InFlight() > 0 {
		return true
	}
	for _, o := range e.Ops {
		if o.P == p && (o.Kind == "sync" || o.Kind == "announce" || o.Kind == "entries") && !o.Done() {
			return true
		}
	}
	return false
}

func (e *Exec) start(kind string, p, step int, f func(o *Op)) *Op {
	o := &Op{Kind: kind, P: p, Step: step, Start: e.S.NEvents(), AfterClose: e.frozenFlag.Load()}
	e.Ops = append(e.Ops, o)
	go func() {
		f(o)
		o.done.Store(true)
		e.W.Bump()
	}()
	return o
}

// Run executes one step.
func (e *Exec) Run(i int, st Step, knownStaleStop bool) {
	if e.Viol != "" {
		return
	}
	ctx := context.Background()
	switch st.Op {
	case "publish":
		if e.CloseAt >= 0 {
			return
		}
		e.Pubs[st.P].ExtendAds(st.N)
	case "announce", "failannounce", "badannounce":
		p := e.Pubs[st.P]
		head := p.Chain[len(p.Chain)-1]
		if n := len(e.Announced[st.P]); n > 0 && e.Announced[st.P][n-1] == head && !e.FailHeads[head.String()] {
			return // nothing new to announce
		}
		if knownStaleStop && e.explicitBusy(st.P) {
			// known finding: an announcement handled after an explicit sync that got ahead of it
			e.Excluded["announce-while-explicit-sync-outstanding"]++
			return
		}
		if st.Op == "failannounce" && e.CloseAt < 0 {
			p.FaultCid(head, Fault{Kind: "status", Code: 500})
			e.FailHeads[head.String()] = true
		}
		if e.busy(st.P) {
			e.contender = true
		}
		e.Announced[st.P] = append(e.Announced[st.P], head)
		e.dirty[st.P] = true
		e.opsSinceExact[st.P]++
		info := p.Info()
		if st.Op == "badannounce" {
			// sender information no sync can use: the sync fails before its first request, and the head may be
			// announced again
			info = p.BadInfo()
			e.FailHeads[head.String()] = true
			e.BadAnnounces++
		}
		// Issued synchronously: two Announce calls racing in their own goroutines could reach the receiver out
		// of chain order, which the API forbids its callers (and which then loses the newer head). The call only
		// waits for the receiver's one-slot hand-over to the watcher, which never waits for the harness.
		o := &Op{Kind: "announce", P: st.P, Step: i, Start: e.S.NEvents(), Head: head}
		e.Ops = append(e.Ops, o)
		o.Err = e.S.S.Announce(ctx, head, info)
		o.done.Store(true)
	case "sync":
		p := e.Pubs[st.P]
		if knownStaleStop && e.dirty[st.P] {
			// known finding: an explicit sync that runs while an announcement of the same publisher is still
			// waiting to be handled may reach a newer head than that announcement (it queries the head when it
			// finally runs), after which the announcement is handled as if it were new
			e.Excluded["explicit-sync-with-unhandled-announcement"]++
			return
		}
		if e.busy(st.P) || e.dirty[st.P] {
			// an explicit sync waits (on a mutex) for the publisher's announce-triggered syncs, including one
			// that is itself waiting for a slot of the concurrency semaphore
			e.contender = true
		}
		e.explicitOut++
		e.opsSinceExact[st.P]++
		info := p.Info()
		e.start("sync", st.P, i, func(o *Op) {
			o.Cid, o.Err = e.S.S.SyncAdChain(ctx, info)
		})
	case "entries":
		// an explicit sync of a fresh entries chain of N chunks with its own (scoped) block hook
		if e.CloseAt >= 0 {
			return
		}
		p := e.Pubs[st.P]
		ent := p.BuildEntries(st.N, 1000+i)
		e.explicitOut++
		e.opsSinceExact[st.P]++
		info := p.Info()
		e.start("entries", st.P, i, func(o *Op) {
			o.Ent = ent
			o.Err = e.S.S.SyncEntries(ctx, info, ent[len(ent)-1], dagsync.ScopedBlockHook(func(_ peer.ID, c cid.Cid, act dagsync.SegmentSyncActions) {
				o.smu.Lock()
				o.scoped = append(o.scoped, c)
				o.smu.Unlock()
				e.W.Bump()
				act.SetNextSyncCid(e.S.NextOf(c)) // the segmented-sync contract (a no-op without segmentation)
			}))
		})
	case "rmhandler":
		// RemoveHandler at a moment when the publisher is certainly idle: its handler (locks, pending announcement,
		// syncer) is dropped and re-created on demand; latest-sync is kept; one sync at a time still holds
		if e.CloseAt >= 0 || e.anyHeld() || e.anyParked() || e.busy(st.P) || e.dirty[st.P] {
			return
		}
		synctest.Wait()
		p := e.Pubs[st.P]
		latest := e.S.Latest(p.ID)
		if e.S.S.RemoveHandler(p.ID) {
			e.Marks[st.P] = append(e.Marks[st.P], Mark{Hooks: e.S.NHooks(), Events: e.S.NEvents(), Announced: len(e.Announced[st.P]), Ops: len(e.Ops), Latest: latest})
		}
	case "tick":
		// Let the virtual clock pass the idle-handler TTL. The bubble's clock only moves when every goroutine is
		// durably blocked, and a goroutine waiting for a library mutex is not: so this is only done when at most
		// one sync-starting call per publisher was issued since the last exact quiescence (no call can be queued
		// behind another one's locks) and no Close is in progress.
		if e.CloseAt >= 0 {
			return
		}
		if e.anyHeld() || e.anyParked() {
			// (a call of another publisher can be queued too: behind the concurrency semaphore's holder)
			for pi := range e.Pubs {
				if e.opsSinceExact[pi] > 1 {
					return
				}
			}
		}
		e.Ticks++
		if e.anyParked() {
			e.TicksDuringSync++
		}
		time.Sleep(IdleTTL + time.Second)
	case "hold":
		e.Pubs[st.P].Hold()
	case "open":
		e.Pubs[st.P].Open()
	case "register":
		e.register(i, false)
	case "regcancel":
		e.register(i, true)
	case "cancel":
		if st.L < len(e.Listeners) {
			e.cancel(i, e.Listeners[st.L])
		}
	case "read":
		if st.L < len(e.Listeners) {
			for k := 0; k < st.N; k++ {
				select {
				case e.Listeners[st.L].permits <- struct{}{}:
				default:
				}
			}
		}
	case "close":
		if e.CloseAt < 0 {
			e.CloseAt = i
		} else {
			e.contender = true
		}
		for _, o := range e.Ops {
			if !o.Done() {
				e.contender = true // Close waits on WaitGroups; explicit syncs parked at a gate keep it waiting
			}
		}
		e.start("close", -1, i, func(o *Op) {
			o.Err = e.S.S.Close()
			e.closeReturned()
		})
	case "post":
		e.post(i, st)
	}
	e.Settle()
	e.afterSettle()
}

// closeReturned is called by whichever Close call returns first: it freezes the world counters (nothing may
// happen after that) before anyone can observe that Close has returned.
func (e *Exec) closeReturned() {
	e.freezeOnce.Do(func() {
		e.hooksAtClose, e.writesAtClose, e.eventsAtClose = e.S.NHooks(), e.S.NWrites(), e.S.NEvents()
		e.frozenFlag.Store(true)
	})
}

func (e *Exec) explicitBusy(p int) bool {
	for _, o := range e.Ops {
		if o.P == p && o.Kind == "sync" && !o.Done() {
			return true
		}
	}
	return false
}

func (e *Exec) afterSettle() {
	n := 0
	for _, o := range e.Ops {
		// calls issued after Close was called may still get in before Close takes effect: they are explicit syncs too
		if (o.Kind == "sync" || o.Kind == "entries" || o.Kind == "post-sync" || o.Kind == "post-entries") && !o.Done() {
			n++
		}
	}
	e.explicitOut = n
	if !e.frozen && e.frozenFlag.Load() {
		e.frozen = true
		e.CloseRet = true
	}
}

func (e *Exec) register(i int, cancelAtOnce bool) {
	if len(e.Listeners) >= 5 {
		return
	}
	exactBefore := !(e.anyParked() || e.anyHeld())
	if exactBefore {
		synctest.Wait()
	}
	l := &Listener{Idx: len(e.Listeners), permits: make(chan struct{}, 1024), drain: make(chan struct{}), exitCh: make(chan struct{}), RegStep: i, CanStep: -1, BHi: -1}
	l.ALo = e.S.NEvents()
	e.Listeners = append(e.Listeners, l)
	regDone := make(chan struct{})
	go func() {
		l.ch, l.cancelFn = e.S.S.OnSyncFinished()
		close(regDone)
	}()
	if e.CloseAt >= 0 {
		// once Close was called the registration must still return (C15); judged at quiescence
		isDone := func() bool {
			select {
			case <-regDone:
				return true
			default:
				return false
			}
		}
		if e.anyParked() || e.anyHeld() {
			// returns as soon as the call has returned; the cap (10 s of real time) only matters on an
			// overloaded machine, where 100 ms is not enough for a runnable goroutine to be scheduled
			e.W.SettleUntilCap(isDone, 50000)
		} else {
			synctest.Wait()
		}
		if !isDone() {
			if e.CloseRet {
				e.fail("OnSyncFinished called after Close returned never returns")
			} else {
				e.Notes = append(e.Notes, "registration during Close still pending")
				e.fail("OnSyncFinished called while Close is in progress does not return")
			}
			e.Listeners = e.Listeners[:len(e.Listeners)-1]
			return
		}
	} else {
		<-regDone
	}
	l.Registered = true
	if cancelAtOnce {
		// registration immediately followed by cancellation, with no scheduling point in between
		l.Cancelled = true
		l.CanStep = i
		l.BLo = l.ALo
		c := l.cancelFn
		e.start("cancel", -1, i, func(o *Op) { c() })
	}
	go l.run(e.W)
	if exact := e.Settle(); exact && exactBefore {
		l.AHi = e.S.NEvents()
	} else {
		l.AHi = -1 // unknown
	}
	if cancelAtOnce {
		l.BHi = l.AHi
	}
}

func (e *Exec) cancel(i int, l *Listener) {
	if !l.Registered {
		return
	}
	if l.Cancelled {
		// the cancel function is a context.CancelFunc: calling it again does nothing, and returns
		c := l.cancelFn
		e.start("cancel", -1, i, func(o *Op) { c() })
		e.Settle()
		return
	}
	exactBefore := !(e.anyParked() || e.anyHeld())
	if exactBefore {
		synctest.Wait()
	}
	l.Cancelled = true
	l.CanStep = i
	l.BLo = e.S.NEvents()
	c := l.cancelFn
	e.start("cancel", -1, i, func(o *Op) { c() })
	if exact := e.Settle(); exact && exactBefore {
		l.BHi = e.S.NEvents()
	} else {
		l.BHi = -2 // unknown upper bound
	}
}

// post issues an API call after Close was called; every such call must return.
func (e *Exec) post(i int, st Step) {
	p := e.Pubs[st.P%len(e.Pubs)]
	info := p.Info()
	ctx := context.Background()
	switch st.N % 7 {
	case 0:
		e.start("post-sync", -1, i, func(o *Op) { _, o.Err = e.S.S.SyncAdChain(ctx, info) })
	case 1:
		head := p.Chain[len(p.Chain)-1]
		e.start("post-entries", -1, i, func(o *Op) { o.Err = e.S.S.SyncEntries(ctx, info, head) })
	case 2:
		head := p.Chain[len(p.Chain)-1]
		e.start("post-announce", -1, i, func(o *Op) { o.Err = e.S.S.Announce(ctx, head, info) })
	case 3:
		e.register(i, false)
	case 4:
		e.start("post-latest", -1, i, func(o *Op) { _ = e.S.S.GetLatestSync(p.ID) })
	case 5:
		// removing a publisher's handler while its sync is running starts a fresh handler for the next
		// announcement: the one-sync-at-a-time invariant (C08) is not claimed across RemoveHandler
		e.handlerRemoved = true
		e.start("post-remove", -1, i, func(o *Op) { _ = e.S.S.RemoveHandler(p.ID) })
	case 6:
		e.start("post-close", -1, i, func(o *Op) { o.Err = e.S.S.Close(); e.closeReturned() })
	}
}

// Finish opens all gates, lets everything drain and reaches exact quiescence.
// It returns false if the bubble cannot become quiescent with all calls returned.
func (e *Exec) Finish(closeAtEnd bool) {
	// Close cancels announce-triggered syncs: when Close was called and no explicit sync is outstanding, a sync
	// parked at a (still closed) gate must go away on its own. Normal cost: microseconds; 10 s of real time is the
	// bound (only spent when the sync is in fact not cancelled).
	if e.CloseAt >= 0 && e.anyParked() {
		e.afterSettle()
		if e.explicitOut == 0 {
			e.W.SettleUntilCap(func() bool { return !e.anyParked() }, 50000)
			if e.anyParked() {
				e.fail("Close was called %d steps ago, no explicit sync is outstanding, yet an announce-triggered sync is still parked at its publisher's closed gate: it was not cancelled", len(e.Ops))
			}
		}
	}
	for _, p := range e.Pubs {
		p.Open()
	}
	// With every gate open each call must return. A call stuck behind a library mutex would make synctest.Wait
	// (and the end of the bubble) hang, because synctest does not count Mutex.Lock as durably blocked; so first
	// wait heuristically (up to 10 s of real time; normal cost: microseconds) and bail out of the process with a
	// marked panic that the driver confirms by replaying the case in fresh processes.
	allDone := func() bool {
		for _, o := range e.Ops {
			if !o.Done() {
				return false
			}
		}
		return true
	}
	e.W.SettleUntilCap(allDone, 50000)
	if !allDone() {
		msg := "VERIF-NORETURN:"
		for _, o := range e.Ops {
			if !o.Done() {
				msg += fmt.Sprintf(" %s call issued at step %d has not returned 10 s after every gate was opened;", o.Kind, o.Step)
			}
		}
		if e.Viol != "" {
			msg += " earlier: " + e.Viol
		}
		panic(msg)
	}
	synctest.Wait()
	e.contender = false
	e.afterSettle()
	e.sample()
	// let timers (idle handler, HTTP timeouts) that matter pass; nothing is in flight now
	time.Sleep(time.Second)
	synctest.Wait()
	for _, o := range e.Ops {
		if !o.Done() {
			e.fail("%s call issued at step %d has not returned although all gates are open and the bubble is quiescent", o.Kind, o.Step)
		}
	}
	if closeAtEnd && e.CloseAt < 0 {
		e.CloseAt = len(e.Ops) + 1000
		o := e.start("close", -1, e.CloseAt, func(o *Op) { o.Err = e.S.S.Close(); e.closeReturned() })
		synctest.Wait()
		if !o.Done() {
			e.fail("the final Close does not return")
		}
	}
	// release the listeners' readers: they must see their channels close
	for _, l := range e.Listeners {
		close(l.drain)
	}
	synctest.Wait()
}
