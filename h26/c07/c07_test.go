package c07

import (
	"context"
	"errors"
	"fmt"
	"sort"
	"strings"
	"sync"
	"sync/atomic"
	"testing"
	"testing/synctest"
	"time"

	"github.com/ipni/go-libipni/find/model"
	"github.com/ipni/go-libipni/pcache"
	"github.com/libp2p/go-libp2p/core/peer"
	"github.com/multiformats/go-multiaddr"
	"pgregory.net/rapid"

	"verif/h23/pbt"
)

var pids []peer.ID
var negIDs []peer.ID

func init() {
	for i := 0; i < 200; i++ {
		b := []byte{0x12, 0x20}
		for j := 0; j < 32; j++ {
			b = append(b, byte(i*11+j*17+3))
		}
		pids = append(pids, peer.ID(b))
	}
	negIDs = pids[190:193]
}

var base = time.Date(2021, 1, 1, 0, 0, 0, 0, time.UTC)

func mkInfo(p, ver int) *model.ProviderInfo {
	a, _ := multiaddr.NewMultiaddr(fmt.Sprintf("/ip4/8.9.%d.%d/tcp/%d", p%250, ver%250, 1000+ver))
	pi := &model.ProviderInfo{AddrInfo: peer.AddrInfo{ID: pids[p], Addrs: []multiaddr.Multiaddr{a}}, LastError: fmt.Sprintf("v%d", ver),
		LastAdvertisementTime: base.Add(time.Duration(ver) * time.Second).Format(time.RFC3339)}
	if p%2 == 0 {
		// every other provider lists extended providers, chain-level and for the context "ctx"; some of them carry no
		// addresses and name identities that are not providers of their own (never cached, unknown to every source)
		pi.ExtendedProviders = &model.ExtendedProviders{
			Providers: []peer.AddrInfo{{ID: pids[p], Addrs: []multiaddr.Multiaddr{a}}, {ID: pids[180-p%20]}, {ID: pids[160-p%20], Addrs: []multiaddr.Multiaddr{a}}},
			Metadatas: [][]byte{nil, []byte("x1"), []byte("x2")},
			Contextual: []model.ContextualExtendedProviders{{ContextID: "ctx", Providers: []peer.AddrInfo{{ID: pids[140-p%20]}}, Metadatas: [][]byte{[]byte("c1")}}},
		}
	}
	return pi
}

// verOf extracts the version of a record and checks that tag, time and address agree (no torn mixtures).
func verOf(pi *model.ProviderInfo) (int, string) {
	var ver int
	if _, err := fmt.Sscanf(pi.LastError, "v%d", &ver); err != nil {
		return 0, fmt.Sprintf("record tag %q", pi.LastError)
	}
	if pi.LastAdvertisementTime != base.Add(time.Duration(ver)*time.Second).Format(time.RFC3339) || len(pi.AddrInfo.Addrs) != 1 ||
		!strings.HasSuffix(pi.AddrInfo.Addrs[0].String(), fmt.Sprintf("/tcp/%d", 1000+ver)) {
		return 0, fmt.Sprintf("torn record: tag v%d time %s addrs %v", ver, pi.LastAdvertisementTime, pi.AddrInfo.Addrs)
	}
	return ver, ""
}

// gated source: FetchAll / Fetch can be made to park on the harness.
type source struct {
	mu       sync.Mutex
	content  map[int]int // provider -> version
	gate     chan struct{}
	parked   atomic.Int32
	fetchAll atomic.Int32
	fetch    atomic.Int32
}

func (s *source) String() string { return "gated" }

func (s *source) wait() {
	s.mu.Lock()
	g := s.gate
	s.mu.Unlock()
	if g != nil {
		s.parked.Add(1)
		<-g
		s.parked.Add(-1)
	}
}

func (s *source) FetchAll(ctx context.Context) ([]*model.ProviderInfo, error) {
	s.fetchAll.Add(1)
	s.wait()
	s.mu.Lock()
	defer s.mu.Unlock()
	keys := make([]int, 0, len(s.content))
	for p := range s.content {
		keys = append(keys, p)
	}
	sort.Ints(keys)
	var out []*model.ProviderInfo
	for _, p := range keys {
		out = append(out, mkInfo(p, s.content[p]))
	}
	return out, nil
}

func (s *source) Fetch(ctx context.Context, pid peer.ID) (*model.ProviderInfo, error) {
	s.fetch.Add(1)
	s.wait()
	s.mu.Lock()
	defer s.mu.Unlock()
	for p, v := range s.content {
		if pids[p] == pid {
			return mkInfo(p, v), nil
		}
	}
	return nil, nil
}

func (s *source) hold() { s.mu.Lock(); s.gate = make(chan struct{}); s.mu.Unlock() }
func (s *source) release() {
	s.mu.Lock()
	if s.gate != nil {
		close(s.gate)
		s.gate = nil
	}
	s.mu.Unlock()
}

type rop struct {
	Op  string // get | list | results | getneg (an ID remembered as absent)
	Pid int
}

type round struct {
	Writer     string // refresh | missfetch | auto
	Bump       []int  // stable providers whose version advances in this round (empty = all)
	AddNew     int    // new providers added to the source in this round
	MissDuring bool   // a Get of an uncached ID is issued while the writer is parked
	During     [][]rop
	After      [][]rop
}

type Case struct {
	NS     int
	Rounds []round
}

func genOps(t *rapid.T, ns, readers int) [][]rop {
	out := make([][]rop, readers)
	for r := range out {
		n := rapid.IntRange(1, 5).Draw(t, "nops")
		for i := 0; i < n; i++ {
			out[r] = append(out[r], rop{Op: rapid.SampledFrom([]string{"get", "get", "list", "results", "getneg"}).Draw(t, "rop"), Pid: rapid.IntRange(0, ns-1).Draw(t, "rpid")})
		}
	}
	return out
}

func genCase(t *rapid.T) Case {
	c := Case{NS: rapid.IntRange(2, 12).Draw(t, "ns")}
	readers := rapid.IntRange(1, 8).Draw(t, "readers")
	nr := rapid.IntRange(1, 5).Draw(t, "rounds")
	for i := 0; i < nr; i++ {
		r := round{Writer: rapid.SampledFrom([]string{"refresh", "refresh", "missfetch", "auto"}).Draw(t, "writer")}
		if rapid.IntRange(0, 2).Draw(t, "bumpall") > 0 {
			for p := 0; p < c.NS; p++ {
				if rapid.Bool().Draw(t, "bump") {
					r.Bump = append(r.Bump, p)
				}
			}
		}
		r.AddNew = rapid.IntRange(0, 2).Draw(t, "addnew")
		r.MissDuring = rapid.Bool().Draw(t, "missduring")
		r.During = genOps(t, c.NS, readers)
		r.After = genOps(t, c.NS, readers)
		c.Rounds = append(c.Rounds, r)
	}
	return c
}

const refreshIn = 30 * time.Second

func runCase(t *testing.T) func(Case) pbt.Result {
	return func(c Case) (res pbt.Result) {
		defer func() {
			if p := recover(); p != nil {
				res.Fail = fmt.Sprintf("panic: %v", p)
			}
		}()
		overlap := 0
		synctest.Test(t, func(t *testing.T) {
			src := &source{content: map[int]int{}}
			ver := 1
			for p := 0; p < c.NS; p++ {
				src.content[p] = ver
			}
			pc, err := pcache.New(pcache.WithSource(src), pcache.WithPreload(true), pcache.WithRefreshInterval(refreshIn), pcache.WithTTL(time.Hour))
			if err != nil {
				res.Fail = err.Error()
				return
			}
			nReaders := len(c.Rounds[0].During)
			last := make([]map[int]int, nReaders) // per reader: provider -> last version seen
			for i := range last {
				last[i] = map[int]int{}
			}
			var fmu sync.Mutex
			fail := func(msg string) {
				fmu.Lock()
				if res.Fail == "" {
					res.Fail = msg
				}
				fmu.Unlock()
			}
			nextNew := c.NS
			uncached := 150
			ctx := context.Background()
			// one reader operation with its oracles
			read := func(r int, op rop, phase string) {
				see := func(p int, pi *model.ProviderInfo) {
					v, msg := verOf(pi)
					if msg != "" {
						fail(fmt.Sprintf("reader %d %s %s: %s", r, phase, op.Op, msg))
						return
					}
					if v < last[r][p] {
						fail(fmt.Sprintf("reader %d %s %s: provider %d went back from version %d to %d", r, phase, op.Op, p, last[r][p], v))
					}
					last[r][p] = v
				}
				switch op.Op {
				case "getneg":
					pi, err := pc.Get(ctx, negIDs[op.Pid%len(negIDs)])
					if err != nil || pi != nil {
						fail(fmt.Sprintf("reader %d %s: Get(ID remembered as absent) = %v, %v", r, phase, pi, err))
					}
				case "get":
					pi, err := pc.Get(ctx, pids[op.Pid])
					if err != nil || pi == nil {
						fail(fmt.Sprintf("reader %d %s: Get(cached provider %d) = %v, %v", r, phase, op.Pid, pi, err))
						return
					}
					see(op.Pid, pi)
				case "results":
					prs, err := pc.GetResults(ctx, pids[op.Pid], []byte("ctx"), []byte("md"))
					if err != nil || len(prs) == 0 || prs[0].Provider == nil || prs[0].Provider.ID != pids[op.Pid] {
						fail(fmt.Sprintf("reader %d %s: GetResults(cached provider %d) = %v, %v", r, phase, op.Pid, prs, err))
						return
					}
					if want := map[bool]int{true: 4, false: 1}[op.Pid%2 == 0]; len(prs) != want {
						// main provider + one context-level + two chain-level extended providers (its own entry without new metadata is skipped)
						fail(fmt.Sprintf("reader %d %s: GetResults(cached provider %d) returned %d results, expected %d", r, phase, op.Pid, len(prs), want))
						return
					}
				case "list":
					seen := map[peer.ID]bool{}
					for _, pi := range pc.List() {
						if pi == nil {
							fail("List contains nil")
							return
						}
						seen[pi.AddrInfo.ID] = true
						for p := 0; p < c.NS; p++ {
							if pids[p] == pi.AddrInfo.ID {
								see(p, pi)
							}
						}
					}
					for p := 0; p < c.NS; p++ {
						if !seen[pids[p]] {
							fail(fmt.Sprintf("reader %d %s: provider %d, present before and after every update, is missing from List", r, phase, p))
						}
					}
				}
			}
			runReaders := func(ops [][]rop, phase string) bool {
				var done atomic.Int32
				for r := range ops {
					go func(r int) {
						for _, op := range ops[r] {
							read(r, op, phase)
						}
						done.Add(1)
					}(r)
				}
				synctest.Wait()
				if int(done.Load()) != len(ops) {
					fail(fmt.Sprintf("%s: %d of %d readers of cached providers are blocked while a writer is in progress", phase, len(ops)-int(done.Load()), len(ops)))
					return false
				}
				return true
			}
			for ri, rd := range c.Rounds {
				if res.Fail != "" {
					break
				}
				// (re-)establish the negative entries: the sources are asked and do not know these IDs
				for _, id := range negIDs {
					if pi, err := pc.Get(ctx, id); err != nil || pi != nil {
						fail(fmt.Sprintf("Get(unknown ID) = %v, %v", pi, err))
					}
				}
				synctest.Wait()
				// update the source
				ver++
				src.mu.Lock()
				if len(rd.Bump) == 0 {
					for p := 0; p < c.NS; p++ {
						src.content[p] = ver
					}
				} else {
					for _, p := range rd.Bump {
						src.content[p] = ver
					}
				}
				for k := 0; k < rd.AddNew; k++ {
					src.content[nextNew] = ver
					nextNew++
				}
				src.mu.Unlock()
				fa0 := src.fetchAll.Load()
				// start the writer and park it inside the source
				src.hold()
				writerDone := make(chan error, 1)
				switch rd.Writer {
				case "refresh":
					go func() { writerDone <- pc.Refresh(ctx) }()
				case "missfetch":
					id := pids[uncached]
					uncached++
					go func() { _, err := pc.Get(ctx, id); writerDone <- err }()
				case "auto":
					time.Sleep(refreshIn + time.Second) // the timer flags that a refresh is due
					// N concurrent lookups of cached providers trigger exactly one refresh
					var wg sync.WaitGroup
					for k := 0; k < 4; k++ {
						wg.Add(1)
						go func(k int) {
							defer wg.Done()
							if pi, err := pc.Get(ctx, pids[k%c.NS]); err != nil || pi == nil {
								fail(fmt.Sprintf("Get of a cached provider that triggers the automatic refresh returned %v, %v", pi, err))
							}
						}(k)
					}
					wg.Wait()
					go func() { writerDone <- nil }()
				}
				synctest.Wait()
				if src.parked.Load() == 0 {
					fail(fmt.Sprintf("round %d: writer %s did not reach the source", ri, rd.Writer))
					src.release()
					break
				}
				var missDone chan error
				if rd.MissDuring {
					id := pids[uncached]
					uncached++
					missDone = make(chan error, 1)
					go func() { _, err := pc.Get(ctx, id); missDone <- err }() // allowed to wait for the writer
				}
				overlap += len(rd.During)
				if !runReaders(rd.During, fmt.Sprintf("round %d, writer %s parked", ri, rd.Writer)) {
					src.release()
					synctest.Wait()
					break
				}
				src.release()
				synctest.Wait()
				select {
				case err := <-writerDone:
					if err != nil {
						fail("writer returned " + err.Error())
					}
				default:
					fail(fmt.Sprintf("round %d: writer %s did not finish after the source answered", ri, rd.Writer))
				}
				if missDone != nil {
					select {
					case err := <-missDone:
						if err != nil {
							fail("Get of an uncached provider returned " + err.Error())
						}
					default:
						fail("Get of an uncached provider never returned")
					}
				}
				if rd.Writer == "auto" {
					if n := src.fetchAll.Load() - fa0; n != 1 {
						fail(fmt.Sprintf("round %d: the elapsed refresh interval caused %d FetchAll rounds for 4 concurrent lookups, want exactly 1", ri, n))
					}
				}
				if !runReaders(rd.After, fmt.Sprintf("round %d, after the update", ri)) {
					break
				}
				// after a completed refresh every reader sees the bumped versions
				if rd.Writer != "missfetch" {
					for p := 0; p < c.NS; p++ {
						pi, _ := pc.Get(ctx, pids[p])
						src.mu.Lock()
						want := src.content[p]
						src.mu.Unlock()
						if pi == nil {
							fail(fmt.Sprintf("provider %d missing after the refresh", p))
						} else if v, _ := verOf(pi); v != want {
							fail(fmt.Sprintf("round %d: after the completed refresh provider %d has version %d, source has %d", ri, p, v, want))
						}
					}
				}
			}
			synctest.Wait()
		})
		kinds := map[string]bool{}
		for _, rd := range c.Rounds {
			kinds["writer="+rd.Writer] = true
			if rd.MissDuring {
				kinds["miss-during-writer"] = true
			}
		}
		for k := range kinds {
			res.Classes = append(res.Classes, k)
		}
		sort.Strings(res.Classes)
		res.NonTrivial = overlap > 0
		return res
	}
}

func TestC07_Bubble(t *testing.T) {
	pbt.Run(t, pbt.Config{Prop: "C07", Unit: "TestC07_Bubble", TrackCurrent: true,
		Rule: "cache preloaded with 2..12 stable providers; 1..5 rounds: the source advances versions of a drawn subset (or all: main-map rebuild) and adds 0..2 new providers, a writer (explicit Refresh, miss-fetch of an uncached ID, or the automatic refresh triggered by lookups after the refresh interval elapsed on the virtual clock) is parked inside the source call, optionally a Get of another uncached ID is queued behind it, then 1..8 readers run drawn sequences of Get / List / GetResults on the stable providers (every other provider lists chain-level and context-level extended providers, some without addresses and naming identities that are cached nowhere) and Get of IDs remembered as absent (negative entries, re-established before each round) while the writer is parked and again after it is released; oracle: at exact quiescence (synctest.Wait, no timeout) no reader of a cached provider is blocked; per reader and provider the observed version never decreases; stable providers are never nil / missing from List; records are never torn; the writer and the queued miss finish once the source answers; after a completed refresh the source's versions are visible; 4 concurrent lookups after the interval cause exactly one FetchAll round. Non-trivial: reader calls overlapped a parked writer; distinct by case.",
		Assumptions: []string{"a Get of an ID that is not cached is allowed to wait for the writer"},
	}, genCase, runCase(t))
}

var _ = errors.New
