package c07

import (
	"context"
	"fmt"
	"runtime"
	"sync"
	"sync/atomic"
	"testing"
	"time"

	"github.com/ipni/go-libipni/find/model"
	"github.com/ipni/go-libipni/pcache"
	"github.com/libp2p/go-libp2p/core/peer"
	"pgregory.net/rapid"

	"verif/h23/pbt"
)

// Real-time stress under the race detector: readers and writers with drawn operation sequences.

type raceCase struct {
	NS      int
	Readers [][]rop
	Writers []string // refresh | missfetch | timer
	Rounds  int
	Yield   []int // per writer round: number of Gosched calls between steps
}

func genRace(t *rapid.T) raceCase {
	c := raceCase{NS: rapid.IntRange(2, 24).Draw(t, "ns"), Rounds: rapid.IntRange(3, 12).Draw(t, "rounds")}
	nr := rapid.IntRange(2, 16).Draw(t, "readers")
	for r := 0; r < nr; r++ {
		n := rapid.IntRange(5, 40).Draw(t, "nops")
		var ops []rop
		for i := 0; i < n; i++ {
			ops = append(ops, rop{Op: rapid.SampledFrom([]string{"get", "get", "list", "results"}).Draw(t, "rop"), Pid: rapid.IntRange(0, c.NS-1).Draw(t, "rpid")})
		}
		c.Readers = append(c.Readers, ops)
	}
	nw := rapid.IntRange(1, 3).Draw(t, "writers")
	for w := 0; w < nw; w++ {
		c.Writers = append(c.Writers, rapid.SampledFrom([]string{"refresh", "refresh", "missfetch", "timer"}).Draw(t, "writer"))
	}
	for i := 0; i < c.Rounds; i++ {
		c.Yield = append(c.Yield, rapid.IntRange(0, 20).Draw(t, "yield"))
	}
	return c
}

type liveSource struct {
	mu      sync.Mutex
	content map[int]int
}

func (s *liveSource) String() string { return "live" }
func (s *liveSource) FetchAll(context.Context) ([]*model.ProviderInfo, error) {
	s.mu.Lock()
	defer s.mu.Unlock()
	var out []*model.ProviderInfo
	for p, v := range s.content {
		out = append(out, mkInfo(p, v))
	}
	return out, nil
}
func (s *liveSource) Fetch(_ context.Context, pid peer.ID) (*model.ProviderInfo, error) {
	s.mu.Lock()
	defer s.mu.Unlock()
	for p, v := range s.content {
		if pids[p] == pid {
			return mkInfo(p, v), nil
		}
	}
	return nil, nil
}

func runRace(c raceCase) (res pbt.Result) {
	src := &liveSource{content: map[int]int{}}
	for p := 0; p < c.NS; p++ {
		src.content[p] = 1
	}
	opts := []pcache.Option{pcache.WithSource(src), pcache.WithPreload(true), pcache.WithTTL(time.Hour), pcache.WithRefreshInterval(0)}
	for _, w := range c.Writers {
		if w == "timer" {
			opts[3] = pcache.WithRefreshInterval(200 * time.Microsecond)
		}
	}
	pc, err := pcache.New(opts...)
	if err != nil {
		return pbt.Failf("pcache.New: %v", err)
	}
	ctx := context.Background()
	var fmu sync.Mutex
	fail := func(msg string) {
		fmu.Lock()
		if res.Fail == "" {
			res.Fail = msg
		}
		fmu.Unlock()
	}
	var stop atomic.Bool
	var wg sync.WaitGroup
	var overlaps atomic.Int64
	var writing atomic.Int32
	for r, ops := range c.Readers {
		wg.Add(1)
		go func(r int, ops []rop) {
			defer wg.Done()
			last := map[int]int{}
			see := func(p int, pi *model.ProviderInfo, what string) {
				v, msg := verOf(pi)
				if msg != "" {
					fail(fmt.Sprintf("reader %d %s: %s", r, what, msg))
					return
				}
				if v < last[p] {
					fail(fmt.Sprintf("reader %d %s: provider %d went back from version %d to %d", r, what, p, last[p], v))
				}
				last[p] = v
			}
			for !stop.Load() {
				for _, op := range ops {
					if writing.Load() > 0 {
						overlaps.Add(1)
					}
					switch op.Op {
					case "get":
						pi, err := pc.Get(ctx, pids[op.Pid])
						if err != nil || pi == nil {
							fail(fmt.Sprintf("reader %d: Get(cached provider %d) = %v, %v", r, op.Pid, pi, err))
							return
						}
						see(op.Pid, pi, "Get")
					case "results":
						prs, err := pc.GetResults(ctx, pids[op.Pid], []byte("c"), []byte("m"))
						if err != nil || len(prs) == 0 {
							fail(fmt.Sprintf("reader %d: GetResults(cached provider %d) = %v, %v", r, op.Pid, prs, err))
							return
						}
					case "list":
						seen := 0
						for _, pi := range pc.List() {
							if pi == nil {
								fail("List contains nil")
								return
							}
							for p := 0; p < c.NS; p++ {
								if pids[p] == pi.AddrInfo.ID {
									seen++
									see(p, pi, "List")
								}
							}
						}
						if seen != c.NS {
							fail(fmt.Sprintf("reader %d: List holds %d of the %d providers that are present before and after every update", r, seen, c.NS))
							return
						}
					}
				}
				runtime.Gosched()
			}
		}(r, ops)
	}
	var wwg sync.WaitGroup
	for wi, w := range c.Writers {
		wwg.Add(1)
		go func(wi int, w string) {
			defer wwg.Done()
			unknown := 100 + wi*30
			for round := 0; round < c.Rounds; round++ {
				for y := 0; y < c.Yield[round]; y++ {
					runtime.Gosched()
				}
				src.mu.Lock()
				for p := 0; p < c.NS; p++ {
					if (p+round+wi)%2 == 0 || round%3 == 0 {
						src.content[p]++
					}
				}
				src.mu.Unlock()
				writing.Add(1)
				switch w {
				case "refresh":
					if err := pc.Refresh(ctx); err != nil {
						fail("Refresh: " + err.Error())
					}
				case "missfetch":
					if _, err := pc.Get(ctx, pids[unknown+round%30]); err != nil {
						fail("miss-fetch: " + err.Error())
					}
				case "timer":
					time.Sleep(300 * time.Microsecond)
					_, _ = pc.Get(ctx, pids[0])
				}
				writing.Add(-1)
			}
		}(wi, w)
	}
	wwg.Wait()
	stop.Store(true)
	wg.Wait()
	time.Sleep(2 * time.Millisecond) // let a timer-triggered refresh goroutine finish
	res.NonTrivial = overlaps.Load() > 0
	res.Classes = append(res.Classes, fmt.Sprintf("writers=%d", len(c.Writers)), fmt.Sprintf("readers>=8:%v", len(c.Readers) >= 8))
	return res
}

func TestC07_Race(t *testing.T) {
	pbt.Run(t, pbt.Config{Prop: "C07", Unit: "TestC07_Race", TrackCurrent: true,
		Rule: "real-time stress, meant to run under the race detector: 2..16 reader goroutines looping over drawn sequences of Get / List / GetResults on 2..24 stable providers while 1..3 writer goroutines run 3..12 rounds of (advance versions at the source; Refresh | miss-fetch of a rotating unknown ID | timer-triggered refresh with a 200 us interval), with drawn Gosched bursts; every refresh updates about half or all providers, so the main map is rebuilt repeatedly; oracle: per reader and provider versions never decrease, stable providers never nil / missing from List, records never torn, and the race detector reports nothing (exit 66 = violation, the race report is the replay). Non-trivial: a reader operation began while a writer call was in progress (sampled flag); distinct by case.",
		Assumptions: []string{"schedules are sampled by the Go scheduler, not enumerated", "races are detected only on executions that happen"},
	}, genRace, runRace)
}
