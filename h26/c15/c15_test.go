package c15

import (
	"fmt"
	"sort"
	"strings"
	"testing"
	"testing/synctest"

	"github.com/ipni/go-libipni/dagsync"
	"pgregory.net/rapid"

	"verif/h23/pbt"
	"verif/h26/world"
)

type Case struct {
	Script    world.Script
	Discovery bool
	Seg       int64 // subscriber-wide segment depth limit (-1: no segmentation)
}

func genCase(t *rapid.T) Case {
	k := rapid.IntRange(1, 3).Draw(t, "k")
	sc := world.Script{K: k, MaxAsync: rapid.SampledFrom([]int{0, 0, 1}).Draw(t, "maxasync")}
	n := rapid.IntRange(2, 24).Draw(t, "nsteps")
	ops := []string{"publish", "announce", "announce", "sync", "sync", "hold", "hold", "open", "register", "cancel", "read", "regcancel", "tick", "badannounce", "entries"}
	for i := 0; i < n; i++ {
		st := world.Step{Op: rapid.SampledFrom(ops).Draw(t, "op"), P: rapid.IntRange(0, k-1).Draw(t, "p"), N: rapid.IntRange(1, 3).Draw(t, "n"), L: rapid.IntRange(0, 4).Draw(t, "l")}
		sc.Steps = append(sc.Steps, st)
		if st.Op == "publish" && rapid.Bool().Draw(t, "thenannounce") {
			sc.Steps = append(sc.Steps, world.Step{Op: "announce", P: st.P})
		}
	}
	if rapid.IntRange(0, 5).Draw(t, "longsync") == 0 {
		// a sync that outlives the idle-handler TTL, then more traffic: publish, hold, announce (parks), tick, announce
		p := rapid.IntRange(0, k-1).Draw(t, "lsp")
		q := rapid.IntRange(0, k-1).Draw(t, "lsq")
		motif := []world.Step{{Op: "publish", P: p, N: 1}, {Op: "hold", P: p}, {Op: "announce", P: p}, {Op: "tick"}, {Op: "publish", P: q, N: 1}, {Op: "announce", P: q}}
		if rapid.Bool().Draw(t, "lsentries") {
			// the long-running sync is an explicit entries sync; afterwards the publisher is announced
			motif = []world.Step{{Op: "hold", P: p}, {Op: "entries", P: p, N: 2}, {Op: "tick"}, {Op: "open", P: p}, {Op: "publish", P: p, N: 1}, {Op: "announce", P: p}}
		}
		at := rapid.IntRange(0, len(sc.Steps)).Draw(t, "lsat")
		sc.Steps = append(sc.Steps[:at:at], append(motif, sc.Steps[at:]...)...)
	}
	// Close, 1..3 times, at a drawn point; then calls after (or racing with) it
	at := rapid.IntRange(0, len(sc.Steps)).Draw(t, "closeat")
	nclose := rapid.IntRange(1, 3).Draw(t, "nclose")
	var tail []world.Step
	for i := 0; i < nclose; i++ {
		tail = append(tail, world.Step{Op: "close"})
	}
	rest := append([]world.Step(nil), sc.Steps[at:]...)
	sc.Steps = append(sc.Steps[:at:at], tail...)
	// remaining steps still run (announcements, cancels, opens ... relative to Close), mixed with post-close calls
	for _, st := range rest {
		sc.Steps = append(sc.Steps, st)
		if rapid.Bool().Draw(t, "post") {
			sc.Steps = append(sc.Steps, world.Step{Op: "post", P: rapid.IntRange(0, k-1).Draw(t, "pp"), N: rapid.IntRange(0, 6).Draw(t, "postkind")})
		}
	}
	np := rapid.IntRange(0, 4).Draw(t, "npost")
	for i := 0; i < np; i++ {
		sc.Steps = append(sc.Steps, world.Step{Op: "post", P: rapid.IntRange(0, k-1).Draw(t, "pp2"), N: rapid.IntRange(0, 6).Draw(t, "postkind2")})
	}
	return Case{Seg: rapid.SampledFrom([]int64{-1, -1, 1, 2}).Draw(t, "seg"), Script: sc, Discovery: rapid.Bool().Draw(t, "discovery")}
}

func runCase(t *testing.T) func(Case) pbt.Result {
	return func(c Case) (res pbt.Result) {
		var viol string
		var lastExec *world.Exec
		kinds := map[string]int{}
		defer func() {
			if p := recover(); p != nil {
				if viol == "" {
					viol = fmt.Sprintf("panic: %v (a 'deadlock: ... blocked goroutines remain' panic means goroutines were left behind in the bubble after shutdown)", p)
				}
				res.Fail = viol + "\nscript: " + render(c)
			}
		}()
		synctest.Test(t, func(t *testing.T) {
			w := world.New()
			defer w.Close()
			e, err := world.NewExec(w, c.Script, c.Discovery, dagsync.SegmentDepthLimit(segOf(c)))
			lastExec = e
			if err != nil {
				viol = "NewSubscriber: " + err.Error()
				return
			}
			heldExplicit := map[*world.Op]bool{}
			for i, st := range c.Script.Steps {
				if st.Op == "close" {
					if e.CloseAt >= 0 && !e.CloseRet {
						kinds["concurrent-closers"]++
					}
					for _, o := range e.Ops {
						if !o.Done() && (o.Kind == "sync") && e.Pubs[o.P].IsHeld() && e.Pubs[o.P].Parked() > 0 && syncsOutstanding(e, o.P) == 1 {
							// certainly running: it is the only outstanding sync of its publisher and its block
							// request is parked at the closed gate (a call that has not started yet when Close
							// is called is legitimately refused)
							heldExplicit[o] = true
							kinds["close-while-explicit-sync-held"]++
						}
					}
					for _, p := range e.Pubs {
						if p.InFlight() > 0 {
							kinds["close-while-sync-held"]++
						}
					}
				}
				if st.Op == "post" {
					if e.CloseAt < 0 {
						continue
					}
					kinds[fmt.Sprintf("post-%d", st.N%7)]++
					if e.CloseRet {
						kinds["post-after-close-returned"]++
					}
				}
				e.Run(i, st, false)
				if e.Viol != "" {
					break
				}
			}
			e.Finish(false)
			viol = e.Viol
			if viol != "" {
				return
			}
			// (1) explicit syncs that were running when Close was called finished, successfully
			for o := range heldExplicit {
				if !o.Done() {
					viol = fmt.Sprintf("explicit sync issued at step %d never returned", o.Step)
					return
				}
				if o.Err != nil {
					viol = fmt.Sprintf("explicit sync issued at step %d was running when Close was called and failed: %v (Close lets running explicit syncs finish)", o.Step, o.Err)
					return
				}
			}
			// (1b) a sync that reported success finished its work: everything from its head down to the start of the
			// chain is stored (an explicit sync that Close lets finish may not stop early and call it a success)
			for _, o := range e.Ops {
				if o.Kind != "sync" || !o.Done() || o.Err != nil || !o.Cid.Defined() {
					continue
				}
				if e.HandlerRemoved() {
					// RemoveHandler during a running sync lets a second sync of the same publisher start next
					// to it (new handler, new locks); the two share the publisher's hook slot and the one that
					// finishes first takes the other's hook away. Not claimed (as for the one-sync invariant).
					break
				}
				p := e.Pubs[o.P]
				at := -1
				for i, ci := range p.Chain {
					if ci == o.Cid {
						at = i
					}
				}
				for i := 0; i <= at; i++ {
					if !e.S.Has(p.Chain[i]) {
						viol = fmt.Sprintf("explicit sync of publisher %d issued at step %d returned the head at position %d without error, but the advertisement at position %d is not stored: the sync stopped early and reported success", o.P, o.Step, at, i)
						return
					}
				}
			}
			// (4) every call made after Close returned came back with an error or an empty result
			for _, o := range e.Ops {
				switch o.Kind {
				case "close", "post-close":
					if o.Err != nil {
						viol = fmt.Sprintf("Close (step %d) returned %v", o.Step, o.Err)
						return
					}
				case "post-sync", "post-entries":
					if o.AfterClose && o.Err == nil {
						viol = fmt.Sprintf("%s issued at step %d after Close had returned reported success", o.Kind, o.Step)
						return
					}
				}
			}
			// (3) all listener channels are closed after what was queued
			for _, l := range e.Listeners {
				if !l.Registered {
					continue
				}
				if _, closed := l.Snapshot(); !closed {
					viol = fmt.Sprintf("listener %d: channel not closed after Close", l.Idx)
					return
				}
			}
			// the reference listener's channel must close too (else the bubble cannot drain)
			if err := e.S.Shutdown(); err != nil {
				viol = "Close: " + err.Error()
				return
			}
		})
		if viol != "" && res.Fail == "" {
			res.Fail = viol + "\nscript: " + render(c)
		}
		if e := lastExec; e != nil {
			if e.Ticks > 0 {
				kinds["idle-ttl-passed"]++
			}
			if e.TicksDuringSync > 0 {
				kinds["idle-ttl-passed-during-sync"]++
			}
		}
		var ks []string
		for k := range kinds {
			ks = append(ks, k)
		}
		sort.Strings(ks)
		res.Classes = ks
		res.NonTrivial = kinds["close-while-sync-held"] > 0 || kinds["close-while-explicit-sync-held"] > 0 || kinds["concurrent-closers"] > 0 || kinds["post-after-close-returned"] > 0
		return res
	}
}

// syncsOutstanding counts the explicit syncs of a publisher that have not returned, plus 1 if it has unhandled announcements.
func syncsOutstanding(e *world.Exec, p int) int {
	n := 0
	for _, o := range e.Ops {
		if o.Kind == "sync" && o.P == p && !o.Done() {
			n++
		}
	}
	if e.Dirty(p) {
		n++
	}
	return n
}

// closeReturnedStep: the first step index at which Close was known to have returned (conservative: the Close step itself).
func closeReturnedStep(e *world.Exec) int {
	best := 1 << 30
	for _, o := range e.Ops {
		if o.Kind == "close" && o.Done() && o.Step < best {
			best = o.Step
		}
	}
	// the call had returned at the latest when the last close op was done; use the last close step to stay conservative
	last := -1
	for _, o := range e.Ops {
		if o.Kind == "close" && o.Step > last && o.Step < 100000 {
			last = o.Step
		}
	}
	if last > best {
		return last
	}
	return best
}

func render(c Case) string {
	var sb strings.Builder
	fmt.Fprintf(&sb, "k=%d maxAsync=%d discovery=%v:", c.Script.K, c.Script.MaxAsync, c.Discovery)
	for _, s := range c.Script.Steps {
		switch s.Op {
		case "publish":
			fmt.Fprintf(&sb, " publish(p%d,+%d)", s.P, s.N)
		case "register", "regcancel", "close":
			fmt.Fprintf(&sb, " %s", s.Op)
		case "cancel":
			fmt.Fprintf(&sb, " cancel(l%d)", s.L)
		case "read":
			fmt.Fprintf(&sb, " read(l%d,%d)", s.L, s.N)
		case "post":
			fmt.Fprintf(&sb, " post(%s,p%d)", []string{"SyncAdChain", "SyncEntries", "Announce", "OnSyncFinished", "GetLatestSync", "RemoveHandler", "Close"}[s.N%7], s.P)
		default:
			fmt.Fprintf(&sb, " %s(p%d)", s.Op, s.P)
		}
	}
	return sb.String()
}

func TestC15_Scripts(t *testing.T) {
	pbt.Run(t, pbt.Config{Prop: "C15", Unit: "TestC15_Scripts", TrackCurrent: true,
		Rule: "scripts over 1..3 publishers, one real subscriber and 0..5 listeners: publish, announce, announce with unusable sender addresses, explicit sync, explicit entries sync, let the virtual clock pass the idle-handler TTL (also while a sync is parked), hold / open a gate (so that explicit and announce-triggered syncs are parked at any request), register / cancel / read listeners; Close is called 1..3 times (concurrently when the first has not returned) at a drawn point; the remaining steps and drawn post-close calls (SyncAdChain, SyncEntries, Announce, OnSyncFinished, GetLatestSync, RemoveHandler, Close) follow; then all gates open and exact quiescence is reached; oracle: every call returned (none durably blocked at quiescence); explicit syncs that were running when Close was called finished successfully, and every explicit sync that reported success stored its whole chain (also when segmented); from the moment the first Close returned no hook call, store write or notification happened (world counters frozen, sampled after every step); every listener channel is closed; Close returns nil every time; sync calls issued after Close returned fail; no panic; the bubble drains to zero goroutines. Non-trivial: Close overlapped a held sync, >= 2 concurrent closers, or a call after Close returned; distinct by case.",
		Assumptions: []string{"requests of a cancelled sync may still reach the server after Close (net/http write loop); request arrivals are not part of the post-close silence oracle"},
	}, genCase, runCase(t))
}

// segOf returns the case's segment depth limit (replay files written before the field existed decode to 0 = unset).
func segOf(c Case) int64 {
	if c.Seg == 0 {
		return -1
	}
	return c.Seg
}
