package c15

import (
	"context"
	"fmt"
	"testing"
	"testing/synctest"
	"time"

	"github.com/ipni/go-libipni/dagsync"
	"pgregory.net/rapid"

	"verif/h23/pbt"
	"verif/h26/world"
)

// A sync whose caller gives up while it is still queued behind a running sync of the same publisher. Whatever
// return path the abandoned call takes, the publisher must remain usable and Close must still return.

type cancelQueuedCase struct {
	N      int
	Queued string // sync | entries: the call that is queued and then abandoned
	When   string // parked | opened: the caller gives up while the first sync is still parked, or right after the gate opened
	Then   string // sync | announce | entries | none: what follows for the same publisher
	Seg    int64
}

func TestC15_CancelledQueued(t *testing.T) {
	pbt.Run(t, pbt.Config{Prop: "C15", Unit: "TestC15_CancelledQueued", TrackCurrent: true,
		Rule: "one publisher; an explicit sync of 1..3 ads is parked at its first block request; a second call for the same publisher (SyncAdChain or SyncEntries) queues behind it and its caller's context is cancelled (while the first is still parked, or just after the gate opened); then a further sync of the publisher (explicit, announcement, entries, or none) and Close; oracle: every call returns (the abandoned one with its context's error or a result), the further sync succeeds and reaches the head, Close returns nil, nothing is left in the bubble. Non-trivial: always; distinct by case.",
	}, func(t *rapid.T) cancelQueuedCase {
		return cancelQueuedCase{N: rapid.IntRange(1, 3).Draw(t, "n"), Queued: rapid.SampledFrom([]string{"sync", "entries"}).Draw(t, "queued"), When: rapid.SampledFrom([]string{"parked", "opened"}).Draw(t, "when"),
			Then: rapid.SampledFrom([]string{"sync", "announce", "entries", "none"}).Draw(t, "then"), Seg: rapid.SampledFrom([]int64{-1, 1, 2}).Draw(t, "seg")}
	}, func(c cancelQueuedCase) (res pbt.Result) {
		res.NonTrivial = true
		res.Classes = []string{"queued=" + c.Queued, "when=" + c.When, "then=" + c.Then}
		var viol string
		defer func() {
			if p := recover(); p != nil {
				if viol == "" {
					viol = fmt.Sprintf("panic: %v", p)
				}
				res.Fail = fmt.Sprintf("%s\ncase: %+v", viol, c)
			}
		}()
		synctest.Test(t, func(t *testing.T) {
			w := world.New()
			defer w.Close()
			p := w.AddPublisher(0, false, "")
			p.ExtendAds(c.N)
			ents := p.BuildEntries(2, 7)
			s, err := world.NewSub(w, true, dagsync.SegmentDepthLimit(c.Seg), dagsync.HttpTimeout(24*time.Hour))
			if err != nil {
				viol = err.Error()
				return
			}
			ctx := context.Background()
			p.Hold()
			aDone, bDone, cDone := make(chan error, 1), make(chan error, 1), make(chan error, 1)
			go func() { _, err := s.S.SyncAdChain(ctx, p.Info()); aDone <- err }()
			synctest.Wait()
			if p.Parked() != 1 {
				viol = "the first sync did not park"
				p.Open()
				return
			}
			ctxB, cancelB := context.WithCancel(ctx)
			defer cancelB()
			go func() {
				if c.Queued == "sync" {
					_, err := s.S.SyncAdChain(ctxB, p.Info())
					bDone <- err
				} else {
					bDone <- s.S.SyncEntries(ctxB, p.Info(), ents[len(ents)-1])
				}
			}()
			w.SettleUntil(nil)
			if c.When == "parked" {
				cancelB()
				w.SettleUntil(nil)
				p.Open()
			} else {
				p.Open()
				cancelB()
			}
			w.SettleUntilCap(func() bool { return len(aDone) == 1 && len(bDone) == 1 }, 50000)
			if len(aDone) != 1 || len(bDone) != 1 {
				panic("VERIF-NORETURN: a sync call has not returned 10 s after the gate was opened and the queued call's context was cancelled")
			}
			if err := <-aDone; err != nil {
				viol = "the first sync failed: " + err.Error()
				return
			}
			<-bDone // its context's error, or a result: both are fine
			// the publisher remains usable
			p.ExtendAds(1)
			head := p.Chain[len(p.Chain)-1]
			switch c.Then {
			case "sync":
				go func() { _, err := s.S.SyncAdChain(ctx, p.Info()); cDone <- err }()
			case "announce":
				_ = s.S.Announce(ctx, head, p.Info())
				cDone <- nil
			case "entries":
				go func() { cDone <- s.S.SyncEntries(ctx, p.Info(), ents[len(ents)-1]) }()
			default:
				cDone <- nil
			}
			w.SettleUntilCap(func() bool {
				return len(cDone) == 1 && ((c.Then != "sync" && c.Then != "announce") || s.Latest(p.ID) == head)
			}, 50000)
			if len(cDone) != 1 {
				panic("VERIF-NORETURN: a sync of the publisher issued after an abandoned queued call has not returned after 10 s")
			}
			if err := <-cDone; err != nil {
				viol = fmt.Sprintf("the %s that followed the abandoned call failed: %v", c.Then, err)
				return
			}
			if (c.Then == "sync" || c.Then == "announce") && s.Latest(p.ID) != head {
				viol = fmt.Sprintf("the %s that followed the abandoned call did not reach the head within 10 s", c.Then)
				return
			}
			closed := make(chan error, 1)
			go func() { closed <- s.Shutdown() }()
			w.SettleUntilCap(func() bool { return len(closed) == 1 }, 50000)
			if len(closed) != 1 {
				panic("VERIF-NORETURN: Close has not returned after 10 s")
			}
			if err := <-closed; err != nil {
				viol = "Close: " + err.Error()
			}
		})
		res.Fail = viol
		if viol != "" {
			res.Fail = fmt.Sprintf("%s\ncase: %+v", viol, c)
		}
		return res
	})
}
