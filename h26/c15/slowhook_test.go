package c15

import (
	"context"
	"fmt"
	"testing"
	"testing/synctest"
	"time"

	"github.com/ipfs/go-cid"
	"github.com/ipni/go-libipni/dagsync"
	"github.com/libp2p/go-libp2p/core/peer"
	"pgregory.net/rapid"

	"verif/h23/pbt"
	"verif/h26/world"
)

// Close while a sync is inside the user's block hook, which does not watch any context and takes a drawn amount
// of (virtual) time: Close may only return once that sync has ended, however long that takes.

type slowHookCase struct {
	N        int    // advertisements to sync
	Entry    string // announce | sync
	ParkAt   int    // the hook call that takes long
	Wait     int    // seconds the hook call lasts after Close was called
	Closers  int
	Seg      int64
	Discover bool
}

func TestC15_SlowHook(t *testing.T) {
	pbt.Run(t, pbt.Config{Prop: "C15", Unit: "TestC15_SlowHook", TrackCurrent: true,
		Rule: "one publisher with 1..4 new advertisements; an announce-triggered or explicit sync (unsegmented or segments of 1..2) whose k-th block-hook call blocks in user code that watches no context; Close is called while the hook call is in progress and virtual time then advances by 0, 1, 4, 6, 30, 120 or 3600 s before the hook call returns (optionally a second Close caller arrives just before that); oracle: Close has not returned while the sync is inside the hook (at every checkpoint), it returns after the hook call ended, an explicit sync finishes successfully with latest-sync at its head, and once Close returned there is no further hook call, store write or notification, and the listener channel is closed. Non-trivial: the hook call lasted at least 1 s after Close was called; distinct by case.",
	}, func(t *rapid.T) slowHookCase {
		c := slowHookCase{N: rapid.IntRange(1, 4).Draw(t, "n"), Entry: rapid.SampledFrom([]string{"announce", "announce", "sync"}).Draw(t, "entry")}
		c.ParkAt = rapid.IntRange(0, c.N-1).Draw(t, "parkat")
		c.Wait = rapid.SampledFrom([]int{0, 1, 4, 6, 30, 120, 3600}).Draw(t, "wait")
		c.Closers = rapid.IntRange(1, 2).Draw(t, "closers")
		c.Seg = rapid.SampledFrom([]int64{-1, 1, 2}).Draw(t, "seg")
		c.Discover = rapid.Bool().Draw(t, "discovery")
		return c
	}, func(c slowHookCase) (res pbt.Result) {
		res.NonTrivial = c.Wait >= 1
		res.Classes = []string{"entry=" + c.Entry, fmt.Sprintf("wait=%ds", c.Wait)}
		var viol string
		defer func() {
			if p := recover(); p != nil {
				if viol == "" {
					viol = fmt.Sprintf("panic: %v", p)
				}
				res.Fail = fmt.Sprintf("%s\ncase: %+v", viol, c)
			}
		}()
		synctest.Test(t, func(t *testing.T) {
			w := world.New()
			defer w.Close()
			p := w.AddPublisher(0, c.Discover, "")
			p.ExtendAds(c.N)
			s, err := world.NewSub(w, true, dagsync.SegmentDepthLimit(c.Seg), dagsync.HttpTimeout(24*time.Hour))
			if err != nil {
				viol = err.Error()
				return
			}
			inHook, release := make(chan struct{}), make(chan struct{})
			calls := 0
			s.SetOnHook(func(peer.ID, cid.Cid) {
				calls++
				if calls-1 == c.ParkAt {
					close(inHook)
					<-release // user code: no context to watch
				}
			})
			ctx := context.Background()
			head := p.Chain[len(p.Chain)-1]
			syncDone := make(chan error, 1)
			if c.Entry == "announce" {
				_ = s.S.Announce(ctx, head, p.Info())
				syncDone <- nil
			} else {
				go func() { _, err := s.S.SyncAdChain(ctx, p.Info()); syncDone <- err }()
			}
			synctest.Wait()
			select {
			case <-inHook:
			default:
				viol = fmt.Sprintf("the sync did not reach hook call %d", c.ParkAt)
				close(release)
				return
			}
			closeRet := make(chan error, c.Closers)
			go func() { closeRet <- s.S.Close() }()
			// checkpoints while the hook call is still in progress
			left := c.Wait
			for _, d := range []int{0, 1, 3, 2, 24, 90, 3480} {
				if d > left {
					d = left
				}
				if d > 0 {
					time.Sleep(time.Duration(d) * time.Second)
				}
				left -= d
				synctest.Wait()
				if len(closeRet) > 0 {
					viol = fmt.Sprintf("Close returned %d s after it was called while the %s sync was still inside its block-hook call: Close must only return when every sync has ended", c.Wait-left, map[string]string{"announce": "announce-triggered", "sync": "explicit"}[c.Entry])
					return // the hook call is abandoned: the bubble ends with it
				}
				if left == 0 {
					break
				}
			}
			if c.Closers == 2 {
				// a second caller arrives while the first is still waiting (it waits on a mutex, which would stop the virtual clock earlier)
				go func() { closeRet <- s.S.Close() }()
				w.SettleUntil(nil)
			}
			close(release)
			w.SettleUntilCap(func() bool { return len(closeRet) == c.Closers && len(syncDone) == 1 }, 50000)
			if len(closeRet) != c.Closers {
				panic("VERIF-NORETURN: Close has not returned 10 s after the hook call ended")
			}
			hk, wr := s.NHooks(), s.NWrites()
			latest := s.Latest(p.ID)
			synctest.Wait() // notifications queued for the listener before Close returned are still read by it
			ev := s.NEvents()
			time.Sleep(2 * time.Minute)
			synctest.Wait()
			for i := 0; i < c.Closers; i++ {
				if err := <-closeRet; err != nil {
					viol = "Close: " + err.Error()
					return
				}
			}
			if s.NHooks() != hk || s.NWrites() != wr || s.NEvents() != ev {
				viol = fmt.Sprintf("after Close returned: %d further hook calls, %d store writes, %d notifications", s.NHooks()-hk, s.NWrites()-wr, s.NEvents()-ev)
				return
			}
			if c.Entry == "sync" {
				if err := <-syncDone; err != nil {
					viol = "the explicit sync that was running when Close was called did not finish: " + err.Error()
					return
				}
				if latest != head {
					viol = "the explicit sync finished but latest-sync is not its head"
					return
				}
			}
			if err := s.Shutdown(); err != nil { // drains the reference listener: its channel must be closed
				viol = "second Close: " + err.Error()
			}
		})
		res.Fail = viol
		if viol != "" {
			res.Fail = fmt.Sprintf("%s\ncase: %+v", viol, c)
		}
		return res
	})
}
