package c02

import (
	"context"
	"fmt"
	"testing"
	"testing/synctest"

	"github.com/ipfs/go-cid"
	"github.com/ipni/go-libipni/dagsync"
	"pgregory.net/rapid"

	"verif/h23/pbt"
	"verif/h26/world"
)

// A hostile publisher links to a CID that carries the right digest under the wrong hash function's name: the
// digest of the previous advertisement's bytes computed with the chain's function, labelled as another
// function of the same digest length. The bytes served for it do not hash to it.

type mislabelCase struct {
	N       int
	Root    int // index into sameLen: the chain's hash function
	Label   int // index into sameLen: the function named in the crafted CID
	Seg     int64
	Trusted bool
	Trunc   int // > 0: the crafted CID names blake2b-256 (or blake2s-256) truncated to Trunc bytes and carries the digest of the family's native Trunc-byte member
	Family  int // 0 blake2b, 1 blake2s
}

var sameLen = []hashFn{{"sha2-256", 0x12, -1}, {"sha3-256", 0x16, -1}, {"keccak-256", 0x1b, -1}, {"blake2b-256", 0xb220, -1}, {"dbl-sha2-256", 0x56, -1}}

func TestC02_Mislabel(t *testing.T) {
	pbt.Run(t, pbt.Config{Prop: "C02", Unit: "TestC02_Mislabel", TrackCurrent: true,
		Rule: "chain of 1..4 honest ads hashed with one of five 256-bit functions, on top of it one ad whose PreviousID is a crafted CID: the digest of the previous ad under the chain's function, labelled with another of the five, or (one case in four) the digest of the previous ad under the native 64..248-bit member of the blake2b family labelled as the family's 256-bit member truncated to that length; the previous ad's bytes are served for it; segmented or not, TrustedStorage or not; oracle: the sync of the new head fails, latest-sync does not move, the crafted CID is not stored and not reported to the hook, the independent audit finds no stored block that does not hash to its CID. Non-trivial: always; distinct by case.",
	}, func(t *rapid.T) mislabelCase {
		c := mislabelCase{N: rapid.IntRange(1, 4).Draw(t, "n"), Root: rapid.IntRange(0, len(sameLen)-1).Draw(t, "root"), Seg: rapid.SampledFrom([]int64{-1, 1, 2}).Draw(t, "seg"), Trusted: rapid.Bool().Draw(t, "trusted")}
		c.Label = (c.Root + rapid.IntRange(1, len(sameLen)-1).Draw(t, "label")) % len(sameLen)
		if rapid.IntRange(0, 3).Draw(t, "truncated") == 0 {
			c.Trunc = rapid.SampledFrom([]int{8, 16, 20, 24, 28, 31}).Draw(t, "trunc")
			c.Family = 0 // (the blake2s members other than blake2s-256 are not registered in this binary: no publisher could be asked for them)
		}
		return c
	}, func(c mislabelCase) (res pbt.Result) {
		res.NonTrivial = true
		res.Classes = []string{"root=" + sameLen[c.Root].Name, "label=" + sameLen[c.Label].Name}
		defer func() {
			if p := recover(); p != nil {
				res.Fail = fmt.Sprintf("panic: %v", p)
			}
		}()
		synctest.Test(t, func(t *testing.T) {
			w := world.New()
			defer w.Close()
			w.TrustedStorage = c.Trusted
			p := w.AddPublisher(0, false, "")
			p.SetHashFunc(sameLen[c.Root].Code, -1)
			p.ExtendAds(c.N)
			labelName := sameLen[c.Label].Name
			var crafted cid.Cid
			if c.Trunc > 0 {
				// blake2b-N is multihash code 0xb200 + N/8 (N bits), blake2s-N is 0xb240 + N/8; the 256-bit members are 0xb220 / 0xb260
				base, name := uint64(0xb200), "blake2b"
				if c.Family == 1 {
					base, name = 0xb240, "blake2s"
				}
				labelName = fmt.Sprintf("%s-256 truncated to %d bytes (digest of %s-%d)", name, c.Trunc, name, 8*c.Trunc)
				crafted = p.MislabelHeadAs(base+32, base+uint64(c.Trunc))
				res.Classes = append(res.Classes, "truncated-family-member")
			} else {
				crafted = p.MislabelHead(sameLen[c.Label].Code)
			}
			s, err := world.NewSub(w, false, dagsync.SegmentDepthLimit(c.Seg))
			if err != nil {
				res.Fail = err.Error()
				return
			}
			defer func() {
				if err := s.Shutdown(); err != nil && res.Fail == "" {
					res.Fail = "Close: " + err.Error()
				}
			}()
			got, err := s.S.SyncAdChain(context.Background(), p.Info())
			w.Settle()
			if bad := s.Audit(); len(bad) > 0 {
				res.Fail = fmt.Sprintf("the store holds blocks that do not hash to their CID: %v (chain hashed with %s, crafted link labelled %s; sync returned %v, %v)", bad, sameLen[c.Root].Name, labelName, got, err)
				return
			}
			if s.Has(crafted) {
				res.Fail = "the crafted CID is stored"
				return
			}
			for _, hc := range s.HookCids(0) {
				if hc == crafted {
					res.Fail = "the crafted CID was reported to the block hook"
					return
				}
			}
			if err == nil {
				res.Fail = fmt.Sprintf("the sync succeeded (returned %s) although the block served for the crafted CID does not hash to it under %s", got, labelName)
				return
			}
			if l := s.Latest(p.ID); l.Defined() {
				res.Fail = fmt.Sprintf("the sync failed but latest-sync moved to %s", l)
			}
		})
		return res
	})
}
