package c02

import (
	"context"
	"fmt"
	"runtime"
	"testing"
	"testing/synctest"

	"github.com/ipfs/go-cid"
	"github.com/ipni/go-libipni/dagsync"
	"pgregory.net/rapid"

	"verif/h23/pbt"
	"verif/h26/world"
)

// Overlapping syncs of different publishers in one process, all publishers honest: what one sync has verified
// must be what it stores, whatever the other syncs fetch in between. One sync is parked by the destination
// store (its k-th writer-open blocks, as a slow datastore does), the others run to completion meanwhile.

type concCase struct {
	K      int // publishers
	N      int // advertisements each
	ParkAt int // which writer-open of the first sync blocks
	Procs  int // GOMAXPROCS during the case (0: unchanged); 1 makes per-P caches shared by every goroutine
	Seg    int64
}

func TestC02_Concurrent(t *testing.T) {
	pbt.Run(t, pbt.Config{Prop: "C02", Unit: "TestC02_Concurrent", TrackCurrent: true,
		Rule: "2..4 honest publishers with chains of 1..4 advertisements of different sizes; the sync of the first publisher is parked inside its k-th writer-open of the destination store (k drawn), the other publishers are synced to completion meanwhile, then the first resumes; GOMAXPROCS 1, 2 or unchanged (so that per-P caches are or are not shared by the overlapping syncs), segmented or not; oracle: every sync returns its head; afterwards every stored block hashes to the CID it is stored under (independent audit), every chain is complete, hooks were called only for audited blocks. Non-trivial: always (the syncs overlap); distinct by case.",
	}, func(t *rapid.T) concCase {
		n := rapid.IntRange(1, 4).Draw(t, "n")
		return concCase{K: rapid.IntRange(2, 4).Draw(t, "k"), N: n, ParkAt: rapid.IntRange(0, n-1).Draw(t, "parkat"), Procs: rapid.SampledFrom([]int{1, 1, 2, 0}).Draw(t, "procs"),
			Seg: rapid.SampledFrom([]int64{-1, -1, 1}).Draw(t, "seg")}
	}, func(c concCase) (res pbt.Result) {
		res.NonTrivial = true
		res.Classes = []string{fmt.Sprintf("procs=%d", c.Procs)}
		defer func() {
			if p := recover(); p != nil {
				res.Fail = fmt.Sprintf("panic: %v", p)
			}
		}()
		if c.Procs > 0 {
			old := runtime.GOMAXPROCS(c.Procs)
			defer runtime.GOMAXPROCS(old)
		}
		synctest.Test(t, func(t *testing.T) {
			w := world.New()
			defer w.Close()
			var pubs []*world.Publisher
			for i := 0; i < c.K; i++ {
				p := w.AddPublisher(i, false, "")
				p.ExtendAds(c.N)
				pubs = append(pubs, p)
			}
			s, err := world.NewSub(w, false, dagsync.SegmentDepthLimit(c.Seg))
			if err != nil {
				res.Fail = err.Error()
				return
			}
			defer func() {
				if err := s.Shutdown(); err != nil && res.Fail == "" {
					res.Fail = "Close: " + err.Error()
				}
			}()
			ctx := context.Background()
			gate := make(chan struct{})
			parked := make(chan struct{})
			opens := 0
			s.SetOnWriteOpen(func() {
				// only the first sync is running until it parks: the ordinal identifies its writer-opens
				opens++
				if opens == c.ParkAt+1 {
					close(parked)
					<-gate
				}
			})
			type out struct {
				c   cid.Cid
				err error
			}
			first := make(chan out, 1)
			go func() {
				got, err := s.S.SyncAdChain(ctx, pubs[0].Info())
				first <- out{got, err}
			}()
			synctest.Wait()
			select {
			case <-parked:
			default:
				res.Fail = "the first sync did not reach its writer-open"
				close(gate)
				return
			}
			for i := 1; i < c.K; i++ {
				got, err := s.S.SyncAdChain(ctx, pubs[i].Info())
				if err != nil || got != pubs[i].Chain[c.N-1] {
					res.Fail = fmt.Sprintf("sync of publisher %d while the first sync is parked in the store: %v (got %s)", i, err, got)
					close(gate)
					return
				}
			}
			close(gate)
			o := <-first
			synctest.Wait()
			if o.err != nil || o.c != pubs[0].Chain[c.N-1] {
				res.Fail = fmt.Sprintf("the parked sync of publisher 0, resumed after %d other syncs completed, failed: %v", c.K-1, o.err)
				return
			}
			if bad := s.Audit(); len(bad) > 0 {
				res.Fail = fmt.Sprintf("after %d overlapping syncs of honest publishers the store holds blocks that do not hash to their CID: %v (the first sync was parked in its writer-open %d)", c.K, bad, c.ParkAt)
				return
			}
			for i, p := range pubs {
				for j, ci := range p.Chain {
					if !s.Has(ci) {
						res.Fail = fmt.Sprintf("advertisement %d of publisher %d is missing from the store", j, i)
						return
					}
				}
			}
		})
		return res
	})
}
