package c02

import (
	"bytes"
	"context"
	"fmt"
	"testing"
	"testing/synctest"

	"github.com/ipfs/go-cid"
	"github.com/ipni/go-libipni/dagsync"
	"pgregory.net/rapid"

	"verif/h23/pbt"
	"verif/h26/world"
)

type hashFn struct {
	Name string
	Code uint64
	Len  int
}

// multihash functions registered in this binary (probed with multihash.GetHasher), incl. truncated digests and identity
var hashes = []hashFn{
	{"sha2-256", 0x12, -1}, {"sha2-256/16", 0x12, 16}, {"sha2-256/20", 0x12, 20}, {"sha2-512", 0x13, -1}, {"sha2-512/32", 0x13, 32},
	{"sha1", 0x11, -1}, {"sha3-256", 0x16, -1}, {"sha3-512", 0x14, -1}, {"keccak-256", 0x1b, -1}, {"blake3", 0x1e, -1},
	{"blake2b-256", 0xb220, -1}, {"dbl-sha2-256", 0x56, -1}, {"murmur3-x64-64", 0x22, -1}, {"identity", 0x00, -1},
}

type fault struct {
	Ord      int    // block-request ordinal within the sync
	Kind     string // flipbit | truncate | shortbody | append | substitute | empty | oversize
	Pos      int
	Bit      int
	SubstPos int
}

type Case struct {
	N          int
	Hash       int
	Discovery  bool
	Seg        int64
	Faults     []fault // one faulty sync each, then an honest sync
	Entries    bool    // entries chain instead of ads
	Trusted    bool    // the destination link system has TrustedStorage set (local reads are not re-hashed; fetched bytes still must be)
	StoreOrd   int     // >= 0: during the first sync the destination store's StoreOrd-th writer fails after accepting StoreAfter bytes (a full disk); the publisher is honest
	StoreAfter int
	Evict      []int // after the honest sync: the consumer deletes these blocks (positions) from its store, as indexers do once a block is processed,
	EvictFlt   fault // and a faulty re-sync of the whole chain follows (fault at a request ordinal among the evicted blocks), then an honest one
}

func genFault(t *rapid.T, n int) fault {
	f := fault{Ord: rapid.IntRange(0, n-1).Draw(t, "ord")}
	f.Kind = rapid.SampledFrom([]string{"flipbit", "flipbit", "truncate", "shortbody", "append", "substitute", "empty", "oversize"}).Draw(t, "kind")
	f.Pos = rapid.IntRange(0, 1<<16).Draw(t, "pos")
	f.Bit = rapid.IntRange(0, 7).Draw(t, "bit")
	f.SubstPos = rapid.IntRange(0, n-1).Draw(t, "subst")
	return f
}

func genCase(t *rapid.T) Case {
	c := Case{N: rapid.IntRange(1, 5).Draw(t, "n"), Hash: rapid.IntRange(0, len(hashes)-1).Draw(t, "hash"), Discovery: rapid.Bool().Draw(t, "discovery")}
	c.Seg = rapid.SampledFrom([]int64{-1, -1, 1, 2}).Draw(t, "seg")
	c.Entries = rapid.IntRange(0, 3).Draw(t, "entries") == 0
	c.Trusted = rapid.IntRange(0, 3).Draw(t, "trusted") == 0
	nf := rapid.IntRange(1, 3).Draw(t, "nfaults")
	for i := 0; i < nf; i++ {
		c.Faults = append(c.Faults, genFault(t, c.N))
	}
	c.StoreOrd = -1
	if rapid.IntRange(0, 3).Draw(t, "storefault") == 1 {
		c.StoreOrd, c.StoreAfter = rapid.IntRange(0, c.N-1).Draw(t, "storeord"), rapid.IntRange(0, 400).Draw(t, "storeafter")
	}
	if rapid.IntRange(0, 2).Draw(t, "evict") == 1 {
		for i := 0; i < c.N; i++ {
			if rapid.IntRange(0, 2).Draw(t, "evicted") > 0 {
				c.Evict = append(c.Evict, i)
			}
		}
		if len(c.Evict) > 0 {
			c.EvictFlt = genFault(t, len(c.Evict))
			c.EvictFlt.SubstPos = rapid.IntRange(0, c.N-1).Draw(t, "evictsubst")
		}
	}
	return c
}

// served computes the bytes the faulty response carries.
func served(f fault, honest []byte, bodies [][]byte) []byte {
	switch f.Kind {
	case "flipbit":
		b := append([]byte(nil), honest...)
		b[f.Pos%len(b)] ^= 1 << uint(f.Bit)
		return b
	case "truncate", "shortbody":
		return honest[:f.Pos%(len(honest)+1)]
	case "append":
		return append(append([]byte(nil), honest...), bytes.Repeat([]byte{' '}, 1+f.Pos%64)...)
	case "substitute":
		return bodies[f.SubstPos]
	case "empty":
		return nil
	case "oversize":
		return append(append([]byte(nil), honest...), bytes.Repeat([]byte{'\n'}, 3<<20)...)
	}
	return honest
}

func runCase(t *testing.T) func(Case) pbt.Result {
	return func(c Case) (res pbt.Result) {
		h := hashes[c.Hash]
		res.Classes = []string{"hash=" + h.Name, fmt.Sprintf("discovery=%v", c.Discovery), fmt.Sprintf("trustedstorage=%v", c.Trusted)}
		defer func() {
			if p := recover(); p != nil {
				res.Fail = fmt.Sprintf("panic: %v", p)
			}
		}()
		synctest.Test(t, func(t *testing.T) {
			w := world.New()
			defer w.Close()
			w.TrustedStorage = c.Trusted
			p := w.AddPublisher(0, c.Discovery, "")
			p.SetHashFunc(h.Code, h.Len)
			var chain []cid.Cid
			if c.Entries {
				chain = p.BuildEntries(c.N, 2)
			} else {
				p.ExtendAds(c.N)
				chain = p.Chain
			}
			head := chain[c.N-1]
			bodies := make([][]byte, c.N)
			pos := map[string]int{}
			for i, ci := range chain {
				bodies[i] = p.Body(ci)
				pos[ci.String()] = i
			}
			s, err := world.NewSub(w, false, dagsync.SegmentDepthLimit(c.Seg))
			if err != nil {
				res.Fail = "NewSubscriber: " + err.Error()
				return
			}
			defer func() {
				if err := s.Shutdown(); err != nil && res.Fail == "" {
					res.Fail = "Close: " + err.Error()
				}
			}()
			ctx := context.Background()
			resync, hookFrom := false, 0 // hookFrom: hook calls before the consumer deleted blocks refer to blocks that were verified then
			doSync := func() (cid.Cid, error) {
				if c.Entries {
					return head, s.S.SyncEntries(ctx, p.Info(), head)
				}
				if resync {
					return s.S.SyncAdChain(ctx, p.Info(), dagsync.WithAdsResync(true))
				}
				return s.S.SyncAdChain(ctx, p.Info())
			}
			check := func(what string) bool {
				if bad := s.Audit(); len(bad) > 0 {
					res.Fail = fmt.Sprintf("%s: local store holds blocks that do not hash to their CID: %v (hash function %s)", what, bad, h.Name)
					return false
				}
				keys := s.Keys()
				for _, hc := range s.HookCids(hookFrom) {
					if !keys[hc.String()] {
						res.Fail = fmt.Sprintf("%s: block hook was called for %s which is not a verified block in the local store", what, hc)
						return false
					}
					if _, ok := pos[hc.String()]; !ok {
						res.Fail = fmt.Sprintf("%s: block hook was called for a CID that is not on the chain: %s", what, hc)
						return false
					}
				}
				for k := range keys {
					if _, ok := pos[k]; !ok {
						res.Fail = fmt.Sprintf("%s: local store holds %s which is not a block of the chain", what, k)
						return false
					}
				}
				return true
			}
			faultySync := func(fi int, f fault) bool {
				// which block will request ordinal f.Ord ask for? requests go newest to oldest, skipping stored blocks
				var wanted []int
				for i := c.N - 1; i >= 0; i-- {
					if !s.Has(chain[i]) {
						wanted = append(wanted, i)
					}
				}
				if f.Ord >= len(wanted) {
					res.Classes = append(res.Classes, "fault-not-reached")
					return true
				}
				target := wanted[f.Ord]
				sv := served(f, bodies[target], bodies)
				differs := !bytes.Equal(sv, bodies[target])
				kind := f.Kind
				wf := world.Fault{Kind: kind, N: f.Pos % (len(bodies[target]) + 1), Bit: f.Bit}
				switch f.Kind {
				case "flipbit":
					wf.N = f.Pos % len(bodies[target])
				case "append":
					wf.N = 1 + f.Pos%64
				case "substitute":
					wf.Body = bodies[f.SubstPos]
				case "oversize":
					wf.N = 3 << 20
				}
				p.ArmFaults(nil, map[int][]world.Fault{f.Ord: {wf}})
				latest0, ev0, req0 := s.Latest(p.ID), s.NEvents(), len(w.Requests())
				_, err := doSync()
				w.Settle()
				what := fmt.Sprintf("sync %d with %s at request %d (block %d)", fi, wf, f.Ord, target)
				if !check(what) {
					return false
				}
				// was the faulty response actually served, and was the block re-requested honestly afterwards?
				reached, honestLater := false, false
				for _, r := range w.Requests()[req0:] {
					if r.Kind == "block" && r.Cid == chain[target].String() {
						if r.Fault != "" {
							reached = true
						} else if reached {
							honestLater = true
						}
					}
				}
				if reached && differs {
					res.NonTrivial = true
					res.Classes = append(res.Classes, "fault="+f.Kind)
					res.Key += fmt.Sprintf("%s/%s/%d/%d;", h.Name, f.Kind, f.Ord, wf.N*8+wf.Bit)
					if err == nil && !honestLater {
						res.Fail = fmt.Sprintf("%s: the served body does not hash to the requested CID but the sync succeeded", what)
						return false
					}
				}
				if err != nil {
					if !c.Entries && (s.Latest(p.ID) != latest0 || s.NEvents() != ev0) {
						res.Fail = fmt.Sprintf("%s: sync failed (%v) but latest-sync moved or an event was emitted", what, err)
						return false
					}
				} else if !c.Entries && s.Latest(p.ID) != head {
					res.Fail = fmt.Sprintf("%s: sync succeeded but latest-sync is %s", what, s.Latest(p.ID))
					return false
				}
				return true
			}
			if c.StoreOrd >= 0 {
				s.ArmWriteFault(c.StoreOrd, c.StoreAfter)
				_, err := doSync()
				w.Settle()
				s.ArmWriteFault(-1, 0)
				if s.WriteFaults > 0 {
					res.Classes = append(res.Classes, "store-write-failed")
					if err == nil {
						res.Fail = fmt.Sprintf("the destination store failed the write of block request %d after %d bytes, but the sync reported success", c.StoreOrd, c.StoreAfter)
						return
					}
				}
				if !check(fmt.Sprintf("sync during which the store's writer %d failed after %d bytes", c.StoreOrd, c.StoreAfter)) {
					return
				}
			}
			for fi, f := range c.Faults {
				if !faultySync(fi, f) {
					return
				}
			}
			p.ArmFaults(nil, nil)
			if _, err := doSync(); err != nil {
				res.Fail = fmt.Sprintf("final sync against the honest publisher failed: %v", err)
				return
			}
			w.Settle()
			if !check("final honest sync") {
				return
			}
			keys := s.Keys()
			if len(keys) != c.N {
				res.Fail = fmt.Sprintf("after the honest final sync the store holds %d blocks, the chain has %d", len(keys), c.N)
				return
			}
			if len(c.Evict) == 0 {
				return
			}
			// the consumer drops blocks it has processed; the publisher misbehaves when they are fetched again
			for _, i := range c.Evict {
				s.Delete(chain[i])
			}
			res.Classes = append(res.Classes, "evict-and-resync")
			resync, hookFrom = true, s.NHooks()
			if !faultySync(len(c.Faults), c.EvictFlt) {
				res.Fail = "after the consumer deleted blocks " + fmt.Sprint(c.Evict) + " from its store: " + res.Fail
				return
			}
			p.ArmFaults(nil, nil)
			if _, err := doSync(); err != nil {
				res.Fail = fmt.Sprintf("honest re-sync after eviction failed: %v", err)
				return
			}
			w.Settle()
			if !check("honest re-sync after eviction") {
				return
			}
			if keys := s.Keys(); len(keys) != c.N {
				res.Fail = fmt.Sprintf("after the honest re-sync the store holds %d blocks, the chain has %d", len(keys), c.N)
			}
		})
		if res.Key == "" {
			res.Key = fmt.Sprintf("%+v", c)
		}
		return res
	}
}

const rule = "destination link system with or without TrustedStorage; chain of 1..5 ads or entry chunks whose CIDs use one of 14 multihash functions / digest lengths registered in the binary (sha2-256 full and truncated to 16/20, sha2-512 full and /32, sha1, sha3-256/512, keccak-256, blake3, blake2b-256, dbl-sha2-256, murmur3, identity); optionally a first sync against the honest publisher during which one of the destination store's writers fails after a drawn number of bytes (what it accepted is what a commit would publish; the sync must fail and nothing unverified may be committed); 1..3 faulty syncs, each with one body fault (single bit flip, truncation at any length with honest or dishonest Content-Length, 1..64 appended bytes, substitution by another valid block of the chain, empty body, 3 MiB oversized body) at a drawn request ordinal, then an honest sync; in a third of the cases the consumer then deletes a drawn subset of the blocks from its store (as indexers do with processed blocks) and the whole chain is synced again (WithAdsResync / SyncEntries), first with a body fault at one of the re-fetched blocks, then honestly; plain and discovery transport, segmented or not; oracle after every sync: independent audit of the destination store (recompute the multihash named in each key over the stored value), hook log only holds audited chain blocks, nothing foreign stored, a served body that differs from the honest one fails the sync (unless the client re-requested the block and got the honest body), failed syncs do not move latest-sync nor emit events, and after the honest sync the store is exactly the chain. Non-trivial: the faulty response was actually requested and its bytes differ; distinct by (hash function, fault kind, request ordinal, position)."

func TestC02_Random(t *testing.T) {
	pbt.Run(t, pbt.Config{Prop: "C02", Unit: "TestC02_Random", Rule: rule, TrackCurrent: true}, genCase, runCase(t))
}

// Exhaustive: every single-bit flip, every truncation length (both forms) and every substitution for the blocks of a 3-chain.
func TestC02_Exhaustive(t *testing.T) {
	hs := []int{0, 1}
	blocks := []int{1}
	if pbt.Tier() == "thorough" {
		hs = nil
		for i := range hashes {
			hs = append(hs, i)
		}
		blocks = []int{0, 1, 2}
	}
	pbt.RunEnum(t, pbt.Config{Prop: "C02", Unit: "TestC02_Exhaustive", TrackCurrent: true,
		Rule: fmt.Sprintf("exhaustive over a 3-ad chain: hash functions %v x request ordinals %v x (every single-bit flip of the body, every truncation length with honest and with dishonest Content-Length, every substitution, empty, appended, oversized); same oracle as TestC02_Random. All cases non-trivial when the bytes differ; distinct by (hash function, fault kind, request ordinal, position).", names(hs), blocks),
	}, func(yield func(Case) bool) {
		for _, hi := range hs {
			// body length depends on the hash function; enumerate positions up to a safe bound and let served() wrap
			for _, ord := range blocks {
				blen := bodyLen(hi)
				for pos := 0; pos < blen; pos++ {
					for bit := 0; bit < 8; bit++ {
						if !yield(Case{N: 3, Hash: hi, Seg: -1, Faults: []fault{{Ord: ord, Kind: "flipbit", Pos: pos, Bit: bit}}}) {
							return
						}
					}
					for _, k := range []string{"truncate", "shortbody"} {
						if !yield(Case{N: 3, Hash: hi, Seg: -1, Discovery: pos%2 == 0, Faults: []fault{{Ord: ord, Kind: k, Pos: pos}}}) {
							return
						}
					}
				}
				for sp := 0; sp < 3; sp++ {
					if !yield(Case{N: 3, Hash: hi, Seg: -1, Faults: []fault{{Ord: ord, Kind: "substitute", SubstPos: sp}}}) {
						return
					}
				}
				for _, k := range []string{"empty", "append", "oversize"} {
					if !yield(Case{N: 3, Hash: hi, Seg: 1, Faults: []fault{{Ord: ord, Kind: k, Pos: 7}}}) {
						return
					}
				}
			}
		}
	}, runCase(t))
}

func names(hs []int) []string {
	var out []string
	for _, h := range hs {
		out = append(out, hashes[h].Name)
	}
	return out
}

var bodyLens = map[int]int{}

// bodyLen returns the length of the longest block body of the 3-ad chain for a hash function (built once, outside any sync).
func bodyLen(hi int) int {
	if n, ok := bodyLens[hi]; ok {
		return n
	}
	n := 0
	func() {
		w := world.New() // outside a bubble: only used to build the chain
		defer w.Close()
		p := w.AddPublisher(0, false, "")
		p.SetHashFunc(hashes[hi].Code, hashes[hi].Len)
		p.ExtendAds(3)
		for _, c := range p.Chain {
			if l := len(p.Body(c)); l > n {
				n = l
			}
		}
	}()
	bodyLens[hi] = n
	return n
}
