package c02

import (
	"bytes"
	"context"
	"fmt"
	"testing"
	"testing/synctest"

	"github.com/ipfs/go-cid"

	"verif/h23/pbt"
	"verif/h26/world"
)

// Blocks whose size sits exactly on, one below and one above a power of two (the sizes at which read limits,
// buffers and chunked copies change behaviour), served honestly and with bytes appended, a bit flipped in the
// last byte, or truncated by one byte.

type sizeCase struct {
	Size    int
	Fault   string // none | append1 | append64 | fliplast | cut1
	Trusted bool
}

func TestC02_Sizes(t *testing.T) {
	exps := []int{9, 12, 16, 20}
	if pbt.Tier() == "thorough" {
		exps = []int{8, 9, 10, 11, 12, 13, 14, 15, 16, 17, 18, 19, 20, 21, 22, 23}
	}
	// 4 MiB is a customary block-size limit: always included
	sizes := []int{}
	for _, e := range append(exps, 22) {
		for d := -1; d <= 1; d++ {
			sizes = append(sizes, (1<<e)+d)
		}
	}
	pbt.RunEnum(t, pbt.Config{Prop: "C02", Unit: "TestC02_Sizes", TrackCurrent: true,
		Rule: fmt.Sprintf("a two-block DAG fetched through the explore-all entry point whose second block is exactly 2^e-1, 2^e or 2^e+1 bytes long for e in %v and 22, with and without TrustedStorage, served honestly or with 1 / 64 bytes appended, a bit of the last byte flipped, or the last byte cut; oracle: the honest response syncs and is stored byte for byte; every altered response fails the sync, and afterwards no stored block fails the independent hash audit. Non-trivial: an altered response; distinct by case.", exps),
	}, func(yield func(sizeCase) bool) {
		for _, sz := range sizes {
			for _, f := range []string{"none", "append1", "append64", "fliplast", "cut1"} {
				for _, tr := range []bool{false, true} {
					if !yield(sizeCase{Size: sz, Fault: f, Trusted: tr}) {
						return
					}
				}
			}
		}
	}, func(c sizeCase) (res pbt.Result) {
		res.NonTrivial = c.Fault != "none"
		res.Classes = []string{"fault=" + c.Fault}
		defer func() {
			if p := recover(); p != nil {
				res.Fail = fmt.Sprintf("panic: %v", p)
			}
		}()
		synctest.Test(t, func(t *testing.T) {
			w := world.New()
			defer w.Close()
			w.TrustedStorage = c.Trusted
			p := w.AddPublisher(0, false, "")
			leaf, ok := p.BuildSizedNode(c.Size, cid.Undef, 1)
			if !ok {
				res.Skip = true
				return
			}
			root, _ := p.BuildSizedNode(300, leaf, 2)
			honest := p.Body(leaf)
			if len(honest) != c.Size {
				res.Fail = fmt.Sprintf("harness: block is %d bytes, wanted %d", len(honest), c.Size)
				return
			}
			s, err := world.NewSub(w, false)
			if err != nil {
				res.Fail = err.Error()
				return
			}
			defer func() {
				if err := s.Shutdown(); err != nil && res.Fail == "" {
					res.Fail = "Close: " + err.Error()
				}
			}()
			var body []byte
			switch c.Fault {
			case "append1":
				body = append(append([]byte(nil), honest...), ' ')
			case "append64":
				body = append(append([]byte(nil), honest...), bytes.Repeat([]byte{'\n'}, 64)...)
			case "fliplast":
				body = append([]byte(nil), honest...)
				body[len(body)-1] ^= 0x02
			case "cut1":
				body = honest[:len(honest)-1]
			}
			if body != nil {
				p.FaultCid(leaf, world.Fault{Kind: "custom", Body: body})
			}
			err = s.S.SyncHAMTEntries(context.Background(), p.Info(), root)
			w.Settle()
			if bad := s.Audit(); len(bad) > 0 {
				res.Fail = fmt.Sprintf("block of %d bytes served with %s: the store holds blocks that do not hash to their CID: %v (sync error: %v)", c.Size, c.Fault, bad, err)
				return
			}
			if c.Fault == "none" {
				if err != nil {
					res.Fail = fmt.Sprintf("honest block of %d bytes: sync failed: %v", c.Size, err)
					return
				}
				if got := s.Get(leaf); !bytes.Equal(got, honest) {
					res.Fail = fmt.Sprintf("honest block of %d bytes: stored %d bytes that differ from what was served", c.Size, len(got))
				}
				return
			}
			if err == nil {
				res.Fail = fmt.Sprintf("block of %d bytes served with %s: the sync succeeded", c.Size, c.Fault)
				return
			}
			if s.Has(leaf) {
				res.Fail = fmt.Sprintf("block of %d bytes served with %s: the sync failed but something was stored under the block's CID", c.Size, c.Fault)
			}
		})
		return res
	})
}
