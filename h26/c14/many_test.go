package c14

import (
	"context"
	"fmt"
	"sync"
	"testing"
	"testing/synctest"

	"github.com/ipni/go-libipni/dagsync"
	"pgregory.net/rapid"

	"verif/h23/pbt"
	"verif/h26/world"
)

// Many listeners at once, most of them cancelled again, in waves: whoever is still registered receives every
// later notification, whatever the subscriber does with its bookkeeping when the population grows and shrinks.

type manyCase struct {
	Waves []wave
}

type wave struct {
	Register int   // listeners registered in this wave
	Cancel   []int // ordinals (mod the number currently registered) of listeners cancelled afterwards
	Syncs    int   // syncs completed after the cancellations
}

func TestC14_ManyListeners(t *testing.T) {
	pbt.Run(t, pbt.Config{Prop: "C14", Unit: "TestC14_ManyListeners", TrackCurrent: true,
		Rule: "1..4 waves; in each 0..70 listeners register (all read continuously), a drawn subset of everybody registered so far is cancelled (up to all but one), then 1..3 syncs of one publisher complete; oracle at exact quiescence after every wave: every listener registered and not cancelled holds exactly the notifications of all syncs completed since its registration, in order; every cancelled listener's channel is closed and holds nothing from after its cancellation. Non-trivial: at some moment >= 33 listeners were registered and later <= half of them remained; distinct by case.",
	}, func(t *rapid.T) manyCase {
		var c manyCase
		nw := rapid.IntRange(1, 4).Draw(t, "waves")
		for i := 0; i < nw; i++ {
			w := wave{Register: rapid.OneOf(rapid.IntRange(0, 8), rapid.IntRange(20, 70)).Draw(t, "register"), Syncs: rapid.IntRange(1, 3).Draw(t, "syncs")}
			nc := rapid.OneOf(rapid.IntRange(0, 5), rapid.IntRange(10, 80)).Draw(t, "ncancel")
			for k := 0; k < nc; k++ {
				w.Cancel = append(w.Cancel, rapid.IntRange(0, 1000).Draw(t, "which"))
			}
			c.Waves = append(c.Waves, w)
		}
		return c
	}, func(c manyCase) (res pbt.Result) {
		var viol string
		defer func() {
			if p := recover(); p != nil {
				if viol == "" {
					viol = fmt.Sprintf("panic: %v", p)
				}
				res.Fail = viol
			}
		}()
		synctest.Test(t, func(t *testing.T) {
			w := world.New()
			defer w.Close()
			e, err := world.NewExec(w, world.Script{K: 1}, false, dagsync.SegmentDepthLimit(-1))
			if err != nil {
				viol = err.Error()
				return
			}
			p := e.Pubs[0]
			ctx := context.Background()
			if _, err := e.S.S.SyncAdChain(ctx, p.Info()); err != nil {
				viol = "initial sync: " + err.Error()
				return
			}
			synctest.Wait()
			type lst struct {
				mu        sync.Mutex
				evs       []dagsync.SyncFinished
				closed    bool
				cancel    context.CancelFunc
				from      int // syncs completed before it registered
				cancelled bool
				upTo      int // syncs completed before it was cancelled
			}
			var all, live []*lst
			nSync := 0
			peak := 0
			for wi, wv := range c.Waves {
				for i := 0; i < wv.Register; i++ {
					ch, cancel := e.S.S.OnSyncFinished()
					l := &lst{cancel: cancel, from: nSync}
					all, live = append(all, l), append(live, l)
					go func() {
						for ev := range ch {
							l.mu.Lock()
							l.evs = append(l.evs, ev)
							l.mu.Unlock()
						}
						l.mu.Lock()
						l.closed = true
						l.mu.Unlock()
					}()
				}
				synctest.Wait()
				if len(live) > peak {
					peak = len(live)
				}
				for _, which := range wv.Cancel {
					if len(live) <= 1 {
						break
					}
					k := which % len(live)
					l := live[k]
					l.cancelled, l.upTo = true, nSync
					l.cancel()
					live = append(live[:k], live[k+1:]...)
				}
				synctest.Wait()
				if peak >= 33 && len(live) <= peak/2 {
					res.NonTrivial = true
				}
				for s := 0; s < wv.Syncs; s++ {
					p.ExtendAds(1)
					if _, err := e.S.S.SyncAdChain(ctx, p.Info()); err != nil {
						viol = fmt.Sprintf("wave %d: sync failed: %v", wi, err)
						return
					}
					nSync++
					synctest.Wait()
				}
				for li, l := range all {
					l.mu.Lock()
					n, closed := len(l.evs), l.closed
					var first dagsync.SyncFinished
					if n > 0 {
						first = l.evs[0]
					}
					l.mu.Unlock()
					want := nSync - l.from
					if l.cancelled {
						want = l.upTo - l.from
						if !closed {
							viol = fmt.Sprintf("wave %d: listener %d was cancelled but its channel is open at quiescence", wi, li)
							return
						}
					}
					if n != want {
						viol = fmt.Sprintf("wave %d: listener %d (registered after %d syncs, cancelled=%v) holds %d notifications, want %d; %d listeners were registered at the peak, %d remain", wi, li, l.from, l.cancelled, n, want, peak, len(live))
						return
					}
					if n > 0 && first.Cid != p.Chain[1+l.from] {
						viol = fmt.Sprintf("wave %d: listener %d: its first notification is not that of the first sync after its registration", wi, li)
						return
					}
				}
			}
			if err := e.S.Shutdown(); err != nil {
				viol = "Close: " + err.Error()
				return
			}
			synctest.Wait()
			for li, l := range all {
				l.mu.Lock()
				closed := l.closed
				l.mu.Unlock()
				if !closed {
					viol = fmt.Sprintf("listener %d: channel not closed after Close (cancelled=%v)", li, l.cancelled)
					return
				}
			}
		})
		res.Fail = viol
		return res
	})
}
