package c14

import (
	"context"
	"fmt"
	"sync"
	"testing"
	"testing/synctest"

	"github.com/ipni/go-libipni/dagsync"
	"pgregory.net/rapid"

	"verif/h23/pbt"
	"verif/h26/world"
)

// A listener that never reads accumulates a backlog of any size: syncs and the other listeners must not notice,
// and when the stalled listener finally drains it holds every notification since its registration, in order.
type backlogCase struct {
	Backlog   int  // syncs performed while the stalled listeners read nothing
	Stalled   int  // listeners that read nothing until the end
	Announce  bool // syncs triggered by announcements rather than explicit calls
	CancelEnd bool // the stalled listeners are cancelled before they drain (else the subscriber is closed first)
}

func TestC14_Backlog(t *testing.T) {
	sizes := []int{3, 60, 300, 1000, 1023, 1024, 1025, 1030, 1100, 1500, 2100}
	if pbt.Tier() == "thorough" {
		sizes = append(sizes, 3000, 4100, 5000, 8200)
	}
	pbt.Run(t, pbt.Config{Prop: "C14", Unit: "TestC14_Backlog", TrackCurrent: true,
		Rule: "1..3 listeners register and then read nothing while 3..2100 (thorough: ..8200) syncs of one publisher complete (explicit or announce-triggered, one new advertisement each), an active listener and the reference listener read along; oracle: every sync call returns and its notification reaches the active and the reference listener before the next sync starts (exact quiescence after each), however large the backlog of the stalled listeners; at the end (cancel, or Close) each stalled listener drains exactly the notifications of all syncs since its registration, in order, and its channel closes. Non-trivial: backlog >= 1000; distinct by case.",
	}, func(t *rapid.T) backlogCase {
		return backlogCase{Backlog: rapid.SampledFrom(sizes).Draw(t, "backlog") + rapid.IntRange(0, 2).Draw(t, "jitter"), Stalled: rapid.IntRange(1, 3).Draw(t, "stalled"),
			Announce: rapid.Bool().Draw(t, "announce"), CancelEnd: rapid.Bool().Draw(t, "cancelend")}
	}, func(c backlogCase) (res pbt.Result) {
		res.NonTrivial = c.Backlog >= 1000
		res.Classes = []string{fmt.Sprintf("backlog>=%d", bucket(c.Backlog)), fmt.Sprintf("announce=%v", c.Announce)}
		var viol string
		defer func() {
			if p := recover(); p != nil {
				if viol == "" {
					viol = fmt.Sprintf("panic: %v", p)
				}
				res.Fail = viol
			}
		}()
		synctest.Test(t, func(t *testing.T) {
			w := world.New()
			defer w.Close()
			e, err := world.NewExec(w, world.Script{K: 1}, false, dagsync.SegmentDepthLimit(-1))
			if err != nil {
				viol = err.Error()
				return
			}
			p := e.Pubs[0]
			ctx := context.Background()
			if _, err := e.S.S.SyncAdChain(ctx, p.Info()); err != nil { // the chain's first advertisement
				viol = "initial sync: " + err.Error()
				return
			}
			synctest.Wait()
			type stalled struct {
				ch     <-chan dagsync.SyncFinished
				cancel context.CancelFunc
			}
			var st []stalled
			for i := 0; i < c.Stalled; i++ {
				ch, cancel := e.S.S.OnSyncFinished()
				st = append(st, stalled{ch, cancel})
			}
			actCh, actCancel := e.S.S.OnSyncFinished()
			defer actCancel()
			var amu sync.Mutex
			var active []dagsync.SyncFinished
			nActive := func() int { amu.Lock(); defer amu.Unlock(); return len(active) }
			actDone := make(chan struct{})
			go func() {
				defer close(actDone)
				for ev := range actCh {
					amu.Lock()
					active = append(active, ev)
					amu.Unlock()
				}
			}()
			synctest.Wait()
			ev0 := e.S.NEvents()
			for i := 0; i < c.Backlog; i++ {
				p.ExtendAds(1)
				head := p.Chain[len(p.Chain)-1]
				done := make(chan error, 1)
				go func() {
					if c.Announce {
						done <- e.S.S.Announce(ctx, head, p.Info())
					} else {
						_, err := e.S.S.SyncAdChain(ctx, p.Info())
						done <- err
					}
				}()
				synctest.Wait()
				select {
				case err := <-done:
					if err != nil {
						viol = fmt.Sprintf("sync %d of %d failed: %v", i, c.Backlog, err)
						return
					}
				default:
					viol = fmt.Sprintf("sync %d has not returned at quiescence: %d listener(s) that read nothing hold %d unread notifications each and delay the sync", i, c.Stalled, i)
					panic("VERIF-NORETURN: " + viol) // the bubble cannot drain with a call stuck; leave the process (the driver replays the case)
				}
				if got := e.S.NEvents() - ev0; got != i+1 {
					viol = fmt.Sprintf("after sync %d the reference listener holds %d notifications, want %d: a listener that reads nothing (backlog %d) delays the others", i, got, i+1, i)
					panic("VERIF-NORETURN: " + viol)
				}
				if n := nActive(); n != i+1 {
					viol = fmt.Sprintf("after sync %d the active listener holds %d notifications, want %d: a listener that reads nothing (backlog %d) delays the others", i, n, i+1, i)
					panic("VERIF-NORETURN: " + viol)
				}
				if got := e.S.Latest(p.ID); got != head {
					viol = fmt.Sprintf("sync %d: latest-sync is not the head", i)
					return
				}
			}
			// the stalled listeners wake up
			if c.CancelEnd {
				for _, s := range st {
					s.cancel()
				}
			} else {
				closed := make(chan error, 1)
				go func() { closed <- e.S.S.Close() }()
				synctest.Wait()
				select {
				case err := <-closed:
					if err != nil {
						viol = "Close: " + err.Error()
						return
					}
				default:
					viol = fmt.Sprintf("Close does not return while %d listener(s) hold %d unread notifications", c.Stalled, c.Backlog)
					panic("VERIF-NORETURN: " + viol)
				}
			}
			synctest.Wait()
			for li, s := range st {
				n := 0
				for {
					synctest.Wait()
					var ev dagsync.SyncFinished
					var ok, got bool
					select {
					case ev, ok = <-s.ch:
						got = true
					default:
					}
					if !got {
						viol = fmt.Sprintf("stalled listener %d: after %d notifications its channel is neither readable nor closed at quiescence (cancelled=%v)", li, n, c.CancelEnd)
						panic("VERIF-NORETURN: " + viol)
					}
					if !ok {
						break
					}
					if ev.Cid != p.Chain[1+n] || ev.Err != nil || ev.Count != 1 {
						viol = fmt.Sprintf("stalled listener %d: notification %d is {cid at position ?, count %d, err %v}, want the sync of position %d", li, n, ev.Count, ev.Err, 1+n)
						return
					}
					n++
				}
				if n != c.Backlog {
					viol = fmt.Sprintf("stalled listener %d drained %d notifications, %d syncs completed since it registered (cancelled=%v)", li, n, c.Backlog, c.CancelEnd)
					return
				}
			}
			if err := e.S.Shutdown(); err != nil {
				viol = "Close: " + err.Error()
			}
			actCancel()
			synctest.Wait()
			<-actDone
			for i, ev := range active {
				if ev.Cid != p.Chain[1+i] {
					viol = fmt.Sprintf("active listener: notification %d out of order", i)
					return
				}
			}
		})
		res.Fail = viol
		return res
	})
}

func bucket(n int) int {
	for _, b := range []int{4096, 2048, 1024, 256, 0} {
		if n >= b {
			return b
		}
	}
	return 0
}
