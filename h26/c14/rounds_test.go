package c14

import (
	"fmt"
	"testing"
	"testing/synctest"


	"verif/h23/pbt"
	"verif/h26/world"
)

// Sequential rounds (world.RunRounds): every round runs one sync to exact quiescence, so a small model
// predicts each round's outcome exactly. This unit judges the notification aspect.
func TestC14_Rounds(t *testing.T) {
	pbt.Run(t, pbt.Config{Prop: "C14", Unit: "TestC14_Rounds", TrackCurrent: true,
		Rule: "1..2 publishers, one subscriber (unsegmented or segments of 1..3, own hook or the library's general hook, MaxAsyncConcurrency unset/1/2, plain or discovery transport), two listeners; 2..8 rounds, each publishing 0..3 ads and then running exactly one operation to exact quiescence: announcement, explicit sync (the publisher named by the AddrInfo's ID or only by the /p2p component of its addresses), resync (WithAdsResync), sync with an explicit older stop CID (WithStopAdCid), announcement whose sender information has only a non-HTTP address or no address, announcement or explicit sync during which the publisher answers 500 for one block still to be fetched. Oracle (reference model of latest-sync per publisher): both listeners receive the same notifications; every sync that completed and set latest-sync produced exactly one, with the head CID, the publisher and the number of blocks handed to the hook in that round; every failed announce-triggered sync exactly one carrying the error and the announced CID; failed explicit syncs and syncs with nothing to do none. Non-trivial: at least one round failed as designed; distinct by case.",
	}, world.GenRounds, func(c world.RoundsCase) (res pbt.Result) {
		var rr world.RoundsResult
		defer func() {
			if p := recover(); p != nil {
				if rr.Events != "" {
					res.Fail = rr.Events + "\ncase: " + c.String()
				} else if rr.Once != "" || rr.Failure != "" {
					// the subscriber could not be closed after a violation of another aspect, which that aspect's own unit reports
					res.Skip = true
				} else {
					res.Fail = fmt.Sprintf("panic: %v\ncase: %s", p, c.String())
				}
			}
		}()
		synctest.Test(t, func(t *testing.T) { world.RunRounds(c, &rr) })
		res.Classes = rr.Classes
		res.NonTrivial = rr.Failed > 0
		if rr.Events != "" {
			res.Fail = rr.Events + "\ncase: " + c.String()
		}
		return res
	})
}
