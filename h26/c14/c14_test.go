package c14

import (
	"context"
	"fmt"
	"sort"
	"strings"
	"sync"
	"testing"
	"testing/synctest"

	"github.com/ipni/go-libipni/dagsync"
	"pgregory.net/rapid"

	"verif/h23/pbt"
	"verif/h26/world"
)

type Case struct {
	Script    world.Script
	Discovery bool
	CloseEnd  bool // close the subscriber as part of the script's end (otherwise listeners are cancelled first)
}

func genCase(t *rapid.T) Case {
	k := rapid.IntRange(1, 3).Draw(t, "k")
	sc := world.Script{K: k}
	n := rapid.IntRange(3, 36).Draw(t, "nsteps")
	ops := []string{"publish", "publish", "announce", "announce", "failannounce", "sync", "hold", "open", "register", "register", "regcancel", "cancel", "read", "read"}
	for i := 0; i < n; i++ {
		st := world.Step{Op: rapid.SampledFrom(ops).Draw(t, "op"), P: rapid.IntRange(0, k-1).Draw(t, "p"), N: rapid.IntRange(1, 3).Draw(t, "n"), L: rapid.IntRange(0, 4).Draw(t, "l")}
		sc.Steps = append(sc.Steps, st)
		if st.Op == "publish" && rapid.IntRange(0, 3).Draw(t, "thenannounce") > 0 {
			sc.Steps = append(sc.Steps, world.Step{Op: rapid.SampledFrom([]string{"announce", "announce", "announce", "failannounce"}).Draw(t, "annkind"), P: st.P})
		}
	}
	return Case{Script: sc, Discovery: rapid.Bool().Draw(t, "discovery"), CloseEnd: rapid.Bool().Draw(t, "closeend")}
}

type evKey struct {
	P     int
	Pos   int
	Count int
	Err   bool
}

func runCase(t *testing.T) func(Case) pbt.Result {
	return func(c Case) (res pbt.Result) {
		const known = false // no C08 exclusions: this oracle does not depend on blocks being reported once only
		var viol string
		kinds := map[string]int{}
		defer func() {
			if p := recover(); p != nil {
				if viol != "" {
					res.Fail = viol
				} else {
					res.Fail = fmt.Sprintf("panic: %v", p)
				}
			}
		}()
		synctest.Test(t, func(t *testing.T) {
			w := world.New()
			defer w.Close()
			e, err := world.NewExec(w, c.Script, c.Discovery, dagsync.SegmentDepthLimit(-1))
			if err != nil {
				viol = "NewSubscriber: " + err.Error()
				return
			}
			type regInfo struct {
				headPos []int
				parked  []bool
			}
			regs := map[int]regInfo{}
			for i, st := range c.Script.Steps {
				nl := len(e.Listeners)
				held := false
				for _, p := range e.Pubs {
					if p.InFlight() > 0 {
						held = true
					}
				}
				if (st.Op == "register" || st.Op == "regcancel" || st.Op == "cancel") && held {
					kinds["listener-change-while-sync-held"]++
				}
				var ri regInfo
				for _, p := range e.Pubs {
					ri.headPos = append(ri.headPos, len(p.Chain)-1)
					// only a request parked at a closed gate is known not to finish before the registration
					ri.parked = append(ri.parked, p.IsHeld() && p.Parked() > 0)
				}
				e.Run(i, st, known)
				if len(e.Listeners) > nl {
					regs[nl] = ri
				}
				if e.Viol != "" {
					break
				}
			}
			// stalled listeners (never granted a read) must not have delayed anything: Finish checks that every call returned
			if !c.CloseEnd {
				for _, l := range e.Listeners {
					if l.Registered && !l.Cancelled {
						e.Run(len(c.Script.Steps), world.Step{Op: "cancel", L: l.Idx}, known)
					}
				}
			}
			e.Finish(true)
			if err := e.S.Shutdown(); err != nil && e.Viol == "" {
				e.Viol = "Close: " + err.Error()
			}
			viol = e.Viol
			if viol != "" {
				return
			}
			// ---- reference sequence
			posOf := func(pi int, s string) int {
				for i, ci := range e.Pubs[pi].Chain {
					if ci.String() == s {
						return i
					}
				}
				return -1
			}
			pidx := map[string]int{}
			for i, p := range e.Pubs {
				pidx[string(p.ID)] = i
			}
			var R []evKey
			for _, ev := range e.S.EventsFrom(0) {
				pi, ok := pidx[string(ev.PeerID)]
				if !ok {
					viol = fmt.Sprintf("notification for unknown publisher %s", ev.PeerID)
					return
				}
				R = append(R, evKey{pi, posOf(pi, ev.Cid.String()), ev.Count, ev.Err != nil})
			}
			// (1) exactly one notification per completed head-updating sync and per failed announce-triggered sync
			for pi, p := range e.Pubs {
				// the publisher's hook calls, in order: the concatenation of the successful syncs' runs
				var hooks []int
				for _, hc := range e.S.Hooks {
					if hc.Peer == p.ID {
						hooks = append(hooks, posOf(pi, hc.Cid.String()))
					}
				}
				lastPos, errs, used := -1, map[int]int{}, 0
				for _, ev := range R {
					if ev.P != pi {
						continue
					}
					if ev.Err {
						errs[ev.Pos]++
						continue
					}
					// this notification's sync: the next Count hook calls, newest to oldest starting at its CID
					if ev.Count < 0 || used+ev.Count > len(hooks) {
						viol = fmt.Sprintf("publisher %d: notification for position %d reports %d blocks, only %d hook calls remain unaccounted; hooks %v", pi, ev.Pos, ev.Count, len(hooks)-used, hooks)
						return
					}
					run := hooks[used : used+ev.Count]
					for j, h := range run {
						if h != ev.Pos-j {
							viol = fmt.Sprintf("publisher %d: notification {position %d, count %d} does not match the hook calls of its sync %v (all hooks %v)", pi, ev.Pos, ev.Count, run, hooks)
							return
						}
					}
					used += ev.Count
					lastPos = ev.Pos
				}
				if used != len(hooks) {
					viol = fmt.Sprintf("publisher %d: %d hook calls, success notifications account for %d: a completed sync produced no notification (or a wrong count); hooks %v", pi, len(hooks), used, hooks)
					return
				}
				if lp := posOf(pi, e.S.Latest(p.ID).String()); lp != lastPos && lastPos >= 0 {
					viol = fmt.Sprintf("publisher %d: latest-sync is at position %d but the last success notification is for position %d", pi, lp, lastPos)
					return
				}
				// every failed announce-triggered sync produced exactly one error notification, for an announced head:
				// each consumed fault fails exactly one sync; explicit syncs that failed report to their caller instead
				nFaults, nExplicitFailed, nErrs := 0, 0, 0
				for _, rq := range w.Requests() {
					if rq.Pub == pi && rq.Kind == "block" && rq.Fault != "" {
						nFaults++
					}
				}
				for _, o := range e.Ops {
					if o.Kind == "sync" && o.P == pi && o.Done() && o.Err != nil {
						nExplicitFailed++
					}
				}
				announced := map[int]bool{}
				for _, h := range e.Announced[pi] {
					announced[posOf(pi, h.String())] = true
				}
				for pos, n := range errs {
					nErrs += n
					if !announced[pos] {
						viol = fmt.Sprintf("publisher %d: error notification for position %d, which was never announced", pi, pos)
						return
					}
				}
				if nErrs != nFaults-nExplicitFailed {
					viol = fmt.Sprintf("publisher %d: %d syncs failed (%d of them explicit syncs, which report to their caller), but %d error notifications were delivered: %v", pi, nFaults, nExplicitFailed, nErrs, errs)
					return
				}
			}
			// (2)+(4) every listener: closed channel, a contiguous window of the reference sequence, within sound bounds
			for _, l := range e.Listeners {
				if !l.Registered {
					continue
				}
				evs, closed := l.Snapshot()
				if !closed {
					viol = fmt.Sprintf("listener %d: channel was not closed (cancelled: %v, subscriber closed: yes)", l.Idx, l.Cancelled)
					return
				}
				var L []evKey
				for _, ev := range evs {
					pi := pidx[string(ev.PeerID)]
					L = append(L, evKey{pi, posOf(pi, ev.Cid.String()), ev.Count, ev.Err != nil})
				}
				ri := regs[l.Idx]
				bEnd := len(R)
				if l.Cancelled {
					bEnd = l.BLo
				}
				// required: events distributed before the cancellation was requested that certainly belong to
				// syncs that started after the registration returned (their head did not exist before), or to
				// the sync that was parked at a gate at registration
				minReq, maxReq := -1, -1
				firstAfter := map[int]bool{}
				for i := l.ALo; i < bEnd && i < len(R); i++ {
					ev := R[i]
					req := ev.Pos > ri.headPos[ev.P]
					if ri.parked[ev.P] && !firstAfter[ev.P] {
						firstAfter[ev.P] = true
						req = true
					}
					if req {
						if minReq < 0 {
							minReq = i
						}
						maxReq = i
					}
				}
				ok := false
				var why string
				for a := l.ALo; a+len(L) <= len(R); a++ {
					match := true
					for i := range L {
						if R[a+i] != L[i] {
							match = false
							break
						}
					}
					if !match {
						continue
					}
					b := a + len(L)
					switch {
					case minReq >= 0 && (a > minReq || b <= maxReq):
						why = fmt.Sprintf("window [%d,%d) misses required notifications %d..%d", a, b, minReq, maxReq)
					case !l.Cancelled && b != len(R):
						why = fmt.Sprintf("never cancelled but its window [%d,%d) ends before the last notification %d", a, b, len(R))
					case l.AHi >= 0 && a > l.AHi:
						why = fmt.Sprintf("window starts at %d, but only %d notifications existed when the registration had taken effect", a, l.AHi)
					case l.Cancelled && l.BHi >= 0 && b > l.BHi:
						why = fmt.Sprintf("window [%d,%d) goes beyond the %d notifications that existed when the cancellation had taken effect: the listener kept receiving after cancel", a, b, l.BHi)
					case l.Cancelled && len(L) > 0 && b < l.BLo && a <= l.BLo:
						why = fmt.Sprintf("window [%d,%d) ends before notification %d which was delivered before cancel was called", a, b, l.BLo)
					default:
						ok = true
					}
					if ok {
						break
					}
				}
				if len(L) == 0 && !ok {
					// an empty window matches anywhere; check the requirement only
					if minReq >= 0 {
						why = fmt.Sprintf("received nothing but notifications %d..%d were required", minReq, maxReq)
					} else if !l.Cancelled && l.ALo < len(R) {
						why = fmt.Sprintf("never cancelled, received nothing, but notifications %d..%d were distributed after it registered", l.ALo, len(R))
					} else {
						ok = true
					}
				}
				if !ok {
					if why == "" {
						why = "its notifications are not a contiguous part of the reference listener's sequence (lost, duplicated or reordered)"
					}
					viol = fmt.Sprintf("listener %d (registered at step %d with %d reference notifications before it, cancel at step %d): %s\n listener: %v\n reference: %v", l.Idx, l.RegStep, l.ALo, l.CanStep, why, L, R)
					return
				}
			}
			if len(R) > 0 && len(e.Listeners) > 0 {
				kinds["listeners-with-events"]++
			}
		})
		if viol != "" {
			res.Fail = viol + "\nscript: " + render(c)
		}
		var ks []string
		for k := range kinds {
			ks = append(ks, k)
		}
		sort.Strings(ks)
		res.Classes = ks
		res.NonTrivial = kinds["listener-change-while-sync-held"] > 0 && kinds["listeners-with-events"] > 0
		return res
	}
}

func render(c Case) string {
	var sb strings.Builder
	fmt.Fprintf(&sb, "k=%d discovery=%v closeEnd=%v:", c.Script.K, c.Discovery, c.CloseEnd)
	for _, s := range c.Script.Steps {
		switch s.Op {
		case "publish":
			fmt.Fprintf(&sb, " publish(p%d,+%d)", s.P, s.N)
		case "register", "regcancel":
			fmt.Fprintf(&sb, " %s", s.Op)
		case "cancel":
			fmt.Fprintf(&sb, " cancel(l%d)", s.L)
		case "read":
			fmt.Fprintf(&sb, " read(l%d,%d)", s.L, s.N)
		default:
			fmt.Fprintf(&sb, " %s(p%d)", s.Op, s.P)
		}
	}
	return sb.String()
}

func TestC14_Scripts(t *testing.T) {
	pbt.Run(t, pbt.Config{Prop: "C14", Unit: "TestC14_Scripts", TrackCurrent: true,
		Rule: "scripts of 3..36 steps over 1..3 publishers, one real subscriber and 0..5 listeners: register, register-and-cancel with no scheduling point in between, cancel, grant a listener 1..3 reads (listeners that are never granted a read stall until the end), publish, announce, announce a head whose sync fails, explicit sync, hold / open a publisher's gate; at the end all gates open, listeners are cancelled or the subscriber is closed, and everything is judged at exact quiescence: the reference listener (registered first, never cancelled) holds exactly one notification per completed head-updating sync (in order, counts adding up to the hook calls) and per failed announce-triggered sync; every listener's notifications are a contiguous window of the reference sequence that contains every notification of a sync whose head did not exist before it registered (or that was parked at a gate then) and that was delivered before its cancel was called, ends at the last notification if never cancelled, stays within the exact bounds when registration / cancellation happened with no gate closed; every channel is closed; stalled listeners delayed no call. Non-trivial: a registration or cancellation happened while a sync was held and notifications exist; distinct by case.",
		Assumptions: []string{"bounds taken while a gate is closed are sampled lower bounds only (always sound); exact upper bounds only when no gate is closed", "the known-finding exclusions of C08 apply to the sync/announce steps"},
	}, genCase, runCase(t))
}

// ---------------------------------------------------------------- registration / cancellation stress

type stressCase struct {
	Goroutines int
	Iters      int
	Syncs      int // announce-triggered syncs running meanwhile
	ReadFirst  bool
}

func TestC14_RegisterCancelStress(t *testing.T) {
	pbt.Run(t, pbt.Config{Prop: "C14", Unit: "TestC14_RegisterCancelStress", TrackCurrent: true,
		Rule: "2..8 goroutines each register a listener and cancel it at once, 5..60 times, racing with each other and with 0..6 announce-triggered syncs (the goroutines run in parallel inside the bubble; the scheduler picks the interleaving); at exact quiescence every cancelled listener's channel must be closed, and a sync performed afterwards must reach none of them and reach the reference listener exactly once. Non-trivial: >= 4 goroutines or syncs running meanwhile; distinct by case.",
		Assumptions: []string{"interleavings are sampled by the Go scheduler"},
	}, func(t *rapid.T) stressCase {
		return stressCase{Goroutines: rapid.IntRange(2, 8).Draw(t, "g"), Iters: rapid.IntRange(5, 60).Draw(t, "iters"), Syncs: rapid.IntRange(0, 6).Draw(t, "syncs"), ReadFirst: rapid.Bool().Draw(t, "readfirst")}
	}, func(c stressCase) (res pbt.Result) {
		res.NonTrivial = c.Goroutines >= 4 || c.Syncs > 0
		var viol string
		defer func() {
			if p := recover(); p != nil {
				if viol == "" {
					viol = fmt.Sprintf("panic: %v", p)
				}
				res.Fail = viol
			}
		}()
		synctest.Test(t, func(t *testing.T) {
			w := world.New()
			defer w.Close()
			e, err := world.NewExec(w, world.Script{K: 1}, false, dagsync.SegmentDepthLimit(-1))
			if err != nil {
				viol = err.Error()
				return
			}
			p := e.Pubs[0]
			type lst struct {
				ch  <-chan dagsync.SyncFinished
				got int
			}
			var mu sync.Mutex
			var all []*lst
			var wg sync.WaitGroup
			for g := 0; g < c.Goroutines; g++ {
				wg.Add(1)
				go func() {
					defer wg.Done()
					for i := 0; i < c.Iters; i++ {
						ch, cancel := e.S.S.OnSyncFinished()
						cancel()
						mu.Lock()
						all = append(all, &lst{ch: ch})
						mu.Unlock()
					}
				}()
			}
			for i := 0; i < c.Syncs; i++ {
				p.ExtendAds(1)
				_ = e.S.S.Announce(context.Background(), p.Chain[len(p.Chain)-1], p.Info())
			}
			wg.Wait()
			synctest.Wait()
			// drain what was queued; every channel must be closed now
			for i, l := range all {
				closed := false
				for !closed {
					synctest.Wait() // the queue behind the channel hands over the next item (or closes) in its own goroutine
					select {
					case _, ok := <-l.ch:
						if !ok {
							closed = true
						} else {
							l.got++
						}
					default:
						viol = fmt.Sprintf("listener %d of %d was cancelled but its channel is still open at quiescence", i, len(all))
						return
					}
				}
			}
			// a later sync reaches the reference listener once and none of the cancelled ones (their channels are closed; a send would panic)
			ev0 := e.S.NEvents()
			p.ExtendAds(1)
			if _, err := e.S.S.SyncAdChain(context.Background(), p.Info()); err != nil {
				viol = "sync after the stress: " + err.Error()
				return
			}
			synctest.Wait()
			if n := e.S.NEvents() - ev0; n != 1 {
				viol = fmt.Sprintf("the sync after the stress produced %d notifications at the reference listener, want 1", n)
				return
			}
			if err := e.S.Shutdown(); err != nil {
				viol = "Close: " + err.Error()
			}
		})
		res.Fail = viol
		return res
	})
}

