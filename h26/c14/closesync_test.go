package c14

import (
	"context"
	"fmt"
	"strings"
	"sync"
	"testing"
	"testing/synctest"

	"github.com/ipfs/go-cid"
	"github.com/ipni/go-libipni/dagsync"
	"github.com/multiformats/go-multihash"
	"pgregory.net/rapid"

	"verif/h23/pbt"
	"verif/h26/world"
)

// Explicit syncs that are running when Close is called are allowed to finish: each of them updates its
// publisher's latest-sync, so each must produce its notification, and every listener must receive it before its
// channel is closed.

type closeSyncCase struct {
	K         int // publishers, one explicit sync each
	N         int // advertisements to sync per publisher
	Listeners int
	Closers   int
	Seg       int64 // segment depth limit of the subscriber (-1 / 0: none): the count covers all segments
}

func TestC14_CloseDuringSync(t *testing.T) {
	pbt.Run(t, pbt.Config{Prop: "C14", Unit: "TestC14_CloseDuringSync", TrackCurrent: true,
		Rule: "1..3 publishers with 1..5 new advertisements, one explicit sync each (unsegmented or in segments of 1 or 2) parked at its first block request; 1..3 listeners reading continuously; Close is called 1..2 times while the syncs are parked, then every gate opens; oracle at exact quiescence: every sync returns its head without error; the reference listener and every listener hold exactly one success notification per publisher with that head and the number of blocks synced, and then see their channel closed; Close returns nil. Non-trivial: Close was in progress (new explicit syncs were refused) while the syncs were still parked; distinct by case.",
	}, func(t *rapid.T) closeSyncCase {
		return closeSyncCase{K: rapid.IntRange(1, 3).Draw(t, "k"), N: rapid.IntRange(1, 5).Draw(t, "n"), Listeners: rapid.IntRange(1, 3).Draw(t, "listeners"), Closers: rapid.IntRange(1, 2).Draw(t, "closers"), Seg: rapid.SampledFrom([]int64{-1, 1, 2}).Draw(t, "seg")}
	}, func(c closeSyncCase) (res pbt.Result) {
		var viol string
		defer func() {
			if p := recover(); p != nil {
				if viol == "" {
					viol = fmt.Sprintf("panic: %v", p)
				}
				res.Fail = viol
			}
		}()
		synctest.Test(t, func(t *testing.T) {
			w := world.New()
			defer w.Close()
			seg := c.Seg
			if seg == 0 {
				seg = -1
			}
			e, err := world.NewExec(w, world.Script{K: c.K}, false, dagsync.SegmentDepthLimit(seg))
			if err != nil {
				viol = err.Error()
				return
			}
			ctx := context.Background()
			type lst struct {
				mu     sync.Mutex
				evs    []dagsync.SyncFinished
				closed bool
			}
			var ls []*lst
			for i := 0; i < c.Listeners; i++ {
				ch, _ := e.S.S.OnSyncFinished()
				l := &lst{}
				ls = append(ls, l)
				go func() {
					for ev := range ch {
						l.mu.Lock()
						l.evs = append(l.evs, ev)
						l.mu.Unlock()
					}
					l.mu.Lock()
					l.closed = true
					l.mu.Unlock()
				}()
			}
			type out struct {
				c   cid.Cid
				err error
			}
			outs := make([]chan out, c.K)
			for i, p := range e.Pubs {
				p.ExtendAds(c.N - 1) // NewExec published one advertisement already
				p.Hold()
				outs[i] = make(chan out, 1)
				info := p.Info()
				go func(i int) {
					got, err := e.S.S.SyncAdChain(ctx, info)
					outs[i] <- out{got, err}
				}(i)
			}
			parkedAll := func() bool {
				for _, p := range e.Pubs {
					if p.Parked() == 0 {
						return false
					}
				}
				return true
			}
			w.SettleUntilCap(parkedAll, 50000)
			if !parkedAll() {
				res.Skip = true // overloaded machine: decides nothing
				for _, p := range e.Pubs {
					p.Open()
				}
				_ = e.S.Shutdown()
				return
			}
			closeErr := make(chan error, c.Closers)
			for i := 0; i < c.Closers; i++ {
				go func() { closeErr <- e.S.S.Close() }()
			}
			w.SettleUntil(nil)
			// is Close in progress? then a new explicit sync is refused at once
			mh, _ := multihash.Sum([]byte("c14-closesync-probe"), multihash.SHA2_256, -1)
			probe := make(chan error, 1)
			go func() { probe <- e.S.S.SyncEntries(ctx, e.Pubs[0].Info(), cid.NewCidV1(cid.DagJSON, mh)) }()
			w.SettleUntil(nil)
			for _, p := range e.Pubs {
				p.Open()
			}
			allBack := func() bool {
				for _, o := range outs {
					if len(o) == 0 {
						return false
					}
				}
				return len(closeErr) == c.Closers && len(probe) == 1
			}
			w.SettleUntilCap(allBack, 50000)
			if !allBack() {
				panic("VERIF-NORETURN: a sync or Close call has not returned 10 s after every gate was opened")
			}
			synctest.Wait()
			if perr := <-probe; perr != nil && strings.Contains(perr.Error(), "shutdown") {
				res.NonTrivial = true
				res.Classes = append(res.Classes, "close-in-progress-while-syncs-parked")
			} else {
				res.Classes = append(res.Classes, "close-not-yet-in-progress")
			}
			for i := 0; i < c.Closers; i++ {
				if err := <-closeErr; err != nil {
					viol = "Close: " + err.Error()
					return
				}
			}
			heads := map[string]int{}
			for i, p := range e.Pubs {
				o := <-outs[i]
				head := p.Chain[len(p.Chain)-1]
				if o.err != nil || o.c != head {
					viol = fmt.Sprintf("explicit sync of publisher %d, running when Close was called, returned %s, %v (want its head, nil)", i, o.c, o.err)
					return
				}
				heads[head.String()] = i
			}
			check := func(name string, evs []dagsync.SyncFinished, closed bool) string {
				seen := map[int]bool{}
				for _, ev := range evs {
					i, ok := heads[ev.Cid.String()]
					if !ok || ev.Err != nil || ev.PeerID != e.Pubs[i].ID || ev.Count != c.N || seen[i] {
						return fmt.Sprintf("%s: unexpected notification {cid %s, count %d, err %v}", name, ev.Cid, ev.Count, ev.Err)
					}
					seen[i] = true
				}
				if len(seen) != c.K {
					return fmt.Sprintf("%s holds %d notifications for %d syncs that completed (each moved its publisher's latest-sync to the head) while Close was waiting for them: a completed sync produced no notification", name, len(seen), c.K)
				}
				if !closed {
					return fmt.Sprintf("%s: the channel is not closed after Close returned", name)
				}
				return ""
			}
			if msg := check("the reference listener", e.S.EventsFrom(0), true); msg != "" {
				viol = msg
				return
			}
			for li, l := range ls {
				l.mu.Lock()
				evs, closed := append([]dagsync.SyncFinished(nil), l.evs...), l.closed
				l.mu.Unlock()
				if msg := check(fmt.Sprintf("listener %d", li), evs, closed); msg != "" {
					viol = msg
					return
				}
			}
			if err := e.S.Shutdown(); err != nil {
				viol = "Close: " + err.Error()
			}
		})
		res.Fail = viol
		return res
	})
}
