package c14

import (
	"context"
	"fmt"
	"sync"
	"testing"
	"testing/synctest"

	"github.com/ipni/go-libipni/dagsync"
	"pgregory.net/rapid"

	"verif/h23/pbt"
	"verif/h26/world"
)

// Syncs of one publisher issued back to back from several goroutines (the head advances between them): each
// waits for the previous one at the publisher's lock and starts the instant it is released. Notifications must
// come in the order in which the syncs completed: positions strictly increasing, counts adding up.

type b2bCase struct {
	Workers int
	Rounds  int
}

func TestC14_BackToBack(t *testing.T) {
	pbt.Run(t, pbt.Config{Prop: "C14", Unit: "TestC14_BackToBack", TrackCurrent: true,
		Rule: "2..6 goroutines each publish one advertisement and call SyncAdChain for the same publisher 10..60 times, all at once (the goroutines run in parallel inside the bubble; the scheduler picks the interleaving); oracle at exact quiescence: the reference listener's success notifications for the publisher have strictly increasing chain positions, each count equals the distance to the previous one, the last one is latest-sync, and every advertisement was reported to the hook exactly once. Non-trivial: always; distinct by case.",
		Assumptions: []string{"interleavings are sampled by the Go scheduler"},
	}, func(t *rapid.T) b2bCase {
		return b2bCase{Workers: rapid.IntRange(2, 6).Draw(t, "workers"), Rounds: rapid.IntRange(10, 60).Draw(t, "rounds")}
	}, func(c b2bCase) (res pbt.Result) {
		res.NonTrivial = true
		var viol string
		defer func() {
			if p := recover(); p != nil {
				if viol == "" {
					viol = fmt.Sprintf("panic: %v", p)
				}
				res.Fail = viol
			}
		}()
		synctest.Test(t, func(t *testing.T) {
			w := world.New()
			defer w.Close()
			e, err := world.NewExec(w, world.Script{K: 1}, false, dagsync.SegmentDepthLimit(-1))
			if err != nil {
				viol = err.Error()
				return
			}
			p := e.Pubs[0]
			ctx := context.Background()
			var pmu sync.Mutex
			var wg sync.WaitGroup
			errs := make(chan error, c.Workers*c.Rounds)
			for g := 0; g < c.Workers; g++ {
				wg.Add(1)
				go func() {
					defer wg.Done()
					for r := 0; r < c.Rounds; r++ {
						pmu.Lock()
						p.ExtendAds(1)
						pmu.Unlock()
						if _, err := e.S.S.SyncAdChain(ctx, p.Info()); err != nil {
							errs <- err
							return
						}
					}
				}()
			}
			wg.Wait()
			synctest.Wait()
			select {
			case err := <-errs:
				viol = "SyncAdChain: " + err.Error()
				return
			default:
			}
			pos := map[string]int{}
			for i, ci := range p.Chain {
				pos[ci.String()] = i
			}
			last := -1
			for i, ev := range e.S.EventsFrom(0) {
				if ev.Err != nil {
					viol = fmt.Sprintf("notification %d carries an error: %v", i, ev.Err)
					return
				}
				at := pos[ev.Cid.String()]
				if at <= last {
					viol = fmt.Sprintf("notification %d is for chain position %d, the one before it for position %d: notifications of one publisher do not come in the order in which its syncs completed", i, at, last)
					return
				}
				if ev.Count != at-last {
					viol = fmt.Sprintf("notification %d for position %d reports %d blocks, %d were synced since position %d", i, at, ev.Count, at-last, last)
					return
				}
				last = at
			}
			if l := pos[e.S.Latest(p.ID).String()]; l != last || last != len(p.Chain)-1 {
				viol = fmt.Sprintf("latest-sync is at position %d, the last notification at %d, the head at %d", l, last, len(p.Chain)-1)
				return
			}
			count := map[int]int{}
			for _, hc := range e.S.Hooks {
				count[pos[hc.Cid.String()]]++
			}
			for i := range p.Chain {
				if count[i] != 1 {
					viol = fmt.Sprintf("advertisement %d was reported %d times", i, count[i])
					return
				}
			}
			if err := e.S.Shutdown(); err != nil {
				viol = "Close: " + err.Error()
			}
		})
		res.Fail = viol
		return res
	})
}
