package c14

import (
	"context"
	"fmt"
	"runtime"
	"sync"
	"sync/atomic"
	"testing"
	"testing/synctest"

	"github.com/ipni/go-libipni/dagsync"
	"pgregory.net/rapid"

	"verif/h23/pbt"
	"verif/h26/world"
)

// Several callers sync a publisher the subscriber has no handler for (first contact, or after RemoveHandler) at
// the same instant. However many callers there are, the new advertisements are synced by one of them: one
// notification, each block reported once, never two block requests in flight.

type firstContactCase struct {
	Workers int
	Rounds  int
	New     int // advertisements published before every round
}

func TestC14_FirstContact(t *testing.T) {
	pbt.Run(t, pbt.Config{Prop: "C14", Unit: "TestC14_FirstContact", TrackCurrent: true,
		Rule: "one publisher; 100..300 rounds: 1..2 advertisements are published, the publisher's handler is removed (RemoveHandler; in the first round none exists yet), and 2..4 goroutines that meet at a spin barrier call SyncAdChain for it at the same instant (they run in parallel inside the bubble; the scheduler picks the interleaving); oracle after every round at exact quiescence: every call returned the head, exactly one notification was delivered (for the head, counting exactly the new advertisements), every new advertisement was handed to the hook exactly once, and never more than one block request of the publisher was in flight. Non-trivial: always; distinct by case.",
		Assumptions: []string{"interleavings are sampled by the Go scheduler"},
	}, func(t *rapid.T) firstContactCase {
		return firstContactCase{Workers: rapid.IntRange(2, 4).Draw(t, "workers"), Rounds: rapid.IntRange(100, 300).Draw(t, "rounds"), New: rapid.IntRange(1, 2).Draw(t, "new")}
	}, func(c firstContactCase) (res pbt.Result) {
		res.NonTrivial = true
		var viol string
		defer func() {
			if p := recover(); p != nil {
				if viol == "" {
					viol = fmt.Sprintf("panic: %v", p)
				}
				res.Fail = fmt.Sprintf("%s\ncase: %+v", viol, c)
			}
		}()
		synctest.Test(t, func(t *testing.T) {
			w := world.New()
			defer w.Close()
			p := w.AddPublisher(0, false, "")
			s, err := world.NewSub(w, false, dagsync.SegmentDepthLimit(-1))
			if err != nil {
				viol = err.Error()
				return
			}
			ctx := context.Background()
			for r := 0; r < c.Rounds; r++ {
				p.ExtendAds(c.New)
				head := p.Chain[len(p.Chain)-1]
				if r > 0 {
					s.S.RemoveHandler(p.ID)
				}
				ev0, hk0 := s.NEvents(), s.NHooks()
				var ready atomic.Int32 // spin barrier: all callers enter the library within nanoseconds of each other
				var wg sync.WaitGroup
				errs := make(chan string, c.Workers)
				for g := 0; g < c.Workers; g++ {
					wg.Add(1)
					go func() {
						defer wg.Done()
						info := p.Info()
						ready.Add(1)
						for ready.Load() < int32(c.Workers) {
							runtime.Gosched()
						}
						got, err := s.S.SyncAdChain(ctx, info)
						if err != nil {
							errs <- "SyncAdChain: " + err.Error()
						} else if got != head {
							errs <- fmt.Sprintf("SyncAdChain returned %s, the head is %s", got, head)
						}
					}()
				}
				wg.Wait()
				synctest.Wait()
				select {
				case e := <-errs:
					viol = fmt.Sprintf("round %d: %s", r, e)
					return
				default:
				}
				evs := s.EventsFrom(ev0)
				hooks := s.HookCids(hk0)
				if len(evs) != 1 || evs[0].Err != nil || evs[0].Cid != head || evs[0].Count != c.New {
					viol = fmt.Sprintf("round %d: %d callers synced %d new advertisement(s) of a publisher without a handler at the same instant: %d notifications %+v, expected exactly one for the head with count %d (hook calls: %d)", r, c.Workers, c.New, len(evs), evs, c.New, len(hooks))
					return
				}
				if len(hooks) != c.New {
					viol = fmt.Sprintf("round %d: %d hook calls for %d new advertisement(s): %v", r, len(hooks), c.New, hooks)
					return
				}
				if p.MaxInFlt > 1 {
					viol = fmt.Sprintf("round %d: %d block requests of the publisher were in flight at once", r, p.MaxInFlt)
					return
				}
			}
			if err := s.Shutdown(); err != nil {
				viol = "Close: " + err.Error()
			}
		})
		res.Fail = viol
		if viol != "" {
			res.Fail = fmt.Sprintf("%s\ncase: %+v", viol, c)
		}
		return res
	})
}
