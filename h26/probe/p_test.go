package probe

import (
	"context"
	"fmt"
	"testing"
	"testing/synctest"

	"github.com/libp2p/go-libp2p/core/peer"
	"verif/h26/world"
)

func TestNoAddr(t *testing.T) {
	synctest.Test(t, func(t *testing.T) {
		w := world.New()
		defer w.Close()
		p := w.AddPublisher(0, false, "")
		p.ExtendAds(2)
		s, err := world.NewSub(w, true)
		if err != nil {
			t.Fatal(err)
		}
		head := p.Chain[1]
		err = s.S.Announce(context.Background(), head, peer.AddrInfo{ID: p.ID}) // no addresses, publisher never seen
		synctest.Wait()
		fmt.Println("announce without addrs: err", err, "events", s.NEvents(), "latest", s.Latest(p.ID))
		err = s.S.Announce(context.Background(), head, p.Info()) // same CID again, now with addresses
		synctest.Wait()
		fmt.Println("re-announce with addrs: err", err, "events", s.NEvents(), "latest==head", s.Latest(p.ID) == head, "requests", len(w.Requests()))
		_ = s.Shutdown()
	})
}
