package c06

import (
	"context"
	"errors"
	"fmt"
	"sort"
	"strings"
	"sync"
	"testing"
	"testing/synctest"
	"time"

	"github.com/ipni/go-libipni/find/model"
	"github.com/ipni/go-libipni/pcache"
	"github.com/libp2p/go-libp2p/core/peer"
	"github.com/multiformats/go-multiaddr"
	"pgregory.net/rapid"

	"verif/h23/pbt"
)

// ---------------------------------------------------------------- script

type step struct {
	Op  string // set | del | failnext | refresh | refreshcancel | refreshconc | refreshconccancel | get | list | advance
	Src int
	Pid int
	T   int // record time (seconds after the epoch base), -1 = no timestamp
	D   int // advance: seconds
}

type Case struct {
	NSrc    int
	NPid    int
	TTL     int // seconds
	Preload bool
	Steps   []step
}

func genCase(t *rapid.T) Case {
	c := Case{NSrc: rapid.IntRange(1, 3).Draw(t, "nsrc"), TTL: rapid.SampledFrom([]int{1, 60}).Draw(t, "ttl"), Preload: rapid.Bool().Draw(t, "preload")}
	c.NPid = rapid.OneOf(rapid.IntRange(2, 6), rapid.IntRange(2, 40)).Draw(t, "npid")
	n := rapid.IntRange(5, 40).Draw(t, "nsteps")
	ops := []string{"set", "set", "set", "set", "del", "failnext", "refresh", "refresh", "refresh", "refreshcancel", "refreshdeadline", "refreshconc", "refreshconccancel", "refreshduringmiss", "get", "get", "get", "list", "advance", "advance"}
	for i := 0; i < n; i++ {
		s := step{Op: rapid.SampledFrom(ops).Draw(t, "op")}
		s.Src = rapid.IntRange(0, c.NSrc-1).Draw(t, "src")
		s.Pid = rapid.IntRange(0, c.NPid-1).Draw(t, "pid")
		s.T = rapid.OneOf(rapid.Just(-1), rapid.IntRange(0, 8)).Draw(t, "t")
		if s.Op == "set" && rapid.IntRange(0, 5).Draw(t, "bulk") == 0 {
			s.Op = "setmany" // many providers at once, to cross the merge threshold
		}
		switch rapid.IntRange(0, 3).Draw(t, "adv") {
		case 0:
			s.D = c.TTL / 2
		case 1:
			s.D = c.TTL
		case 2:
			s.D = 2*c.TTL + 1
		default:
			s.D = 1
		}
		if s.D == 0 {
			s.D = 1
		}
		c.Steps = append(c.Steps, s)
	}
	return c
}

// ---------------------------------------------------------------- fake sources

var base = time.Date(2020, 1, 1, 0, 0, 0, 0, time.UTC)

type rec struct {
	Ver int
	T   int
}

var pids []peer.ID

func init() {
	for i := 0; i < 200; i++ {
		// deterministic identity-free peer IDs (sha2-256 multihash of a counter)
		b := []byte{0x12, 0x20}
		for j := 0; j < 32; j++ {
			b = append(b, byte(i*7+j*13+1))
		}
		pids = append(pids, peer.ID(b))
	}
}

func mkInfo(pid int, r rec) *model.ProviderInfo {
	a, _ := multiaddr.NewMultiaddr(fmt.Sprintf("/ip4/8.8.%d.%d/tcp/%d", pid, r.Ver%250, 1000+r.Ver))
	pi := &model.ProviderInfo{AddrInfo: peer.AddrInfo{ID: pids[pid], Addrs: []multiaddr.Multiaddr{a}}, LastError: fmt.Sprintf("v%d", r.Ver)}
	if r.T >= 0 {
		pi.LastAdvertisementTime = base.Add(time.Duration(r.T) * time.Second).Format(time.RFC3339)
	}
	return pi
}

type source struct {
	idx      int
	mu       sync.Mutex
	content  map[int]rec
	failNext bool
	// hooks for one call
	cancelIn  context.CancelFunc // FetchAll cancels the caller's context and returns its error
	stallIn   bool               // FetchAll waits until the caller's context is done (its deadline passes) and returns its error
	parkIn    chan struct{}      // FetchAll waits here first
	parkedSig chan struct{}
	parkFetch, parkFetchSig chan struct{} // Fetch waits here first
	fetchAll  int
	fetch     int
	bgCalls   int // FetchAll calls answered for an uncancellable context
	log       *[]delivery // every delivery of the current operation
}

type delivery struct {
	Src int
	Pid int
	R   rec
	Bg  bool // handed out to a call whose context can never be cancelled (the second of two concurrent refreshes)
}

func (s *source) String() string { return fmt.Sprintf("src%d", s.idx) }

func (s *source) FetchAll(ctx context.Context) ([]*model.ProviderInfo, error) {
	s.mu.Lock()
	s.fetchAll++
	park, sig := s.parkIn, s.parkedSig
	s.parkIn, s.parkedSig = nil, nil
	s.mu.Unlock()
	if park != nil {
		close(sig)
		<-park
	}
	s.mu.Lock()
	defer s.mu.Unlock()
	if s.stallIn {
		s.stallIn = false
		s.mu.Unlock()
		<-ctx.Done()
		s.mu.Lock()
		return nil, ctx.Err()
	}
	if s.cancelIn != nil {
		s.cancelIn()
		s.cancelIn = nil
		return nil, ctx.Err()
	}
	if s.failNext {
		s.failNext = false
		s.bgCalls += b2i(ctx.Done() == nil)
		return nil, errors.New("source unavailable")
	}
	var out []*model.ProviderInfo
	keys := make([]int, 0, len(s.content))
	for p := range s.content {
		keys = append(keys, p)
	}
	sort.Ints(keys)
	for _, p := range keys {
		out = append(out, mkInfo(p, s.content[p]))
		if s.log != nil {
			*s.log = append(*s.log, delivery{s.idx, p, s.content[p], ctx.Done() == nil})
		}
	}
	s.bgCalls += b2i(ctx.Done() == nil)
	return out, nil
}

func (s *source) Fetch(ctx context.Context, pid peer.ID) (*model.ProviderInfo, error) {
	s.mu.Lock()
	park, sig := s.parkFetch, s.parkFetchSig
	s.parkFetch, s.parkFetchSig = nil, nil
	s.mu.Unlock()
	if park != nil {
		close(sig)
		select {
		case <-park:
		case <-ctx.Done():
			return nil, ctx.Err() // the lookup's caller gave up while this source was answering
		}
	}
	s.mu.Lock()
	defer s.mu.Unlock()
	s.fetch++
	if s.failNext {
		s.failNext = false
		return nil, errors.New("source unavailable")
	}
	for p, r := range s.content {
		if pids[p] == pid {
			if s.log != nil {
				*s.log = append(*s.log, delivery{s.idx, p, r, false})
			}
			return mkInfo(p, r), nil
		}
	}
	return nil, nil
}

// ---------------------------------------------------------------- reference model (written from the statement)

type pm struct {
	delivered map[int]int // version -> record time, since the provider was last evicted
	lo, hi    int         // newest time among completed / all deliveries; -2 = none
	visible   bool        // must be returned by Get and List
	uncertain bool        // delivered only by operations that did not complete: nothing is asserted about presence
	neg       bool        // remembered as absent: Get returns nil without asking the sources
	negSince  int64
	missLo    int64 // earliest / latest instant the time-to-live countdown can have started; -1 = not counting
	missHi    int64
	maybe     bool // between the two bounds: either outcome, observed through List and adopted
	gone      bool // evicted by a refresh: Get may answer nil from the marker or fetch again
}

func newPM() *pm { return &pm{delivered: map[int]int{}, lo: -2, hi: -2, missLo: -1, missHi: -1} }

func (m *pm) deliver(r rec, completed bool) {
	m.delivered[r.Ver] = r.T
	if r.T > m.hi {
		m.hi = r.T
	}
	if completed && r.T > m.lo {
		m.lo = r.T
	}
}

func (m *pm) evict() {
	m.delivered = map[int]int{}
	m.lo, m.hi = -2, -2
	m.visible, m.maybe, m.uncertain, m.neg = false, false, false, false
	m.missLo, m.missHi = -1, -1
	m.gone = true
}

// checkRecord: a returned record must be one really delivered for the provider, with a time within [lo, hi].
func (m *pm) checkRecord(pid int, pi *model.ProviderInfo) string {
	if pi.AddrInfo.ID != pids[pid] {
		return fmt.Sprintf("record for provider %d carries peer ID %s", pid, pi.AddrInfo.ID)
	}
	var ver int
	if _, err := fmt.Sscanf(pi.LastError, "v%d", &ver); err != nil {
		return fmt.Sprintf("record for provider %d has tag %q", pid, pi.LastError)
	}
	t, ok := m.delivered[ver]
	if !ok {
		return fmt.Sprintf("provider %d: returned record v%d was never delivered by a source (since it was last evicted); delivered: %v", pid, ver, m.delivered)
	}
	want := ""
	if t >= 0 {
		want = base.Add(time.Duration(t) * time.Second).Format(time.RFC3339)
	}
	if pi.LastAdvertisementTime != want || len(pi.AddrInfo.Addrs) != 1 || !strings.HasSuffix(pi.AddrInfo.Addrs[0].String(), fmt.Sprintf("/tcp/%d", 1000+ver)) {
		return fmt.Sprintf("provider %d: record v%d is a torn mixture: time %q addrs %v", pid, ver, pi.LastAdvertisementTime, pi.AddrInfo.Addrs)
	}
	if t < m.lo || t > m.hi {
		return fmt.Sprintf("provider %d: returned record v%d has time %d, but the most recent advertisement time seen in completed operations is %d (seen at all: %d); delivered: %v", pid, ver, t, m.lo, m.hi, m.delivered)
	}
	return ""
}

// ---------------------------------------------------------------- executor

func runCase(t *testing.T) func(Case) pbt.Result {
	return func(c Case) (res pbt.Result) {
		defer func() {
			if p := recover(); p != nil {
				res.Fail = fmt.Sprintf("panic: %v", p)
			}
		}()
		kinds := map[string]int{}
		synctest.Test(t, func(t *testing.T) {
			start := time.Now()
			now := func() int64 { return int64(time.Since(start) / time.Second) }
			var srcs []*source
			var psrcs []pcache.ProviderSource
			var dlog []delivery
			nUnknown := 0
			for i := 0; i < c.NSrc; i++ {
				s := &source{idx: i, content: map[int]rec{}, log: &dlog}
				srcs = append(srcs, s)
				psrcs = append(psrcs, s)
			}
			pc, err := pcache.New(pcache.WithSource(psrcs...), pcache.WithPreload(c.Preload), pcache.WithRefreshInterval(0), pcache.WithTTL(time.Duration(c.TTL)*time.Second))
			if err != nil {
				res.Fail = err.Error()
				return
			}
			models := make([]*pm, c.NPid)
			for i := range models {
				models[i] = newPM()
			}
			ver := 0
			fail := func(i int, s step, msg string) {
				res.Fail = fmt.Sprintf("step %d %+v (virtual t=%ds): %s", i, s, now(), msg)
			}
			// completedRefresh applies the post-conditions of a refresh that returned nil.
			completedRefresh := func(i int, s step, dl []delivery, responding map[int]bool) bool {
				T := now()
				rep := map[int]bool{}
				for _, d := range dl {
					models[d.Pid].deliver(d.R, true)
					rep[d.Pid] = true
				}
				list := pc.List()
				inList := map[peer.ID]*model.ProviderInfo{}
				for _, pi := range list {
					if pi == nil {
						fail(i, s, "List contains a nil entry")
						return false
					}
					if _, dup := inList[pi.AddrInfo.ID]; dup {
						fail(i, s, fmt.Sprintf("List contains provider %s twice", pi.AddrInfo.ID))
						return false
					}
					inList[pi.AddrInfo.ID] = pi
				}
				for p, m := range models {
					if rep[p] {
						m.visible, m.neg, m.maybe, m.uncertain, m.gone = true, false, false, false, false
						m.missLo, m.missHi = -1, -1
					} else if m.visible || m.maybe {
						if m.missLo < 0 {
							m.missLo = T
						}
						if m.missHi < 0 {
							m.missHi = T
						}
						switch {
						case T < m.missLo+int64(c.TTL):
							m.visible, m.maybe = true, false
						case T > m.missHi+int64(c.TTL):
							kinds["expiry"]++
							if _, ok := inList[pids[p]]; ok {
								fail(i, s, fmt.Sprintf("provider %d has not been reported by any source since t=%d (ttl %ds) but is still listed after this refresh", p, m.missHi, c.TTL))
								return false
							}
							m.evict()
						default: // either: adopt what is observed
							if _, ok := inList[pids[p]]; ok {
								m.visible, m.maybe = false, true
							} else {
								m.evict()
							}
						}
					} else if m.uncertain {
						// partially delivered earlier, not reported now: may or may not be cached; stays uncertain
					}
					if m.neg && !rep[p] {
						if T > m.negSince+int64(c.TTL) {
							m.neg = false
							m.gone = true // the entry is dropped; a marker may or may not remain
						} else if T == m.negSince+int64(c.TTL) {
							m.neg, m.uncertain = false, true
						}
					}
				}
				// every provider that must be visible is listed and returned with a fresh enough record
				for p, m := range models {
					if !m.visible {
						continue
					}
					pi, ok := inList[pids[p]]
					if !ok {
						why := "was reported by a responding source in this refresh"
						if !rep[p] {
							why = fmt.Sprintf("disappeared from the sources at t>=%d and the time-to-live of %ds has not elapsed", m.missLo, c.TTL)
						}
						fail(i, s, fmt.Sprintf("provider %d %s but is missing from List", p, why))
						return false
					}
					if msg := m.checkRecord(p, pi); msg != "" {
						fail(i, s, "List: "+msg)
						return false
					}
					f0 := fetchCount(srcs)
					g, err := pc.Get(context.Background(), pids[p])
					if err != nil || g == nil {
						fail(i, s, fmt.Sprintf("provider %d is listed but Get returns %v, %v", p, g, err))
						return false
					}
					if msg := m.checkRecord(p, g); msg != "" {
						fail(i, s, "Get: "+msg)
						return false
					}
					_ = f0
				}
				// nothing listed that was never delivered or must be gone
				for id, pi := range inList {
					p := pidIndex(id)
					if p < 0 || p >= len(models) {
						fail(i, s, fmt.Sprintf("List contains unknown provider %s", id))
						return false
					}
					m := models[p]
					if !(m.visible || m.maybe || m.uncertain) {
						fail(i, s, fmt.Sprintf("List contains provider %d which no source has reported (or which expired)", p))
						return false
					}
					if m.uncertain || m.maybe {
						if msg := m.checkRecord(p, pi); msg != "" {
							fail(i, s, "List: "+msg)
							return false
						}
					}
				}
				return true
			}
			if c.Preload {
				// the constructor's preload is a refresh over empty sources
				completedRefresh(-1, step{Op: "preload"}, nil, nil)
			}
			for i, s := range c.Steps {
				if res.Fail != "" {
					return
				}
				kinds[s.Op]++
				switch s.Op {
				case "set":
					ver++
					srcs[s.Src].mu.Lock()
					srcs[s.Src].content[s.Pid] = rec{Ver: ver, T: s.T}
					srcs[s.Src].mu.Unlock()
				case "setmany":
					srcs[s.Src].mu.Lock()
					for p := 0; p < c.NPid; p++ {
						if (p+s.Pid)%3 != 0 {
							ver++
							srcs[s.Src].content[p] = rec{Ver: ver, T: s.T}
						}
					}
					srcs[s.Src].mu.Unlock()
				case "del":
					srcs[s.Src].mu.Lock()
					delete(srcs[s.Src].content, s.Pid)
					srcs[s.Src].mu.Unlock()
				case "failnext":
					srcs[s.Src].mu.Lock()
					srcs[s.Src].failNext = true
					srcs[s.Src].mu.Unlock()
				case "advance":
					time.Sleep(time.Duration(s.D) * time.Second)
				case "refresh":
					dlog = nil
					if err := pc.Refresh(context.Background()); err != nil {
						fail(i, s, "Refresh with a live context returned "+err.Error())
						return
					}
					if !completedRefresh(i, s, append([]delivery(nil), dlog...), nil) {
						return
					}
				case "refreshcancel", "refreshdeadline":
					dlog = nil
					ctx, cancel := context.WithCancel(context.Background())
					srcs[s.Src].mu.Lock()
					if s.Op == "refreshdeadline" {
						// the caller's deadline (50 ms on the virtual clock) passes while source Src is answering
						cancel()
						ctx, cancel = context.WithTimeout(context.Background(), 50*time.Millisecond)
						srcs[s.Src].stallIn = true
					} else {
						srcs[s.Src].cancelIn = cancel
					}
					srcs[s.Src].mu.Unlock()
					err := pc.Refresh(ctx)
					cancel()
					srcs[s.Src].mu.Lock()
					reached := srcs[s.Src].cancelIn == nil && !srcs[s.Src].stallIn
					srcs[s.Src].cancelIn = nil
					srcs[s.Src].stallIn = false
					srcs[s.Src].mu.Unlock()
					if err == nil && reached {
						fail(i, s, fmt.Sprintf("Refresh returned nil although its context ended (%s) while source %d was answering, which returned the context's error: a refresh that was cut short reports success", map[bool]string{true: "deadline exceeded", false: "cancelled"}[s.Op == "refreshdeadline"], s.Src))
						return
					}
					if err == nil {
						// the cancelling source was not reached (an earlier source failed?) -- it completed
						if !completedRefresh(i, s, append([]delivery(nil), dlog...), nil) {
							return
						}
						break
					}
					kinds["cancelled"]++
					for _, d := range dlog {
						m := models[d.Pid]
						m.deliver(d.R, false)
						m.missHi = -1
						if !m.visible {
							m.uncertain = true
							m.neg = false
							m.gone = false
						}
					}
				case "refreshconc", "refreshconccancel":
					// refresh A parks inside source 0; refresh B is issued meanwhile; source content is frozen
					dlog = nil
					ctxA, cancelA := context.WithCancel(context.Background())
					park, sig := make(chan struct{}), make(chan struct{})
					srcs[0].mu.Lock()
					srcs[0].parkIn, srcs[0].parkedSig = park, sig
					srcs[0].mu.Unlock()
					cancelSrc := s.Src
					if s.Op == "refreshconccancel" {
						srcs[cancelSrc].mu.Lock()
						srcs[cancelSrc].cancelIn = cancelA
						srcs[cancelSrc].mu.Unlock()
					}
					var errA, errB error
					doneA, doneB := make(chan struct{}), make(chan struct{})
					go func() { errA = pc.Refresh(ctxA); close(doneA) }()
					<-sig
					go func() { errB = pc.Refresh(context.Background()); close(doneB) }()
					synctest.Wait()
					close(park)
					<-doneA
					<-doneB
					cancelA()
					srcs[cancelSrc].mu.Lock()
					srcs[cancelSrc].cancelIn = nil
					srcs[cancelSrc].mu.Unlock()
					kinds["concurrent"]++
					var dlA, dlB []delivery
					for _, d := range dlog {
						if d.Bg {
							dlB = append(dlB, d)
						} else {
							dlA = append(dlA, d)
						}
					}
					bgCalls := 0
					for _, src := range srcs {
						src.mu.Lock()
						bgCalls += src.bgCalls
						src.bgCalls = 0
						src.mu.Unlock()
					}
					if errB != nil {
						fail(i, s, "the second, uncancelled Refresh returned "+errB.Error())
						return
					}
					if errA == nil {
						// B waited for a refresh that completed: it owes that refresh's post-conditions
						// (source content is frozen meanwhile); if it refreshed again itself, also fine
						if !completedRefresh(i, s, append(dlA, dlB...), nil) {
							return
						}
						break
					}
					kinds["cancelled"]++
					for _, d := range dlA {
						m := models[d.Pid]
						m.deliver(d.R, false)
						m.missHi = -1
						if !m.visible {
							m.uncertain = true
							m.neg = false
							m.gone = false
						}
					}
					// B returned nil although the refresh it waited for was cancelled part-way: it must have
					// refreshed itself, otherwise nothing that "completed without error" stands behind its result
					if bgCalls == 0 {
						fail(i, s, "Refresh returned nil without asking any source, after waiting for a refresh that was cancelled part-way: providers reported by the sources are not guaranteed visible")
						return
					}
					if !completedRefresh(i, s, dlB, nil) {
						return
					}
				case "refreshduringmiss":
					// a lookup of an ID no source knows is parked inside source 0 (it holds the cache's write
					// lock); a Refresh is issued meanwhile and both finish once the source answers
					dlog = nil
					unknown := pids[150+nUnknown%40]
					nUnknown++
					park, sig := make(chan struct{}), make(chan struct{})
					srcs[0].mu.Lock()
					srcs[0].parkFetch, srcs[0].parkFetchSig = park, sig
					srcs[0].mu.Unlock()
					fa0 := 0
					for _, src := range srcs {
						src.mu.Lock()
						fa0 += src.fetchAll
						src.mu.Unlock()
					}
					var errG, errR error
					var gotG *model.ProviderInfo
					doneG, doneR := make(chan struct{}), make(chan struct{})
					cancelLookup := s.T >= 0 && s.T%2 == 0 // the lookup's caller gives up while the Refresh waits for it
					ctxG, cancelG := context.WithCancel(context.Background())
					go func() { gotG, errG = pc.Get(ctxG, unknown); close(doneG) }()
					synctest.Wait()
					select {
					case <-sig:
					default:
						// the ID is already remembered as absent: no lookup reached the source
						srcs[0].mu.Lock()
						srcs[0].parkFetch, srcs[0].parkFetchSig = nil, nil
						srcs[0].mu.Unlock()
						<-doneG
						break
					}
					go func() { errR = pc.Refresh(context.Background()); close(doneR) }()
					synctest.Wait()
					if cancelLookup {
						cancelG()
						kinds["refresh-during-cancelled-miss"]++
					} else {
						close(park)
					}
					<-doneG
					<-doneR
					cancelG()
					kinds["refresh-during-miss"]++
					if cancelLookup && errG != nil {
						// the abandoned lookup reports its context's error; nothing is remembered about the ID
						errG = nil
					}
					if errG != nil || gotG != nil {
						fail(i, s, fmt.Sprintf("Get(ID unknown to every source) = %v, %v", gotG, errG))
						return
					}
					if errR != nil {
						fail(i, s, "Refresh issued during a lookup miss returned "+errR.Error())
						return
					}
					fa1 := 0
					for _, src := range srcs {
						src.mu.Lock()
						fa1 += src.fetchAll
						src.bgCalls = 0
						src.mu.Unlock()
					}
					if fa1 == fa0 {
						fail(i, s, "Refresh returned nil without asking any source: it waited for a lookup miss that was in progress and took that for a refresh; providers reported by the sources are not guaranteed visible")
						return
					}
					if !completedRefresh(i, s, append([]delivery(nil), dlog...), nil) {
						return
					}
				case "list":
					for _, pi := range pc.List() {
						if pi == nil {
							fail(i, s, "List contains nil")
							return
						}
						p := pidIndex(pi.AddrInfo.ID)
						if p < 0 {
							fail(i, s, "List contains an unknown provider")
							return
						}
						if msg := models[p].checkRecord(p, pi); msg != "" && !models[p].gone {
							fail(i, s, "List: "+msg)
							return
						}
					}
				case "get":
					m := models[s.Pid]
					dlog = nil
					f0 := fetchCount(srcs)
					pi, err := pc.Get(context.Background(), pids[s.Pid])
					f1 := fetchCount(srcs)
					if err != nil {
						fail(i, s, "Get returned "+err.Error())
						return
					}
					dl := append([]delivery(nil), dlog...)
					switch {
					case m.visible:
						kinds["get-hit"]++
						if pi == nil {
							fail(i, s, fmt.Sprintf("Get(provider %d) = nil although it must be visible", s.Pid))
							return
						}
						for _, d := range dl {
							m.deliver(d.R, true)
						}
						if msg := m.checkRecord(s.Pid, pi); msg != "" {
							fail(i, s, "Get: "+msg)
							return
						}
					case m.neg:
						kinds["get-negative"]++
						if pi != nil || f1 != f0 {
							fail(i, s, fmt.Sprintf("provider %d is remembered as absent since t=%d (ttl %ds): Get returned %v and made %d Fetch calls", s.Pid, m.negSince, c.TTL, pi, f1-f0))
							return
						}
					case m.maybe:
						// at the time-to-live boundary: still cached when last observed; only the record is checked
						kinds["get-boundary"]++
						if pi != nil {
							if msg := m.checkRecord(s.Pid, pi); msg != "" {
								fail(i, s, "Get: "+msg)
								return
							}
						}
					default:
						// not known to be cached: a miss-fetch may happen now (or a stale marker may answer nil)
						kinds["get-miss"]++
						for _, d := range dl {
							m.deliver(d.R, true)
						}
						if pi != nil {
							if msg := m.checkRecord(s.Pid, pi); msg != "" {
								fail(i, s, "Get (miss): "+msg)
								return
							}
							if f1 != f0 || !m.uncertain {
								m.visible, m.uncertain, m.maybe, m.gone = true, false, false, false
								m.missLo, m.missHi = -1, -1
							}
						} else {
							if len(dl) > 0 {
								fail(i, s, fmt.Sprintf("Get(provider %d) asked the sources, a source delivered a record, but Get returned nil", s.Pid))
								return
							}
							if f1 != f0 && !m.uncertain && !m.maybe {
								// every source was asked and none knows it: remembered as absent from now on
								m.neg, m.negSince, m.gone = true, now(), false
							}
						}
					}
				}
			}
		})
		var ks []string
		for k := range kinds {
			ks = append(ks, k)
		}
		sort.Strings(ks)
		for _, k := range ks {
			res.Classes = append(res.Classes, "has:"+k)
		}
		// non-trivial: a cancelled refresh followed by more steps, or a negative hit, an expiry, or a merge-threshold crossing (bulk set with many providers)
		res.NonTrivial = kinds["cancelled"] > 0 || kinds["get-negative"] > 0 || kinds["expiry"] > 0 || (kinds["setmany"] > 0 && c.NPid > 8) || kinds["concurrent"] > 0 || kinds["refresh-during-miss"] > 0
		res.Key = fmt.Sprintf("%d|%v", c.NSrc, ks) + fmt.Sprint(len(c.Steps), c.NPid, c.TTL)
		return res
	}
}

func b2i(b bool) int {
	if b {
		return 1
	}
	return 0
}

func fetchCount(srcs []*source) int {
	n := 0
	for _, s := range srcs {
		s.mu.Lock()
		n += s.fetch
		s.mu.Unlock()
	}
	return n
}

func pidIndex(id peer.ID) int {
	for i, p := range pids {
		if p == id {
			return i
		}
	}
	return -1
}

func TestC06_Model(t *testing.T) {
	pbt.Run(t, pbt.Config{Prop: "C06", Unit: "TestC06_Model", TrackCurrent: true,
		Rule: "histories of 5..40 steps over 1..3 in-memory sources and 2..40 providers (enough to cross the merge threshold both ways), TTL 1 s or 60 s on the bubble's virtual clock: set / bulk set / delete a provider at a source (every record carries a unique version tag and a drawn or absent advertisement time), make a source fail its next call, Refresh, Refresh cancelled by source i, Refresh whose deadline passes while source i answers, Refresh issued while another Refresh is parked inside a source (completing, or cancelled part-way), Refresh issued while a lookup of an ID no source knows is parked inside a source (the Refresh must ask the sources itself), Get (hit / miss / remembered-absent), List, advance time by TTL/2, TTL, 2*TTL+1; oracle: reference model of the statement with per-provider [lo, hi] bounds on the advertisement time (lo over completed operations, hi over all deliveries), exact TTL bounds on the virtual clock (either outcome only at equality or after partial deliveries), remembered-absent providers answered nil with zero Fetch calls, List without duplicates / nil / never-delivered providers, records never torn. Non-trivial: history with a cancelled or concurrent refresh, a remembered-absent hit, an expiry, or a bulk update over more than 8 providers; distinct by (sources, set of step kinds, sizes).",
		Assumptions: []string{"a source that errors counts as not responding in that call", "automatic refresh is disabled here (C07 covers it); the constructor's preload counts as a refresh", "after a cancelled refresh, providers it delivered are 'uncertain' until the next completed refresh: only the identity and time bounds of a returned record are asserted"},
	}, genCase, runCase(t))
}
