package c04

import (
	"context"
	"fmt"
	"testing"
	"testing/synctest"

	"github.com/ipni/go-libipni/dagsync"
	"pgregory.net/rapid"

	"verif/h23/pbt"
	"verif/h26/world"
)

// A failing announce-triggered sync with a newer announcement of the same publisher already queued behind it:
// the failure must still be reported (exactly one error notification for the failed head), and the queued
// announcement must then be handled.
type queuedCase struct {
	N         int
	Seg       int64
	Discovery bool
	More      int // advertisements published between the two announcements
	F         fault
}

func TestC04_QueuedAnnounce(t *testing.T) {
	// no "stall" here: the queued announcement's goroutine waits on a library mutex, which the bubble does not
	// count as durably blocked, so virtual time (the client's timeout) cannot advance while it waits
	qkinds := []string{"s400", "s403", "s404", "s429", "s500", "s503", "reset", "truncate", "flipbit"}
	pbt.Run(t, pbt.Config{Prop: "C04", Unit: "TestC04_QueuedAnnounce", TrackCurrent: true,
		Rule: "chain of 1..5 ads; the publisher's gate is closed, head H1 is announced and its sync parks at its first block request with one fault armed at a drawn block-request index; 1..2 more ads are published and the new head H2 is announced (it waits behind the running sync); the gate opens. Oracle at exact quiescence: the publisher's notifications are exactly [error or success for H1, success for H2] (a fault the client masks makes the first a success), never fewer: the failure of H1 is reported although a newer announcement was already waiting; latest-sync is H2; every advertisement is stored, hashes to its CID and was reported; the notification counts cover the chain exactly; when the sync of H1 failed, announcing H1 again afterwards is acted upon (a notification for it arrives). Non-trivial: the first notification is an error; distinct by (fault kind, index, chain length, transport, segment size).",
	}, func(t *rapid.T) queuedCase {
		n := rapid.IntRange(1, 5).Draw(t, "n")
		return queuedCase{N: n, Seg: rapid.SampledFrom([]int64{-1, 1, 2}).Draw(t, "seg"), Discovery: rapid.Bool().Draw(t, "discovery"), More: rapid.IntRange(1, 2).Draw(t, "more"),
			F: fault{Kind: rapid.SampledFrom(qkinds).Draw(t, "kind"), At: rapid.IntRange(0, n-1).Draw(t, "at"), Pos: rapid.IntRange(0, 4096).Draw(t, "pos")}}
	}, func(c queuedCase) (res pbt.Result) {
		defer func() {
			if p := recover(); p != nil {
				res.Fail = fmt.Sprintf("panic: %v", p)
			}
		}()
		synctest.Test(t, func(t *testing.T) {
			w := world.New()
			defer w.Close()
			p := w.AddPublisher(0, c.Discovery, "")
			p.ExtendAds(c.N)
			s, err := world.NewSub(w, true, dagsync.SegmentDepthLimit(c.Seg))
			if err != nil {
				res.Fail = err.Error()
				return
			}
			defer func() {
				if err := s.Shutdown(); err != nil && res.Fail == "" {
					res.Fail = "Close: " + err.Error()
				}
			}()
			ctx := context.Background()
			h1 := p.Chain[c.N-1]
			p.ArmFaults(nil, map[int][]world.Fault{c.F.At: {wfault(c.F, func() {}, 0)}})
			p.Hold()
			if err := s.S.Announce(ctx, h1, p.Info()); err != nil {
				res.Fail = "Announce: " + err.Error()
				return
			}
			// normal cost: microseconds; the cap (10 s of real time) only matters on an overloaded machine, and
			// running into it decides nothing
			w.SettleUntilCap(func() bool { return p.Parked() > 0 }, 50000)
			if p.Parked() == 0 {
				res.Skip = true
				p.Open()
				quiesce()
				return
			}
			p.ExtendAds(c.More)
			h2 := p.Chain[len(p.Chain)-1]
			if err := s.S.Announce(ctx, h2, p.Info()); err != nil {
				res.Fail = "Announce: " + err.Error()
				p.Open()
				return
			}
			w.Settle()
			p.Open()
			quiesce()
			evs := s.EventsFrom(0)
			desc := func() string {
				out := ""
				for _, ev := range evs {
					which := "other"
					switch ev.Cid {
					case h1:
						which = "H1"
					case h2:
						which = "H2"
					}
					out += fmt.Sprintf(" {%s count=%d err=%v}", which, ev.Count, ev.Err != nil)
				}
				return out
			}
			what := fmt.Sprintf("%s at block request %d", c.F.Kind, c.F.At)
			if len(evs) != 2 || evs[0].Cid != h1 || evs[1].Cid != h2 || evs[1].Err != nil {
				res.Fail = fmt.Sprintf("%s: notifications are%s; want exactly [error or success for H1, success for H2]: the outcome of the first sync must be reported although a newer announcement was waiting", what, desc())
				return
			}
			if got := s.Latest(p.ID); got != h2 {
				res.Fail = fmt.Sprintf("%s: latest-sync is not H2 after the queued announcement was handled", what)
				return
			}
			if bad := s.Audit(); len(bad) > 0 {
				res.Fail = fmt.Sprintf("%s: stored blocks do not hash to their CID: %v", what, bad)
				return
			}
			count := map[string]int{}
			for _, hc := range s.HookCids(0) {
				count[hc.String()]++
			}
			for i, ci := range p.Chain {
				if !s.Has(ci) || count[ci.String()] < 1 {
					res.Fail = fmt.Sprintf("%s: advertisement %d stored=%v, reported %d times (want stored and reported);%s", what, i, s.Has(ci), count[ci.String()], desc())
					return
				}
			}
			// the successful sync of H2 covers everything since the latest-sync it started from (a failed segmented
			// sync reports the blocks of its completed segments, and the next sync reports them again)
			want := c.N + c.More
			if evs[0].Err == nil {
				want = c.More
				if evs[0].Count != c.N {
					res.Fail = fmt.Sprintf("%s: the (masked-fault) sync of H1 reports %d blocks, want %d;%s", what, evs[0].Count, c.N, desc())
					return
				}
			}
			if evs[1].Count != want {
				res.Fail = fmt.Sprintf("%s: the sync of H2 reports %d blocks, want %d;%s", what, evs[1].Count, want, desc())
				return
			}
			if evs[0].Err != nil {
				// "its CID may be announced again": the failed head is not remembered as seen, so announcing it
				// again is acted upon (what the sync of an already superseded head then does is not judged here)
				p.ArmFaults(nil, nil)
				n0 := s.NEvents()
				if err := s.S.Announce(ctx, h1, p.Info()); err != nil {
					res.Fail = "Announce (again): " + err.Error()
					return
				}
				quiesce()
				again := false
				for _, ev := range s.EventsFrom(n0) {
					if ev.Cid == h1 {
						again = true
					}
				}
				if !again {
					res.Fail = fmt.Sprintf("%s: the sync of H1 failed and was reported, a newer announcement was queued at that moment; H1 announced again afterwards is ignored (no notification for it): the failed CID stayed in the duplicate filter", what)
					return
				}
				res.NonTrivial = true
				res.Classes = append(res.Classes, "first-failed:"+c.F.Kind)
			} else {
				res.Classes = append(res.Classes, "fault-masked:"+c.F.Kind)
			}
			res.Key = fmt.Sprintf("%s/%d/n%d/%v/%d", c.F.Kind, c.F.At, c.N, c.Discovery, c.Seg)
		})
		return res
	})
}
