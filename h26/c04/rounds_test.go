package c04

import (
	"fmt"
	"testing"
	"testing/synctest"


	"verif/h23/pbt"
	"verif/h26/world"
)

// Sequential rounds (world.RunRounds): every round runs one sync to exact quiescence, so a small model
// predicts each round's outcome exactly. This unit judges the failure aspect.
func TestC04_Rounds(t *testing.T) {
	pbt.Run(t, pbt.Config{Prop: "C04", Unit: "TestC04_Rounds", TrackCurrent: true,
		Rule: "1..2 publishers, one subscriber (unsegmented or segments of 1..3, own hook or the library's general hook, MaxAsyncConcurrency unset/1/2, plain or discovery transport), two listeners; 2..8 rounds, each publishing 0..3 ads and then running exactly one operation to exact quiescence: announcement, explicit sync (the publisher named by the AddrInfo's ID or only by the /p2p component of its addresses), resync (WithAdsResync), sync with an explicit older stop CID (WithStopAdCid), announcement whose sender information has only a non-HTTP address or no address, announcement or explicit sync during which the publisher answers 500 for one block still to be fetched. Oracle (reference model of latest-sync per publisher): a failed round leaves latest-sync where it was, emits no success notification, an announce-triggered one exactly one error notification for the announced CID (an explicit one returns the error); every later round behaves exactly as the model predicts (a head whose sync failed can be announced again, later syncs of any publisher complete). Non-trivial: at least one round failed as designed; distinct by case.",
	}, world.GenRounds, func(c world.RoundsCase) (res pbt.Result) {
		var rr world.RoundsResult
		defer func() {
			if p := recover(); p != nil {
				if rr.Failure != "" {
					res.Fail = rr.Failure + "\ncase: " + c.String()
				} else if rr.Once != "" || rr.Events != "" {
					// the subscriber could not be closed after a violation of another aspect, which that aspect's own unit reports
					res.Skip = true
				} else {
					res.Fail = fmt.Sprintf("panic: %v\ncase: %s", p, c.String())
				}
			}
		}()
		synctest.Test(t, func(t *testing.T) { world.RunRounds(c, &rr) })
		res.Classes = rr.Classes
		res.NonTrivial = rr.Failed > 0
		if rr.Failure != "" {
			res.Fail = rr.Failure + "\ncase: " + c.String()
		}
		return res
	})
}
