package c04

import (
	"context"
	"fmt"
	"testing"
	"testing/synctest"
	"time"

	"github.com/ipfs/go-cid"
	"github.com/libp2p/go-libp2p/core/peer"
	"github.com/ipni/go-libipni/dagsync"
	"pgregory.net/rapid"

	"verif/h23/pbt"
	"verif/h26/world"
)

type fault struct {
	At   int    // -1: the head request; k >= 0: the k-th block request of the attempt; for hookfail: the k-th hook call
	Kind string // s400 s403 s404 s429 s500 s503 reset truncate flipbit stall cancelcaller hookfail hookcancel (the k-th hook call cancels the caller's context)
	Pos  int
}

type Case struct {
	N         int
	InitPos   int // -1: nothing synced before; else latest-sync set by a real sync to this position
	Seg       int64
	Entry     string // sync | announce
	Discovery bool
	Retry     bool
	TwoAddrs  bool
	DeadFirst bool // the first of the publisher's addresses refuses connections
	Legacy    bool // plain-HTTP publisher from before the IPNI path existed: the client has to fall back to the path-less form
	LibHook   bool // the subscriber's hook delegates to dagsync.MakeGeneralBlockHook (fault kind prevfail: its lookup function fails)
	SegScoped bool // explicit syncs give the segment size per call (with a per-call depth limit); the subscriber's own limit is larger
	Attempts  []fault // 1 or 2 faulty attempts (one fault each), followed by a fault-free attempt
}

var kinds = []string{"s400", "s403", "s404", "s429", "s500", "s503", "reset", "truncate", "flipbit", "stall", "cancelcaller", "hookfail", "hookcancel", "badaddr", "noaddr", "prevfail"}

func genCase(t *rapid.T) Case {
	c := Case{N: rapid.IntRange(1, 6).Draw(t, "n"), InitPos: -1}
	if c.N > 1 && rapid.Bool().Draw(t, "hasinit") {
		c.InitPos = rapid.IntRange(0, c.N-2).Draw(t, "initpos")
	}
	c.Seg = rapid.SampledFrom([]int64{-1, 1, 2, 2, 3}).Draw(t, "seg")
	c.LibHook = c.Seg > 0 && rapid.IntRange(0, 2).Draw(t, "libhook") > 0
	c.Entry = rapid.SampledFrom([]string{"sync", "announce"}).Draw(t, "entry")
	c.Discovery = rapid.Bool().Draw(t, "discovery")
	c.Legacy = !c.Discovery && rapid.IntRange(0, 3).Draw(t, "legacy") == 0
	c.Retry = rapid.IntRange(0, 3).Draw(t, "retry") == 0
	c.TwoAddrs = rapid.IntRange(0, 3).Draw(t, "twoaddrs") == 0
	c.DeadFirst = rapid.IntRange(0, 3).Draw(t, "deadfirst") == 0
	c.SegScoped = c.Seg > 0 && c.Entry == "sync" && rapid.IntRange(0, 2).Draw(t, "segscoped") == 0
	na := rapid.IntRange(1, 2).Draw(t, "nattempts")
	for i := 0; i < na; i++ {
		f := fault{Kind: rapid.SampledFrom(kinds).Draw(t, "kind"), At: rapid.IntRange(-1, c.N-1).Draw(t, "at"), Pos: rapid.IntRange(0, 4096).Draw(t, "pos")}
		// construct applicable faults instead of rejecting
		if (f.Kind == "cancelcaller" || f.Kind == "hookcancel") && c.Entry != "sync" {
			f.Kind = "reset"
		}
		if f.Kind == "hookcancel" && f.At < 0 {
			f.At = 0
		}
		if f.Kind == "prevfail" && !c.LibHook {
			f.Kind = "hookfail"
		}
		if (f.Kind == "hookfail" || f.Kind == "prevfail") && (c.Seg <= 0 || f.At < 0) {
			if c.Seg <= 0 {
				f.Kind = "s500"
			} else {
				f.At = 0
			}
		}
		if f.At == -1 && c.Entry == "announce" {
			f.At = 0
		}
		if f.Kind == "badaddr" || f.Kind == "noaddr" {
			f.At = 0
		}
		c.Attempts = append(c.Attempts, f)
	}
	return c
}

func applicable(c Case, f fault) bool {
	switch f.Kind {
	case "cancelcaller":
		return c.Entry == "sync"
	case "hookcancel":
		return c.Entry == "sync" && f.At >= 0
	case "hookfail":
		return c.Seg > 0 && f.At >= 0
	case "prevfail":
		return c.Seg > 0 && f.At >= 0 && c.LibHook
	case "badaddr", "noaddr":
		return f.At == 0
	}
	if f.At == -1 && c.Entry == "announce" {
		return false // no head request in an announce-triggered sync
	}
	return true
}

type state struct {
	Latest string
	Keys   map[string]bool
}

type run struct {
	w     *world.World
	p     *world.Publisher
	s     *world.Sub
	chain []cid.Cid
	pos   map[string]int
}

func setup(c Case) (*run, error) {
	w := world.New()
	w.LibraryHook = c.LibHook
	p := w.AddPublisher(0, c.Discovery, "")
	p.ExtendAds(c.N)
	p.Legacy = c.Legacy
	if c.TwoAddrs {
		p.AddAlias()
	}
	if c.DeadFirst {
		p.AddDead()
	}
	opts := []dagsync.Option{dagsync.SegmentDepthLimit(c.Seg)}
	if c.SegScoped {
		opts = []dagsync.Option{dagsync.SegmentDepthLimit(16)}
	}
	if c.Retry {
		opts = append(opts, dagsync.RetryableHTTPClient(2, 10*time.Millisecond, 100*time.Millisecond))
	}
	s, err := world.NewSub(w, true, opts...)
	if err != nil {
		w.Close()
		return nil, err
	}
	r := &run{w: w, p: p, s: s, chain: p.Chain, pos: map[string]int{}}
	for i, ci := range p.Chain {
		r.pos[ci.String()] = i
	}
	if c.InitPos >= 0 {
		p.Pub.SetRoot(p.Chain[c.InitPos])
		if _, err := s.S.SyncAdChain(context.Background(), p.Info()); err != nil {
			return nil, fmt.Errorf("initial sync: %w", err)
		}
		p.Pub.SetRoot(p.Chain[c.N-1])
		quiesce()
	}
	return r, nil
}

// quiesce lets virtual time pass (timeouts, back-off) and waits for exact quiescence.
// Only one library operation is ever in flight here and nothing is parked on the harness.
func quiesce() {
	time.Sleep(2 * time.Minute)
	synctest.Wait()
}

// attempt runs one sync of the head; returns (succeeded, error text).
func (r *run) attempt(c Case, ctx context.Context, addr string) (bool, string, string) {
	head := r.chain[c.N-1]
	ev0 := r.s.NEvents()
	info := r.p.Info()
	switch addr {
	case "badaddr":
		info = r.p.BadInfo()
	case "noaddr":
		info.Addrs = nil
	}
	if c.Entry == "announce" {
		if err := r.s.S.Announce(ctx, head, info); err != nil {
			return false, "Announce: " + err.Error(), ""
		}
		quiesce()
		evs := r.s.EventsFrom(ev0)
		if len(evs) != 1 {
			return false, "", fmt.Sprintf("announce-triggered sync produced %d notifications, want exactly one (success or error): %+v", len(evs), evs)
		}
		if evs[0].Cid != head || evs[0].PeerID != r.p.ID {
			return false, "", fmt.Sprintf("notification for cid %s peer %s, announced %s by %s", evs[0].Cid, evs[0].PeerID, head, r.p.ID)
		}
		if evs[0].Err != nil {
			return false, evs[0].Err.Error(), ""
		}
		return true, "", ""
	}
	var so []dagsync.SyncOption
	if c.SegScoped {
		so = append(so, dagsync.ScopedSegmentDepthLimit(c.Seg), dagsync.ScopedDepthLimit(12))
	}
	got, err := r.s.S.SyncAdChain(ctx, info, so...)
	quiesce()
	evs := r.s.EventsFrom(ev0)
	if err != nil {
		for _, e := range evs {
			if e.Err == nil {
				return false, err.Error(), fmt.Sprintf("explicit sync failed (%v) but a success notification was emitted: %+v", err, e)
			}
		}
		return false, err.Error(), ""
	}
	if got != head {
		return true, "", fmt.Sprintf("explicit sync returned %s, head is %s", got, head)
	}
	return true, "", ""
}

func wfault(f fault, cancel context.CancelFunc, bodyLen int) world.Fault {
	switch f.Kind {
	case "s400", "s403", "s404", "s429", "s500", "s503":
		var code int
		fmt.Sscanf(f.Kind[1:], "%d", &code)
		return world.Fault{Kind: "status", Code: code}
	case "truncate":
		return world.Fault{Kind: "truncate", N: f.Pos % 200}
	case "flipbit":
		return world.Fault{Kind: "flipbit", N: f.Pos, Bit: f.Pos % 8}
	case "cancelcaller":
		return world.Fault{Kind: "cancelcaller", Cancel: cancel}
	}
	return world.Fault{Kind: f.Kind}
}

func runCase(t *testing.T) func(Case) pbt.Result {
	return func(c Case) (res pbt.Result) {
		res.Classes = []string{"entry=" + c.Entry, fmt.Sprintf("discovery=%v", c.Discovery), fmt.Sprintf("segmented=%v", c.Seg > 0), fmt.Sprintf("legacy=%v", c.Legacy)}
		for _, f := range c.Attempts {
			if !applicable(c, f) {
				return pbt.Result{Skip: true}
			}
		}
		defer func() {
			if p := recover(); p != nil {
				res.Fail = fmt.Sprintf("panic: %v", p)
			}
		}()
		// reference: the same configuration without faults
		var ref state
		var refHooks []int
		synctest.Test(t, func(t *testing.T) {
			r, err := setup(c)
			if err != nil {
				res.Fail = "reference setup: " + err.Error()
				return
			}
			defer r.w.Close()
			h0 := r.s.NHooks()
			ok, e, v := r.attempt(c, context.Background(), "")
			if !ok || v != "" {
				res.Fail = fmt.Sprintf("reference (fault-free) run failed: %s %s", e, v)
			}
			ref = state{Latest: r.s.Latest(r.p.ID).String(), Keys: r.s.Keys()}
			for _, hc := range r.s.HookCids(h0) {
				refHooks = append(refHooks, r.pos[hc.String()])
			}
			if err := r.s.Shutdown(); err != nil {
				res.Fail = "Close: " + err.Error()
			}
		})
		if res.Fail != "" {
			return res
		}
		synctest.Test(t, func(t *testing.T) {
			r, err := setup(c)
			if err != nil {
				res.Fail = "setup: " + err.Error()
				return
			}
			defer r.w.Close()
			defer func() {
				if err := r.s.Shutdown(); err != nil && res.Fail == "" {
					res.Fail = "Close: " + err.Error()
				}
			}()
			head := r.chain[c.N-1]
			for ai, f := range c.Attempts {
				if r.s.Latest(r.p.ID) == head {
					// a fault the client masked (retry, fail-over): the head is synced, and announcing
					// a synced CID again is legitimately ignored
					res.Classes = append(res.Classes, "masked-fault:head-synced")
					break
				}
				ctx, cancel := context.WithCancel(context.Background())
				wf := wfault(f, cancel, 0)
				r.s.ArmHook(-1)
				r.s.ArmPrevFail(-1)
				r.s.SetOnHook(nil)
				switch {
				case f.Kind == "prevfail":
					r.s.ArmPrevFail(f.At)
					r.p.ArmFaults(nil, nil)
				case f.Kind == "hookcancel":
					r.p.ArmFaults(nil, nil)
					calls := 0
					r.s.SetOnHook(func(peer.ID, cid.Cid) {
						if calls == f.At {
							cancel()
						}
						calls++
					})
				case f.Kind == "badaddr" || f.Kind == "noaddr":
					r.p.ArmFaults(nil, nil)
				case f.Kind == "hookfail":
					r.s.ArmHook(f.At)
					r.p.ArmFaults(nil, nil)
				case f.At == -1:
					r.p.ArmFaults([]world.Fault{wf}, nil)
				default:
					r.p.ArmFaults(nil, map[int][]world.Fault{f.At: {wf}})
				}
				latest0 := r.s.Latest(r.p.ID)
				req0, hk0 := len(r.w.Requests()), r.s.NHooks()
				ok, errText, viol := r.attempt(c, ctx, f.Kind)
				cancel()
				r.s.SetOnHook(nil)
				what := fmt.Sprintf("attempt %d with %s at %d", ai, f.Kind, f.At)
				if viol != "" {
					res.Fail = what + ": " + viol
					return
				}
				if bad := r.s.Audit(); len(bad) > 0 {
					res.Fail = fmt.Sprintf("%s: stored blocks do not hash to their CID: %v", what, bad)
					return
				}
				reached := (f.Kind == "hookfail" || f.Kind == "hookcancel" || f.Kind == "prevfail") && r.s.NHooks()-hk0 > f.At
				if f.Kind == "badaddr" || f.Kind == "noaddr" {
					// the sync cannot even start: no request is made
					reached = !ok
				}
				for _, rq := range r.w.Requests()[req0:] {
					if rq.Fault != "" {
						reached = true
					}
				}
				if ok && (f.Kind == "hookfail" || f.Kind == "prevfail") && reached {
					res.Fail = fmt.Sprintf("%s: the block hook signalled a failure (FailSync) at its call %d of a segmented sync (segment size %d, library hook: %v), but the sync succeeded", what, f.At, c.Seg, c.LibHook)
					return
				}
				if ok {
					res.Classes = append(res.Classes, "attempt-succeeded")
					if got := r.s.Latest(r.p.ID); got != head {
						res.Fail = fmt.Sprintf("%s: attempt succeeded but latest-sync is %s", what, got)
						return
					}
					// a sync reported as successful must have done all of its work: the state equals the fault-free run's
					var hooks []int
					for _, hc := range r.s.HookCids(hk0) {
						hooks = append(hooks, r.pos[hc.String()])
					}
					if len(refHooks) > 0 && fmt.Sprint(hooks) != fmt.Sprint(refHooks) && latest0 != head {
						// (hooks of the whole sync: a retried or failed-over request does not repeat them)
						full := len(hooks) >= len(refHooks)
						if full {
							tail := hooks[len(hooks)-len(refHooks):]
							full = fmt.Sprint(tail) == fmt.Sprint(refHooks)
						}
						if !full {
							res.Fail = fmt.Sprintf("%s: the sync was reported as successful but handed blocks %v to the hook; the fault-free run reports %v", what, hooks, refHooks)
							return
						}
					}
					keys := r.s.Keys()
					for k := range ref.Keys {
						if !keys[k] {
							res.Fail = fmt.Sprintf("%s: the sync was reported as successful (latest-sync moved to the head) but block %s of the chain is not stored; the fault-free run stores %d blocks, this one %d", what, k, len(ref.Keys), len(keys))
							return
						}
					}
				} else {
					if reached {
						res.NonTrivial = true
						res.Classes = append(res.Classes, "failed:"+f.Kind)
						idx := "block"
						if f.At == -1 {
							idx = "head"
						}
						res.Key += fmt.Sprintf("%s/%s%d/n%d/%s/%v/%v;", f.Kind, idx, f.At, c.N, c.Entry, c.Discovery, c.Seg)
					}
					if got := r.s.Latest(r.p.ID); got != latest0 {
						res.Fail = fmt.Sprintf("%s: attempt failed (%s) but latest-sync moved from %s to %s", what, errText, latest0, got)
						return
					}
				}
			}
			// the publisher answers correctly again
			r.p.ArmFaults(nil, nil)
			r.s.ArmHook(-1)
			r.s.ArmPrevFail(-1)
			if r.s.Latest(r.p.ID) == head {
				res.Classes = append(res.Classes, "already-synced-before-final")
				return
			}
			var wantReq []int
			for i := c.N - 1; i > c.InitPos; i-- {
				if !r.s.Has(r.chain[i]) {
					wantReq = append(wantReq, i)
				}
			}
			req0, hk0 := len(r.w.Requests()), r.s.NHooks()
			ok, errText, viol := r.attempt(c, context.Background(), "")
			var reqLog []string
			var gotReq []int
			for _, rq := range r.w.Requests()[req0:] {
				reqLog = append(reqLog, fmt.Sprintf("%s %s -> %d", rq.Kind, rq.Path, rq.Status))
				if rq.Kind == "block" {
					if i, ok := r.pos[rq.Cid]; ok {
						gotReq = append(gotReq, i)
					} else {
						gotReq = append(gotReq, -9)
					}
				}
			}
			if viol != "" {
				res.Fail = "final fault-free attempt: " + viol
				return
			}
			if !ok {
				res.Fail = fmt.Sprintf("the publisher answers correctly again but the next sync of the same head fails: %s\nrequests of that attempt: %v\ncase: %+v", errText, reqLog, c)
				return
			}
			if got := r.s.Latest(r.p.ID).String(); got != ref.Latest {
				res.Fail = fmt.Sprintf("after recovery latest-sync is %s, fault-free run has %s", got, ref.Latest)
				return
			}
			keys := r.s.Keys()
			if len(keys) != len(ref.Keys) {
				res.Fail = fmt.Sprintf("after recovery the store holds %d blocks, the fault-free run %d", len(keys), len(ref.Keys))
				return
			}
			for k := range ref.Keys {
				if !keys[k] {
					res.Fail = fmt.Sprintf("after recovery block %s is missing from the store", k)
					return
				}
			}
			if bad := r.s.Audit(); len(bad) > 0 {
				res.Fail = fmt.Sprintf("after recovery stored blocks do not hash to their CID: %v", bad)
				return
			}
			var hooks []int
			for _, hc := range r.s.HookCids(hk0) {
				hooks = append(hooks, r.pos[hc.String()])
			}
			if fmt.Sprint(hooks) != fmt.Sprint(refHooks) {
				res.Fail = fmt.Sprintf("recovery sync reported blocks %v, the fault-free run %v", hooks, refHooks)
				return
			}
			if fmt.Sprint(gotReq) != fmt.Sprint(wantReq) {
				res.Fail = fmt.Sprintf("recovery sync requested blocks %v, expected exactly the segment blocks not yet stored %v (blocks already verified remain usable)\nrequests: %v", gotReq, wantReq, reqLog)
				return
			}
		})
		if res.Key == "" {
			res.Key = fmt.Sprintf("%+v", c)
		}
		return res
	}
}

const rule = "chain of 1..6 ads, optional earlier sync of a prefix, segmented (1, 2, 3) or not, the subscriber's hook its own or delegating to the library's MakeGeneralBlockHook, explicit or announce-triggered, plain or discovery transport (plain also as a legacy publisher that only serves the path-less form), optional retryable client, one or two publisher addresses; optionally a first address that refuses connections, optionally the segment size given per call (ScopedSegmentDepthLimit with a per-call depth limit, under a larger subscriber-wide limit); 1 or 2 faulty attempts, each with one fault (HTTP 400/403/404/429/500/503, connection reset, truncated body, bit flip, stalled response, caller context cancelled at a request or inside the k-th hook call, FailSync from the hook, a failing previous-advertisement lookup inside the library's general hook, at the head request or at any block-request index; or the sync cannot start at all: sender information with only a non-HTTP address, or with no address), then a fault-free attempt; oracle: differential against a fault-free run of the same configuration in a fresh world: a failed attempt leaves latest-sync unchanged, emits no success notification and (announce) exactly one error notification for the announced CID; a successful attempt ends at the head; the fault-free attempt succeeds, latest-sync, store contents and reported blocks equal the fault-free run and it requests exactly the segment blocks not yet stored; every stored block hashes to its CID. Non-trivial: the fault was reached and the attempt failed; distinct by (fault kind, request index, chain length, entry kind, transport, segment size)."

func TestC04_Random(t *testing.T) {
	pbt.Run(t, pbt.Config{Prop: "C04", Unit: "TestC04_Random", Rule: rule, TrackCurrent: true}, genCase, runCase(t))
}

func TestC04_Exhaustive(t *testing.T) {
	ns := []int{3}
	pairs := false
	if pbt.Tier() == "thorough" {
		ns = []int{1, 2, 3, 4, 5}
		pairs = true
	}
	pbt.RunEnum(t, pbt.Config{Prop: "C04", Unit: "TestC04_Exhaustive", TrackCurrent: true,
		Rule: fmt.Sprintf("exhaustive single faults: chain lengths %v x all 16 fault kinds x every request index (head, 0..n-1) x {explicit, announce} x {plain, discovery} x {unsegmented, segment 1}, plus both hook-failure kinds at every hook call with the library's general hook and segments of 2 and 3; thorough adds all ordered pairs of faults for n = 3; same oracle as TestC04_Random.", ns),
	}, func(yield func(Case) bool) {
		for _, n := range ns {
			for _, k := range kinds {
				for at := -1; at < n; at++ {
					for _, entry := range []string{"sync", "announce"} {
						for _, disc := range []bool{false, true} {
							for _, seg := range []int64{-1, 1} {
								c := Case{N: n, InitPos: -1, Seg: seg, Entry: entry, Discovery: disc, Attempts: []fault{{At: at, Kind: k, Pos: 37}}}
								if !applicable(c, c.Attempts[0]) {
									continue
								}
								if !yield(c) {
									return
								}
							}
						}
					}
				}
			}
		}
		// hook failures inside a segment of more than one block, own hook and the library's
		for _, n := range ns {
			for _, k := range []string{"hookfail", "prevfail"} {
				for at := 0; at < n; at++ {
					for _, entry := range []string{"sync", "announce"} {
						for _, seg := range []int64{2, 3} {
							c := Case{N: n, InitPos: -1, Seg: seg, Entry: entry, LibHook: true, Attempts: []fault{{At: at, Kind: k, Pos: 37}}}
							if !yield(c) {
								return
							}
						}
					}
				}
			}
		}
		if pairs {
			n := 3
			for _, k1 := range kinds {
				for a1 := -1; a1 < n; a1++ {
					for _, k2 := range kinds {
						for a2 := -1; a2 < n; a2++ {
							for _, entry := range []string{"sync", "announce"} {
								for _, disc := range []bool{false, true} {
									c := Case{N: n, InitPos: -1, Seg: 1, Entry: entry, Discovery: disc, Attempts: []fault{{At: a1, Kind: k1, Pos: 11}, {At: a2, Kind: k2, Pos: 5}}}
									if !applicable(c, c.Attempts[0]) || !applicable(c, c.Attempts[1]) {
										continue
									}
									if !yield(c) {
										return
									}
								}
							}
						}
					}
				}
			}
		}
	}, runCase(t))
}
