package c01

import (
	"context"
	"fmt"
	"os"
	"strings"
	"testing"
	"testing/synctest"

	"github.com/ipfs/go-cid"
	"github.com/ipni/go-libipni/dagsync"
	"github.com/libp2p/go-libp2p/core/peer"
	"github.com/multiformats/go-multihash"
	"pgregory.net/rapid"

	"verif/h23/pbt"
	"verif/h26/world"
)

// Case is one base configuration plus the family of (segment size, pre-stored subset) variants.
type Case struct {
	Kind      string // ads | entries | one | hamt
	N         int
	Discovery bool

	AdsDepth     int64
	EntriesDepth int64
	FirstDepth   int64

	InitLatest string // none | set | priorsync | lastknown | head | offchain
	InitPos    int

	StopKind     string // none | pos | head | offchain
	StopPos      int
	Resync       bool
	ExplicitHead bool
	HeadPos      int
	ScopedDepth  int64
	Entry        string // sync | announce
	SegScoped    bool   // apply the segment size per call (ScopedSegmentDepthLimit) instead of subscriber-wide
	ScopedHook   bool   // the call brings its own block hook (ScopedBlockHook): the subscriber's hook must stay silent
	LibHook      bool   // the subscriber's hook delegates the choice of the next segment to dagsync.MakeGeneralBlockHook

	Segs      []int64 // segment sizes: -1 = disabled
	Prestores [][]int // positions pre-stored in the destination store
}

func genCase(t *rapid.T) Case {
	c := Case{Kind: rapid.SampledFrom([]string{"ads", "ads", "ads", "entries", "one", "hamt"}).Draw(t, "kind")}
	c.N = rapid.IntRange(1, 12).Draw(t, "n")
	c.Discovery = rapid.Bool().Draw(t, "discovery")
	depth := func(label string) int64 {
		if rapid.Bool().Draw(t, label+"?") {
			return 0
		}
		return int64(rapid.IntRange(1, c.N+2).Draw(t, label))
	}
	c.AdsDepth, c.EntriesDepth, c.FirstDepth = depth("adsdepth"), depth("entdepth"), depth("firstdepth")
	c.InitLatest = rapid.SampledFrom([]string{"none", "none", "set", "priorsync", "lastknown", "head", "offchain"}).Draw(t, "initlatest")
	c.InitPos = rapid.IntRange(0, c.N-1).Draw(t, "initpos")
	c.StopKind = rapid.SampledFrom([]string{"none", "none", "pos", "head", "offchain"}).Draw(t, "stopkind")
	c.StopPos = rapid.IntRange(0, c.N-1).Draw(t, "stoppos")
	c.Resync = rapid.IntRange(0, 4).Draw(t, "resync") == 0
	c.ExplicitHead = rapid.IntRange(0, 2).Draw(t, "explicithead") == 0
	c.HeadPos = rapid.IntRange(0, c.N-1).Draw(t, "headpos")
	switch rapid.IntRange(0, 3).Draw(t, "scopeddepth") {
	case 0:
		c.ScopedDepth = -1
	case 1:
		c.ScopedDepth = int64(rapid.IntRange(1, c.N+2).Draw(t, "sd"))
	}
	c.Entry = "sync"
	if c.Kind == "ads" && rapid.IntRange(0, 3).Draw(t, "announce") == 0 {
		c.Entry = "announce"
	}
	c.SegScoped = c.Kind == "ads" && c.Entry == "sync" && rapid.Bool().Draw(t, "segscoped")
	c.ScopedHook = c.Entry == "sync" && c.Kind != "one" && rapid.IntRange(0, 2).Draw(t, "scopedhook") == 0
	c.LibHook = c.Kind == "ads" && !c.ScopedHook && rapid.IntRange(0, 2).Draw(t, "libhook") == 0
	// family
	segSet := map[int64]bool{-1: true, 1: true}
	for i := 0; i < 3; i++ {
		segSet[int64(rapid.IntRange(1, c.N+2).Draw(t, "seg"))] = true
	}
	for s := range segSet {
		c.Segs = append(c.Segs, s)
	}
	sortInts(c.Segs)
	c.Prestores = [][]int{nil}
	all := make([]int, c.N)
	for i := range all {
		all[i] = i
	}
	c.Prestores = append(c.Prestores, all)
	var sub []int
	for i := 0; i < c.N; i++ {
		if rapid.Bool().Draw(t, "pre") {
			sub = append(sub, i)
		}
	}
	c.Prestores = append(c.Prestores, sub)
	if c.N > 1 {
		c.Prestores = append(c.Prestores, []int{c.N - 1})
	}
	return c
}

func sortInts(a []int64) {
	for i := range a {
		for j := i + 1; j < len(a); j++ {
			if a[j] < a[i] {
				a[i], a[j] = a[j], a[i]
			}
		}
	}
}

// expectation computed by the reference model (positions, newest first).
type expect struct {
	List        []int
	Head        int
	UpdatesHead bool // latest-sync moves to head and one event is emitted
	AssertLatest bool
	NoRequests  bool
}

func model(c Case) expect {
	switch c.Kind {
	case "one":
		return expect{List: []int{c.HeadPos}, Head: c.HeadPos}
	case "hamt":
		e := expect{Head: c.HeadPos}
		for p := c.HeadPos; p >= 0; p-- {
			e.List = append(e.List, p)
		}
		return e
	case "entries":
		e := expect{Head: c.HeadPos}
		d := c.EntriesDepth
		if c.ScopedDepth != 0 {
			d = c.ScopedDepth
		}
		for p := c.HeadPos; p >= 0; p-- {
			if d >= 1 && int64(len(e.List)) >= d {
				break
			}
			e.List = append(e.List, p)
		}
		return e
	}
	// ads
	head := c.N - 1
	explicit := c.ExplicitHead && c.Entry == "sync"
	if explicit {
		head = c.HeadPos
	}
	// latest before the call: position, -1 none, -2 off chain
	latest := -1
	switch c.InitLatest {
	case "set", "priorsync", "lastknown":
		latest = c.InitPos
	case "head":
		latest = c.N - 1
	case "offchain":
		latest = -2
	}
	stop := -1
	hasStop := false
	if c.Entry == "announce" {
		if latest != -1 {
			stop, hasStop = latest, true
		}
	} else {
		switch c.StopKind {
		case "pos":
			stop, hasStop = c.StopPos, true
		case "head":
			stop, hasStop = head, true
		case "offchain":
			stop, hasStop = -2, true
		default:
			if !c.Resync && latest != -1 {
				stop, hasStop = latest, true
			}
		}
	}
	e := expect{Head: head, UpdatesHead: !explicit, AssertLatest: true}
	if hasStop && stop == head {
		e.NoRequests = true
		e.UpdatesHead = false
		return e
	}
	depth := c.AdsDepth
	if c.Entry == "sync" && c.ScopedDepth != 0 {
		depth = c.ScopedDepth
	}
	if !hasStop && c.FirstDepth != 0 && (c.Entry == "announce" || c.ScopedDepth == 0) {
		depth = c.FirstDepth
	}
	for p := head; p >= 0; p-- {
		if hasStop && p == stop {
			break
		}
		if depth >= 1 && int64(len(e.List)) >= depth {
			break
		}
		e.List = append(e.List, p)
	}
	if c.Resync && !explicit && c.Entry == "sync" {
		e.AssertLatest = false // documentation and code disagree on this combination; not asserted
	}
	return e
}

// observation of one family member
type obs struct {
	Hooks    []int
	Ret      string
	Err      string
	Latest   string
	Events   []string
	Requests []int // block requests (positions), in order
	HeadReqs int
	Missing  []int // expected blocks not readable / not hashing to their CID afterwards
}

func (o obs) key() string {
	return fmt.Sprintf("hooks=%v ret=%s err=%q latest=%s events=%v", o.Hooks, o.Ret, o.Err, o.Latest, o.Events)
}

func offChainCid() cid.Cid {
	mh, _ := multihash.Sum([]byte("not on any chain"), multihash.SHA2_256, -1)
	return cid.NewCidV1(cid.DagJSON, mh)
}

func runMember(t *testing.T, c Case, seg int64, pre []int) (o obs, fail string) {
	defer func() {
		if p := recover(); p != nil {
			fail = fmt.Sprintf("panic: %v", p)
		}
	}()
	synctest.Test(t, func(t *testing.T) {
		w := world.New()
		defer w.Close()
		w.LibraryHook = c.LibHook
		p := w.AddPublisher(0, c.Discovery, "")
		var chain []cid.Cid
		if c.Kind == "ads" {
			p.ExtendAds(c.N)
			chain = p.Chain
		} else if c.Kind == "hamt" {
			// generic nodes: no block hook can name the next CID, so only the explore-all selector finds them
			chain = p.BuildGenericChain(c.N, 1)
		} else {
			chain = p.BuildEntries(c.N, 1)
		}
		pos := map[string]int{}
		for i, ci := range chain {
			pos[ci.String()] = i
		}
		var opts []dagsync.Option
		if c.AdsDepth != 0 {
			opts = append(opts, dagsync.AdsDepthLimit(c.AdsDepth))
		}
		if c.EntriesDepth != 0 {
			opts = append(opts, dagsync.EntriesDepthLimit(c.EntriesDepth))
		}
		if c.FirstDepth != 0 {
			opts = append(opts, dagsync.FirstSyncDepth(c.FirstDepth))
		}
		if !c.SegScoped {
			opts = append(opts, dagsync.SegmentDepthLimit(seg))
		}
		if c.Kind == "ads" && c.InitLatest == "lastknown" {
			lk := chain[c.InitPos]
			opts = append(opts, dagsync.WithLastKnownSync(func(id peer.ID) (cid.Cid, bool) { return lk, id == p.ID }))
		}
		s, err := world.NewSub(w, true, opts...)
		if err != nil {
			fail = "NewSubscriber: " + err.Error()
			return
		}
		ctx := context.Background()
		if c.Kind == "ads" {
			switch c.InitLatest {
			case "set":
				_ = s.S.SetLatestSync(p.ID, chain[c.InitPos])
			case "head":
				_ = s.S.SetLatestSync(p.ID, chain[c.N-1])
			case "offchain":
				_ = s.S.SetLatestSync(p.ID, offChainCid())
			case "priorsync":
				p.Pub.SetRoot(chain[c.InitPos])
				if _, err := s.S.SyncAdChain(ctx, p.Info(), dagsync.ScopedDepthLimit(-1), dagsync.ScopedSegmentDepthLimit(-1)); err != nil {
					fail = "prior sync failed: " + err.Error()
					return
				}
				p.Pub.SetRoot(chain[c.N-1])
				w.Settle()
			}
		}
		for _, i := range pre {
			s.Put(chain[i], p.Body(chain[i]))
		}
		hooks0, ev0, req0 := s.NHooks(), s.NEvents(), len(w.Requests())
		var ret cid.Cid
		switch {
		case c.Kind == "ads" && c.Entry == "announce":
			err = s.S.Announce(ctx, chain[c.N-1], p.Info())
			w.Settle()
			ret = chain[c.N-1]
			// failure of an announce-triggered sync is reported as an event
		case c.Kind == "ads":
			var so []dagsync.SyncOption
			switch c.StopKind {
			case "pos":
				so = append(so, dagsync.WithStopAdCid(chain[c.StopPos]))
			case "head":
				h := c.N - 1
				if c.ExplicitHead {
					h = c.HeadPos
				}
				so = append(so, dagsync.WithStopAdCid(chain[h]))
			case "offchain":
				so = append(so, dagsync.WithStopAdCid(offChainCid()))
			}
			if c.Resync {
				so = append(so, dagsync.WithAdsResync(true))
			}
			if c.ExplicitHead {
				so = append(so, dagsync.WithHeadAdCid(chain[c.HeadPos]))
			}
			if c.ScopedDepth != 0 {
				so = append(so, dagsync.ScopedDepthLimit(c.ScopedDepth))
			}
			if c.SegScoped {
				so = append(so, dagsync.ScopedSegmentDepthLimit(seg))
			}
			if c.ScopedHook {
				so = append(so, dagsync.ScopedBlockHook(s.ScopedHook()))
			}
			ret, err = s.S.SyncAdChain(ctx, p.Info(), so...)
		case c.Kind == "entries":
			var so []dagsync.SyncOption
			if c.ScopedDepth != 0 {
				so = append(so, dagsync.ScopedDepthLimit(c.ScopedDepth))
			}
			if c.ScopedHook {
				so = append(so, dagsync.ScopedBlockHook(s.ScopedHook()))
			}
			err = s.S.SyncEntries(ctx, p.Info(), chain[c.HeadPos], so...)
			ret = chain[c.HeadPos]
		case c.Kind == "one":
			err = s.S.SyncOneEntry(ctx, p.Info(), chain[c.HeadPos])
			ret = chain[c.HeadPos]
		case c.Kind == "hamt":
			var so []dagsync.SyncOption
			if c.ScopedHook {
				so = append(so, dagsync.ScopedBlockHook(s.ScopedHook()))
			}
			err = s.S.SyncHAMTEntries(ctx, p.Info(), chain[c.HeadPos], so...)
			ret = chain[c.HeadPos]
		}
		w.Settle()
		if err != nil {
			o.Err = err.Error()
		}
		observed := s.HookCids(hooks0)
		if c.ScopedHook {
			// the call's own hook replaces the subscriber's for this sync
			if len(observed) != 0 {
				fail = fmt.Sprintf("the subscriber's general hook was called %d times during a sync that brought its own scoped hook", len(observed))
			}
			observed = nil
			for _, hc := range s.ScopedCalls() {
				observed = append(observed, hc.Cid)
				if hc.Peer != p.ID {
					fail = fmt.Sprintf("scoped hook called with peer %s, publisher is %s", hc.Peer, p.ID)
				}
			}
		}
		for _, h := range observed {
			if i, ok := pos[h.String()]; ok {
				o.Hooks = append(o.Hooks, i)
			} else {
				o.Hooks = append(o.Hooks, -9)
			}
		}
		for _, hc := range s.Hooks[hooks0:] {
			if hc.Peer != p.ID {
				fail = fmt.Sprintf("hook called with peer %s, publisher is %s", hc.Peer, p.ID)
			}
		}
		if i, ok := pos[ret.String()]; ok {
			o.Ret = fmt.Sprint(i)
		} else {
			o.Ret = ret.String()
		}
		l := s.Latest(p.ID)
		if i, ok := pos[l.String()]; ok {
			o.Latest = fmt.Sprint(i)
		} else if l == cid.Undef {
			o.Latest = "none"
		} else {
			o.Latest = "offchain"
		}
		for _, ev := range s.EventsFrom(ev0) {
			e := fmt.Sprintf("cid=%d count=%d", pos[ev.Cid.String()], ev.Count)
			if ev.Err != nil {
				e += " err=" + ev.Err.Error()
			}
			if ev.PeerID != p.ID {
				e += " WRONG-PEER"
			}
			o.Events = append(o.Events, e)
		}
		for _, r := range w.Requests()[req0:] {
			switch r.Kind {
			case "head":
				o.HeadReqs++
			case "block":
				if i, ok := pos[r.Cid]; ok {
					o.Requests = append(o.Requests, i)
				} else {
					o.Requests = append(o.Requests, -9)
				}
			}
		}
		bad := map[string]bool{}
		for _, b := range s.Audit() {
			bad[b] = true
		}
		for _, i := range model(c).List {
			if !s.Has(chain[i]) || bad[chain[i].String()] {
				o.Missing = append(o.Missing, i)
			}
		}
		if err := s.Shutdown(); err != nil {
			fail = "Close: " + err.Error()
		}
	})
	return
}

func eqInts(a, b []int) bool {
	if len(a) != len(b) {
		return false
	}
	for i := range a {
		if a[i] != b[i] {
			return false
		}
	}
	return true
}

func runCase(t *testing.T) func(Case) pbt.Result {
	return func(c Case) pbt.Result {
		e := model(c)
		res := pbt.Result{Classes: []string{"kind=" + c.Kind, "entry=" + c.Entry, "init=" + c.InitLatest}}
		if c.Kind == "ads" && c.Entry == "sync" {
			res.Classes = append(res.Classes, "stop="+c.StopKind)
			if c.Resync {
				res.Classes = append(res.Classes, "resync")
			}
			if c.ExplicitHead {
				res.Classes = append(res.Classes, "explicit-head")
			}
		}
		// non-triviality
		full := c.N
		if c.Kind != "ads" || (c.ExplicitHead && c.Entry == "sync") {
			full = c.HeadPos + 1
		}
		cut := len(e.List) < full
		if cut {
			res.Classes = append(res.Classes, "cut-by-stop-or-depth")
		}
		if e.NoRequests {
			res.Classes = append(res.Classes, "stop=head:nothing-to-do")
		}
		var first *obs
		for _, seg := range c.Segs {
			for _, pre := range c.Prestores {
				if len(e.List) >= 2 && (cut || (seg > 0 && int(seg) < len(e.List)) || len(pre) > 0) {
					res.NonTrivial = true
				}
				o, fail := runMember(t, c, seg, pre)
				ctxs := fmt.Sprintf("[segment=%d prestored=%v] %+v", seg, pre, c)
				if fail != "" {
					res.Fail = fail + " " + ctxs
					return res
				}
				if o.Err != "" {
					res.Fail = fmt.Sprintf("sync failed: %s %s", o.Err, ctxs)
					return res
				}
				// (1) model
				if !eqInts(o.Hooks, e.List) {
					res.Fail = fmt.Sprintf("hook calls %v, expected %v (positions, newest first) %s", o.Hooks, e.List, ctxs)
					return res
				}
				if len(o.Missing) > 0 {
					res.Fail = fmt.Sprintf("blocks %v not readable from the local store (or not hashing to their CID) after the sync %s", o.Missing, ctxs)
					return res
				}
				if o.Ret != fmt.Sprint(e.Head) {
					res.Fail = fmt.Sprintf("returned head %s, expected position %d %s", o.Ret, e.Head, ctxs)
					return res
				}
				if c.Kind == "ads" && e.AssertLatest {
					if e.UpdatesHead {
						wantEv := fmt.Sprintf("cid=%d count=%d", e.Head, len(e.List))
						if o.Latest != fmt.Sprint(e.Head) || len(o.Events) != 1 || o.Events[0] != wantEv {
							res.Fail = fmt.Sprintf("latest-sync %s events %v, expected latest %d and exactly one event {%s} %s", o.Latest, o.Events, e.Head, wantEv, ctxs)
							return res
						}
					} else {
						wantLatest := map[string]string{"none": "none", "set": fmt.Sprint(c.InitPos), "priorsync": fmt.Sprint(c.InitPos), "lastknown": fmt.Sprint(c.InitPos), "head": fmt.Sprint(c.N - 1), "offchain": "offchain"}[c.InitLatest]
						if o.Latest != wantLatest || len(o.Events) != 0 {
							res.Fail = fmt.Sprintf("latest-sync %s events %v, expected latest unchanged (%s) and no event %s", o.Latest, o.Events, wantLatest, ctxs)
							return res
						}
					}
				}
				if c.Kind != "ads" && len(o.Events) != 0 {
					res.Fail = fmt.Sprintf("entries sync emitted events %v %s", o.Events, ctxs)
					return res
				}
				// (2) request log
				preSet := map[int]bool{}
				for _, i := range pre {
					preSet[i] = true
				}
				if c.Kind == "ads" && c.InitLatest == "priorsync" {
					for i := 0; i <= c.InitPos; i++ {
						preSet[i] = true
					}
				}
				var wantReq []int
				for _, i := range e.List {
					if !preSet[i] {
						wantReq = append(wantReq, i)
					}
				}
				if !eqInts(o.Requests, wantReq) {
					res.Fail = fmt.Sprintf("block requests %v, expected %v (segment blocks that are not stored locally, in order) %s", o.Requests, wantReq, ctxs)
					return res
				}
				wantHead := 0
				if c.Kind == "ads" && c.Entry == "sync" && !c.ExplicitHead {
					wantHead = 1
				}
				if o.HeadReqs != wantHead {
					res.Fail = fmt.Sprintf("%d head requests, expected %d %s", o.HeadReqs, wantHead, ctxs)
					return res
				}
				// (3) metamorphic: identical across the family
				if first == nil {
					oo := o
					first = &oo
				} else if first.key() != o.key() {
					res.Fail = fmt.Sprintf("result depends on segment size / pre-stored blocks:\n first: %s\n  this: %s %s", first.key(), o.key(), ctxs)
					return res
				}
			}
		}
		return res
	}
}

const rule = "base configuration: chain kind (ads via SyncAdChain or announce, entries via SyncEntries / SyncOneEntry, a path of generic linked nodes via SyncHAMTEntries) x length 1..12 x initial latest-sync (none, SetLatestSync position, earlier real sync, WithLastKnownSync, head, off-chain) x stop CID (none, position, head, off-chain) x resync x explicit or queried head x the subscriber's block hook (choosing the next segment itself or through the library's MakeGeneralBlockHook) or a hook scoped to the call x AdsDepthLimit / EntriesDepthLimit / FirstSyncDepth / ScopedDepthLimit (unset, -1, 1..n+2) x plain or discovery transport; each base configuration is run as a family over segment sizes {disabled, 1, 3 drawn in 1..n+2} (subscriber-wide or per call) x pre-stored subsets {none, all, drawn, head only}; oracles: reference model of the expected block list (hooks in order, once each, right peer; blocks readable and hashing to their CID; returned head; latest-sync and exactly one event with the count, or unchanged and none), request log (block requests = expected list minus locally stored blocks, in order; head request iff queried), and identical observations across the family. Non-trivial: expected list >= 2 blocks and (cut by stop/depth, or segment smaller than the list, or something pre-stored); distinct by base configuration."

var assumptions = []string{"strict ads selector (the default); the non-strict selector follows every link and is not modelled", "resync together with a queried head: latest-sync update is not asserted (documentation and code disagree)", "announce-triggered syncs announce the chain head"}

func TestC01_Random(t *testing.T) {
	pbt.Run(t, pbt.Config{Prop: "C01", Unit: "TestC01_Random", Rule: rule, Assumptions: assumptions, TrackCurrent: true}, genCase, runCase(t))
}

// Exhaustive sweep of small chains.
func TestC01_Sweep(t *testing.T) {
	maxN := 3
	if pbt.Tier() == "thorough" {
		maxN = 5
	}
	if v := os.Getenv("VERIF_C01_MAXN"); v != "" {
		fmt.Sscan(v, &maxN)
	}
	pbt.RunEnum(t, pbt.Config{Prop: "C01", Unit: "TestC01_Sweep", TrackCurrent: true, Assumptions: assumptions,
		Rule: fmt.Sprintf("exhaustive for chain lengths 1..%d: ads via SyncAdChain with every stop position (none = first sync, each position, head) given as initial latest-sync x depth limit 0..n+1 (subscriber-wide) x {queried head, every explicit head} and entries via SyncEntries from every start x every depth; each run as a family over every segment size {-1, 1..n+1} x pre-stored subsets {none, all, head only, all but head}; same oracles as TestC01_Random. Every case with an expected list of >= 2 blocks is counted non-trivial; distinct by base configuration.", maxN),
	}, func(yield func(Case) bool) {
		for n := 1; n <= maxN; n++ {
			var segs []int64
			segs = append(segs, -1)
			for s := 1; s <= n+1; s++ {
				segs = append(segs, int64(s))
			}
			all := make([]int, n)
			for i := range all {
				all[i] = i
			}
			pres := [][]int{nil, all, {n - 1}, all[:n-1]}
			for depth := 0; depth <= n+1; depth++ {
				for stop := -1; stop < n; stop++ {
					for head := -1; head < n; head++ {
						c := Case{Kind: "ads", N: n, AdsDepth: int64(depth), InitLatest: "none", StopKind: "none", Entry: "sync", Segs: segs, Prestores: pres}
						if stop >= 0 {
							c.InitLatest, c.InitPos = "set", stop
						}
						if head >= 0 {
							c.ExplicitHead, c.HeadPos = true, head
						}
						if !yield(c) {
							return
						}
					}
				}
				for head := 0; head < n; head++ {
					c := Case{Kind: "entries", N: n, EntriesDepth: int64(depth), HeadPos: head, InitLatest: "none", StopKind: "none", Entry: "sync", Segs: segs, Prestores: pres, Discovery: depth%2 == 1}
					if !yield(c) {
						return
					}
				}
			}
		}
	}, func(c Case) pbt.Result {
		r := runCase(t)(c)
		return r
	})
}

var _ = strings.Join
