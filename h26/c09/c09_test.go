package c09

import (
	"context"
	"fmt"
	"testing"
	"testing/synctest"

	"github.com/ipfs/go-cid"
	"github.com/ipni/go-libipni/announce"
	"github.com/libp2p/go-libp2p/core/peer"
	"github.com/multiformats/go-multiaddr"
	"github.com/multiformats/go-multihash"
	"pgregory.net/rapid"

	"verif/h23/gen"
	"verif/h23/pbt"
)

// ---------------------------------------------------------------- reference model of the duplicate filter

type lruModel struct {
	cap  int
	list []string // most recent first
}

func (m *lruModel) idx(s string) int {
	for i, x := range m.list {
		if x == s {
			return i
		}
	}
	return -1
}

// update: true if s was present (and is now the most recent); false if it was added (evicting the least recent when full).
func (m *lruModel) update(s string) (hit bool, evicted bool) {
	if i := m.idx(s); i >= 0 {
		m.list = append([]string{s}, append(append([]string(nil), m.list[:i]...), m.list[i+1:]...)...)
		return true, false
	}
	if len(m.list) == m.cap {
		m.list = m.list[:len(m.list)-1]
		evicted = true
	}
	m.list = append([]string{s}, m.list...)
	return false, evicted
}

func (m *lruModel) remove(s string) bool {
	if i := m.idx(s); i >= 0 {
		m.list = append(append([]string(nil), m.list[:i]...), m.list[i+1:]...)
		return true
	}
	return false
}

// ---------------------------------------------------------------- (a) receiver, direct path, in a bubble

type addrDesc struct {
	Text  string
	Class string
}

type rstep struct {
	Op    string // direct | uncache
	Cid   int
	Peer  int
	Addrs []addrDesc
}

type Case struct {
	NCids    int
	Allow    []bool // per peer (4 peers); nil = no filter
	FilterIP bool
	Steps    []rstep
}

func genCase(t *rapid.T) Case {
	c := Case{NCids: rapid.IntRange(70, 100).Draw(t, "ncids"), FilterIP: rapid.Bool().Draw(t, "filterip")}
	if rapid.Bool().Draw(t, "hasallow") {
		for i := 0; i < 4; i++ {
			c.Allow = append(c.Allow, rapid.IntRange(0, 3).Draw(t, "allow") > 0)
		}
	}
	n := rapid.OneOf(rapid.IntRange(1, 60), rapid.IntRange(60, 400)).Draw(t, "nsteps")
	// CIDs are drawn with locality so that duplicates, evictions and re-announcements after eviction all occur
	window := rapid.IntRange(2, c.NCids).Draw(t, "window")
	basec := 0
	for i := 0; i < n; i++ {
		s := rstep{Op: "direct"}
		if rapid.IntRange(0, 7).Draw(t, "uncache") == 0 {
			s.Op = "uncache"
		}
		if rapid.IntRange(0, 3).Draw(t, "slide") == 0 {
			basec = (basec + rapid.IntRange(1, 5).Draw(t, "by")) % c.NCids
		}
		s.Cid = (basec + rapid.IntRange(0, window-1).Draw(t, "cidoff")) % c.NCids
		s.Peer = rapid.IntRange(0, 3).Draw(t, "peer")
		if s.Op == "direct" {
			na := rapid.IntRange(0, 4).Draw(t, "naddrs")
			for k := 0; k < na; k++ {
				a := gen.AddrOf("").Draw(t, "addr")
				s.Addrs = append(s.Addrs, addrDesc{a.MA.String(), a.Class})
			}
		}
		c.Steps = append(c.Steps, s)
	}
	return c
}

// cidOf maps alphabet index i to a CID. Every fifth index shares its digest with its predecessor and differs
// only in codec or version: distinct CIDs, so distinct entries of the duplicate filter.
func cidOf(i int) cid.Cid {
	base, variant := i, 0
	if i%5 == 1 {
		base, variant = i-1, 1+(i/5)%3
	}
	mh, _ := multihash.Sum([]byte(fmt.Sprintf("c09-cid-%d", base)), multihash.SHA2_256, -1)
	switch variant {
	case 1:
		return cid.NewCidV1(cid.DagCBOR, mh)
	case 2:
		return cid.NewCidV1(cid.Raw, mh)
	case 3:
		return cid.NewCidV0(mh)
	}
	return cid.NewCidV1(cid.DagJSON, mh)
}

func keepAddr(class string, filter bool) (keep, asserted bool) {
	if !filter {
		return true, true
	}
	switch class {
	case gen.IPPublic, "dns", "other":
		return true, true
	case gen.IPPrivate, gen.IPLoopback, gen.IPUnspecified, "dns-localhost":
		return false, true
	}
	return false, false // special-purpose ranges: not asserted
}

func runCase(t *testing.T) func(Case) pbt.Result {
	return func(c Case) (res pbt.Result) {
		defer func() {
			if p := recover(); p != nil {
				res.Fail = fmt.Sprintf("panic: %v", p)
			}
		}()
		stats := map[string]int{}
		synctest.Test(t, func(t *testing.T) {
			keys := gen.Keys()
			var opts []announce.Option
			if c.Allow != nil {
				opts = append(opts, announce.WithAllowPeer(func(p peer.ID) bool {
					for i := 0; i < 4; i++ {
						if keys[i].ID == p {
							return c.Allow[i]
						}
					}
					return false
				}))
			}
			opts = append(opts, announce.WithFilterIPs(c.FilterIP))
			r, err := announce.NewReceiver(nil, "", opts...)
			if err != nil {
				res.Fail = err.Error()
				return
			}
			m := &lruModel{cap: 64}
			for i, s := range c.Steps {
				ci := cidOf(s.Cid)
				if s.Op == "uncache" {
					done := make(chan struct{})
					go func() { r.UncacheCid(ci); close(done) }()
					synctest.Wait()
					select {
					case <-done:
					default:
						res.Fail = fmt.Sprintf("step %d: UncacheCid blocked", i)
						return
					}
					if m.remove(ci.String()) {
						stats["uncache-hit"]++
					}
					continue
				}
				ai := peer.AddrInfo{ID: keys[s.Peer].ID}
				for _, a := range s.Addrs {
					ai.Addrs = append(ai.Addrs, multiaddr.StringCast(a.Text))
				}
				allowed := c.Allow == nil || c.Allow[s.Peer]
				wantDeliver := false
				if allowed {
					hit, ev := m.update(ci.String())
					wantDeliver = !hit
					if hit {
						stats["duplicate"]++
					}
					if ev {
						stats["eviction"]++
					}
				} else {
					stats["rejected-peer"]++
				}
				dd := make(chan error, 1)
				go func() { dd <- r.Direct(context.Background(), ci, ai) }()
				nctx, ncancel := context.WithCancel(context.Background())
				type nres struct {
					a   announce.Announce
					err error
				}
				nd := make(chan nres, 1)
				go func() { a, err := r.Next(nctx); nd <- nres{a, err} }()
				synctest.Wait()
				select {
				case err := <-dd:
					if err != nil {
						res.Fail = fmt.Sprintf("step %d: Direct returned %v", i, err)
						ncancel()
						<-nd
						return
					}
				default:
					res.Fail = fmt.Sprintf("step %d: Direct is blocked although the consumer is waiting", i)
					ncancel()
					return
				}
				var got *announce.Announce
				select {
				case x := <-nd:
					if x.err != nil {
						res.Fail = fmt.Sprintf("step %d: Next returned %v", i, x.err)
						ncancel()
						return
					}
					got = &x.a
				default:
					ncancel()
					<-nd
				}
				ncancel()
				what := fmt.Sprintf("step %d: direct(cid %d, peer %d allowed=%v)", i, s.Cid, s.Peer, allowed)
				if wantDeliver && got == nil {
					res.Fail = what + ": not delivered, but the peer is allowed and the CID is not among the 64 most recently seen"
					return
				}
				if !wantDeliver && got != nil {
					why := "the CID is among the 64 most recently seen (not un-cached)"
					if !allowed {
						why = "the peer is rejected by the allow filter"
					}
					res.Fail = what + ": delivered, but " + why
					return
				}
				if got != nil {
					stats["delivered"]++
					if got.Cid != ci || got.PeerID != keys[s.Peer].ID {
						res.Fail = fmt.Sprintf("%s: delivered cid %s peer %s, announced %s by %s", what, got.Cid, got.PeerID, ci, keys[s.Peer].ID)
						return
					}
					var want []string
					class := map[string]string{}
					for _, a := range s.Addrs {
						class[a.Text] = a.Class
						if keep, asserted := keepAddr(a.Class, c.FilterIP); keep && asserted {
							want = append(want, a.Text)
						}
					}
					var gotA []string
					for _, a := range got.Addrs {
						if a == nil {
							res.Fail = what + ": delivered a nil address"
							return
						}
						cl, ok := class[a.String()]
						if !ok {
							res.Fail = fmt.Sprintf("%s: delivered address %s that was not announced", what, a)
							return
						}
						if _, asserted := keepAddr(cl, c.FilterIP); asserted {
							gotA = append(gotA, a.String())
						}
					}
					if fmt.Sprint(gotA) != fmt.Sprint(want) {
						res.Fail = fmt.Sprintf("%s (filtering %v): delivered addresses %v, expected %v of the announced %v", what, c.FilterIP, gotA, want, s.Addrs)
						return
					}
				}
			}
			done := make(chan error, 1)
			go func() { done <- r.Close() }()
			synctest.Wait()
			select {
			case <-done:
			default:
				res.Fail = "Close blocked"
			}
		})
		for k := range stats {
			res.Classes = append(res.Classes, k)
		}
		res.NonTrivial = stats["eviction"] > 0 || stats["uncache-hit"] > 0 || (stats["duplicate"] > 0 && stats["rejected-peer"] > 0)
		return res
	}
}

func TestC09_Direct(t *testing.T) {
	pbt.Run(t, pbt.Config{Prop: "C09", Unit: "TestC09_Direct", TrackCurrent: true,
		Rule: "sequences of 1..400 direct announcements (CID from an alphabet of 70..100 > cache size in which one CID in five shares its digest with its neighbour and differs only in codec or version, drawn with a sliding locality window; one of 4 peers; 0..4 addresses over public / private / loopback / unspecified / special IPv4+IPv6, DNS, localhost, non-IP) and un-cache operations against a real receiver (no pubsub) with a drawn allow filter and IP filtering on/off; after every announcement a consumer waits and the bubble is settled exactly (synctest.Wait): delivered iff the reference model (allow set + recency list of capacity 64) says so, with the same CID and peer and exactly the addresses the filter specification keeps; rejected peers leave the model untouched, duplicates refresh recency, un-cache removes. Non-trivial: an eviction, an un-cache of a cached CID, or duplicates together with rejected peers; distinct by case.",
		Assumptions: []string{"special-purpose IP ranges are not asserted either way by the address filter oracle"},
	}, genCase, runCase(t))
}

// ---------------------------------------------------------------- (b) exhaustive differential of the duplicate filter

type lruCase struct {
	Cap int
	Len int
	Seq int // base-8 digits: op = digit/4 (0 update, 1 remove), symbol = digit%4
}

func TestC09_LRUExhaustive(t *testing.T) {
	maxLen := 6
	if pbt.Tier() == "thorough" {
		maxLen = 7
	}
	pbt.RunEnum(t, pbt.Config{Prop: "C09", Unit: "TestC09_LRUExhaustive",
		Rule: fmt.Sprintf("exhaustive: every sequence of update/remove operations of length 1..%d over a 4-symbol alphabet at capacities 1..3, applied to the receiver's real duplicate filter (through the verif-tag export) and to the reference recency list; every return value and the length must agree after every operation. Non-trivial: the sequence contains an eviction or a removal of a cached entry; distinct by (capacity, sequence).", maxLen),
	}, func(yield func(lruCase) bool) {
		for l := 1; l <= maxLen; l++ {
			total := 1
			for i := 0; i < l; i++ {
				total *= 8
			}
			for cp := 1; cp <= 3; cp++ {
				for s := 0; s < total; s++ {
					if !yield(lruCase{Cap: cp, Len: l, Seq: s}) {
						return
					}
				}
			}
		}
	}, func(c lruCase) pbt.Result {
		real := announce.VerifNewStringLRU(c.Cap)
		m := &lruModel{cap: c.Cap}
		res := pbt.Result{Key: fmt.Sprintf("%d/%d/%d", c.Cap, c.Len, c.Seq)}
		seq := c.Seq
		for i := 0; i < c.Len; i++ {
			d := seq % 8
			seq /= 8
			sym := string(rune('a' + d%4))
			if d/4 == 0 {
				wh, ev := m.update(sym)
				if ev {
					res.NonTrivial = true
				}
				if gh := real.Update(sym); gh != wh {
					res.Fail = fmt.Sprintf("capacity %d, sequence %s: update(%s) at step %d returned %v, reference %v", c.Cap, render(c), sym, i, gh, wh)
					return res
				}
			} else {
				wh := m.remove(sym)
				if wh {
					res.NonTrivial = true
				}
				if gh := real.Remove(sym); gh != wh {
					res.Fail = fmt.Sprintf("capacity %d, sequence %s: remove(%s) at step %d returned %v, reference %v", c.Cap, render(c), sym, i, gh, wh)
					return res
				}
			}
			if real.Len() != len(m.list) {
				res.Fail = fmt.Sprintf("capacity %d, sequence %s: length %d after step %d, reference %d", c.Cap, render(c), real.Len(), i, len(m.list))
				return res
			}
		}
		return res
	})
}

func render(c lruCase) string {
	s, seq := "", c.Seq
	for i := 0; i < c.Len; i++ {
		d := seq % 8
		seq /= 8
		s += fmt.Sprintf("%s(%c) ", []string{"update", "remove"}[d/4], 'a'+d%4)
	}
	return s
}
