package c13

import (
	"bytes"
	"context"
	"fmt"
	"testing"

	"github.com/ipfs/go-cid"
	"github.com/ipld/go-ipld-prime"
	"github.com/ipld/go-ipld-prime/codec/dagcbor"
	"github.com/ipld/go-ipld-prime/codec/dagjson"
	cidlink "github.com/ipld/go-ipld-prime/linking/cid"
	"github.com/ipld/go-ipld-prime/node/basicnode"
	"github.com/ipld/go-ipld-prime/storage/memstore"
	"github.com/ipni/go-libipni/ingest/schema"
	"github.com/multiformats/go-multicodec"
	"github.com/multiformats/go-multihash"
	"pgregory.net/rapid"

	"verif/h23/adgen"
	"verif/h23/gen"
	"verif/h23/pbt"
)

func linkEq(a, b ipld.Link) bool {
	if a == nil || b == nil {
		return a == nil && b == nil
	}
	return a.(cidlink.Link).Cid.Equals(b.(cidlink.Link).Cid)
}

func strsEq(a, b []string) bool {
	if len(a) != len(b) {
		return false
	}
	for i := range a {
		if a[i] != b[i] {
			return false
		}
	}
	return true
}

func adEq(a, b *schema.Advertisement) string {
	switch {
	case !linkEq(a.PreviousID, b.PreviousID):
		return "PreviousID"
	case a.Provider != b.Provider:
		return "Provider"
	case !strsEq(a.Addresses, b.Addresses):
		return "Addresses"
	case !bytes.Equal(a.Signature, b.Signature):
		return "Signature"
	case !linkEq(a.Entries, b.Entries):
		return "Entries"
	case !bytes.Equal(a.ContextID, b.ContextID):
		return "ContextID"
	case !bytes.Equal(a.Metadata, b.Metadata):
		return "Metadata"
	case a.IsRm != b.IsRm:
		return "IsRm"
	case (a.ExtendedProvider == nil) != (b.ExtendedProvider == nil):
		return "ExtendedProvider presence"
	}
	if a.ExtendedProvider != nil {
		x, y := a.ExtendedProvider, b.ExtendedProvider
		if x.Override != y.Override {
			return "ExtendedProvider.Override"
		}
		if len(x.Providers) != len(y.Providers) {
			return "ExtendedProvider.Providers length"
		}
		for i := range x.Providers {
			p, q := x.Providers[i], y.Providers[i]
			if p.ID != q.ID || !strsEq(p.Addresses, q.Addresses) || !bytes.Equal(p.Metadata, q.Metadata) || !bytes.Equal(p.Signature, q.Signature) {
				return fmt.Sprintf("ExtendedProvider.Providers[%d]", i)
			}
		}
	}
	return ""
}

func chunkEq(a, b *schema.EntryChunk) string {
	if len(a.Entries) != len(b.Entries) {
		return "Entries length"
	}
	for i := range a.Entries {
		if !bytes.Equal(a.Entries[i], b.Entries[i]) {
			return fmt.Sprintf("Entries[%d]", i)
		}
	}
	if !linkEq(a.Next, b.Next) {
		return "Next"
	}
	return ""
}

type codecT struct {
	name string
	code uint64
	enc  func(ipld.Node, *bytes.Buffer) error
	dec  func(ipld.NodeAssembler, *bytes.Buffer) error
}

var codecs = []codecT{
	{"dagjson", uint64(multicodec.DagJson), func(n ipld.Node, b *bytes.Buffer) error { return dagjson.Encode(n, b) }, func(na ipld.NodeAssembler, b *bytes.Buffer) error { return dagjson.Decode(na, b) }},
	{"dagcbor", uint64(multicodec.DagCbor), func(n ipld.Node, b *bytes.Buffer) error { return dagcbor.Encode(n, b) }, func(na ipld.NodeAssembler, b *bytes.Buffer) error { return dagcbor.Decode(na, b) }},
}

type rtCase struct {
	IsAd   bool
	Ad     adgen.Ad
	EPSigs [][]byte
	Chunk  adgen.Chunk
}

func genRT(t *rapid.T) rtCase {
	c := rtCase{IsAd: rapid.IntRange(0, 2).Draw(t, "isad") > 0}
	if c.IsAd {
		c.Ad = adgen.GenAd(false).Draw(t, "ad")
		for range c.Ad.EPs {
			c.EPSigs = append(c.EPSigs, gen.Bytes(0, 40).Draw(t, "epsig"))
		}
	} else {
		c.Chunk = adgen.GenChunk().Draw(t, "chunk")
	}
	return c
}

func (c rtCase) buildAd() *schema.Advertisement {
	ad := c.Ad.Build()
	if ad.ExtendedProvider != nil {
		for i := range ad.ExtendedProvider.Providers {
			ad.ExtendedProvider.Providers[i].Signature = c.EPSigs[i]
		}
	}
	return ad
}

func newLsys() (ipld.LinkSystem, *memstore.Store) {
	st := &memstore.Store{}
	ls := cidlink.DefaultLinkSystem()
	ls.SetReadStorage(st)
	ls.SetWriteStorage(st)
	return ls, st
}

func runRT(c rtCase) pbt.Result {
	res := pbt.Result{}
	ctx := context.Background()
	if c.IsAd {
		ad := c.buildAd()
		present, absent := 0, 0
		for _, b := range []bool{c.Ad.HasPrev, c.Ad.HasEP, len(c.Ad.Addrs) > 0, len(c.Ad.Metadata) > 0, len(c.Ad.ContextID) > 0, c.Ad.HasEP && len(c.Ad.EPs) > 0} {
			if b {
				present++
			} else {
				absent++
			}
		}
		res.NonTrivial = present > 0 && absent > 0
		res.Classes = append(res.Classes, "ad", fmt.Sprintf("prev=%v", c.Ad.HasPrev), fmt.Sprintf("ep=%v/%d", c.Ad.HasEP, len(c.Ad.EPs)))
		if len(c.Ad.Metadata) == schema.MaxMetadataLen {
			res.Classes = append(res.Classes, "metadata=max")
		}
		if len(c.Ad.ContextID) == schema.MaxContextIDLen {
			res.Classes = append(res.Classes, "ctx=max")
		}
		n, err := ad.ToNode()
		if err != nil {
			return merge(res, pbt.Failf("Advertisement.ToNode: %v (%+v)", err, c.Ad))
		}
		for _, cd := range codecs {
			var buf bytes.Buffer
			if err := cd.enc(n, &buf); err != nil {
				return merge(res, pbt.Failf("%s encode: %v", cd.name, err))
			}
			enc := append([]byte(nil), buf.Bytes()...)
			nb := schema.AdvertisementPrototype.NewBuilder()
			if err := cd.dec(nb, &buf); err != nil {
				return merge(res, pbt.Failf("%s decode of own encoding: %v", cd.name, err))
			}
			got, err := schema.UnwrapAdvertisement(nb.Build())
			if err != nil {
				return merge(res, pbt.Failf("%s UnwrapAdvertisement: %v", cd.name, err))
			}
			if d := adEq(ad, got); d != "" {
				return merge(res, pbt.Failf("%s round trip changed %s\n in: %+v\nout: %+v", cd.name, d, ad, got))
			}
			// store twice -> same CID; generic vs typed load; BytesTo...
			ls, st := newLsys()
			lp := cidlink.LinkPrototype{Prefix: cid.Prefix{Version: 1, Codec: cd.code, MhType: uint64(multicodec.Sha2_256), MhLength: -1}}
			l1, err := ls.Store(ipld.LinkContext{Ctx: ctx}, lp, n)
			if err != nil {
				return merge(res, pbt.Failf("%s store: %v", cd.name, err))
			}
			n2, _ := c.buildAd().ToNode()
			l2, err := ls.Store(ipld.LinkContext{Ctx: ctx}, lp, n2)
			if err != nil || !linkEq(l1, l2) {
				return merge(res, pbt.Failf("%s: storing the same advertisement twice gave %v and %v (err %v)", cd.name, l1, l2, err))
			}
			stored, _ := st.Get(ctx, l1.(cidlink.Link).Cid.KeyString())
			if !bytes.Equal(stored, enc) {
				return merge(res, pbt.Failf("%s: stored bytes differ from the encoding", cd.name))
			}
			typed, err := ls.Load(ipld.LinkContext{Ctx: ctx}, l1, schema.AdvertisementPrototype)
			if err != nil {
				return merge(res, pbt.Failf("%s typed load: %v", cd.name, err))
			}
			generic, err := ls.Load(ipld.LinkContext{Ctx: ctx}, l1, basicnode.Prototype.Any)
			if err != nil {
				return merge(res, pbt.Failf("%s generic load: %v", cd.name, err))
			}
			at, err1 := schema.UnwrapAdvertisement(typed)
			ag, err2 := schema.UnwrapAdvertisement(generic)
			if err1 != nil || err2 != nil {
				return merge(res, pbt.Failf("%s unwrap typed/generic: %v / %v", cd.name, err1, err2))
			}
			if d := adEq(at, ag); d != "" {
				return merge(res, pbt.Failf("%s: generic-prototype load differs from typed load in %s", cd.name, d))
			}
			if d := adEq(ad, ag); d != "" {
				return merge(res, pbt.Failf("%s: loaded advertisement differs from stored one in %s", cd.name, d))
			}
			// a loaded advertisement stored again is the same block: an indexer that re-publishes what it loaded
			// must arrive at the CID it loaded from
			if rn, err := at.ToNode(); err != nil {
				return merge(res, pbt.Failf("%s: ToNode of the loaded advertisement: %v", cd.name, err))
			} else {
				var rbuf bytes.Buffer
				if err := cd.enc(rn, &rbuf); err != nil || !bytes.Equal(rbuf.Bytes(), stored) {
					return merge(res, pbt.Failf("%s: the loaded advertisement encodes to other bytes than the block it was loaded from (err %v): present-but-empty and absent parts are not kept apart\n stored: %s\n again:  %s", cd.name, err, clip(stored), clip(rbuf.Bytes())))
				}
			}
			ab, err := schema.BytesToAdvertisement(l1.(cidlink.Link).Cid, stored)
			if err != nil {
				return merge(res, pbt.Failf("%s BytesToAdvertisement: %v", cd.name, err))
			}
			if d := adEq(ad, &ab); d != "" {
				return merge(res, pbt.Failf("%s BytesToAdvertisement differs in %s", cd.name, d))
			}
			// a decoded value belongs to the caller: editing it must not show in a later decode of the same block
			ab.Addresses = append(ab.Addresses, "/ip4/9.9.9.9/tcp/9")
			if len(ab.Addresses) > 1 {
				ab.Addresses[0] = "/ip4/6.6.6.6/tcp/6"
			}
			ab.ContextID = append([]byte("edited-"), ab.ContextID...)
			if len(ab.Metadata) > 0 {
				ab.Metadata[0] ^= 0xff
			}
			if ab.ExtendedProvider != nil {
				ab.ExtendedProvider.Override = !ab.ExtendedProvider.Override
				for i := range ab.ExtendedProvider.Providers {
					ab.ExtendedProvider.Providers[i].ID = "edited"
					if len(ab.ExtendedProvider.Providers[i].Metadata) > 0 {
						ab.ExtendedProvider.Providers[i].Metadata[0] ^= 0xff
					}
				}
			}
			ab2, err := schema.BytesToAdvertisement(l1.(cidlink.Link).Cid, stored)
			if err != nil {
				return merge(res, pbt.Failf("%s BytesToAdvertisement (second decode of the same block): %v", cd.name, err))
			}
			if d := adEq(ad, &ab2); d != "" {
				return merge(res, pbt.Failf("%s: decoding the same block again after the first result was edited by the caller differs in %s", cd.name, d))
			}
			// the CID only selects the codec: other bytes handed in with the same CID are decoded, not remembered
			sib := c.buildAd()
			sib.ContextID = append([]byte("sibling-"), sib.ContextID...)
			if sn, err := sib.ToNode(); err == nil {
				var sbuf bytes.Buffer
				if err := cd.enc(sn, &sbuf); err == nil {
					sb, err := schema.BytesToAdvertisement(l1.(cidlink.Link).Cid, sbuf.Bytes())
					if err != nil {
						return merge(res, pbt.Failf("%s BytesToAdvertisement(sibling bytes): %v", cd.name, err))
					}
					if d := adEq(sib, &sb); d != "" {
						return merge(res, pbt.Failf("%s: bytes of another advertisement decoded under a CID used just before give a value that differs from what was encoded in %s", cd.name, d))
					}
				}
			}
		}
		return res
	}
	ch := c.Chunk.Build()
	res.Classes = append(res.Classes, "chunk", fmt.Sprintf("next=%v", c.Chunk.HasNext))
	res.NonTrivial = (len(ch.Entries) > 0) != c.Chunk.HasNext || len(ch.Entries) > 1
	n, err := ch.ToNode()
	if err != nil {
		return merge(res, pbt.Failf("EntryChunk.ToNode: %v", err))
	}
	for _, cd := range codecs {
		var buf bytes.Buffer
		if err := cd.enc(n, &buf); err != nil {
			return merge(res, pbt.Failf("%s encode: %v", cd.name, err))
		}
		nb := schema.EntryChunkPrototype.NewBuilder()
		if err := cd.dec(nb, &buf); err != nil {
			return merge(res, pbt.Failf("%s decode of own encoding: %v", cd.name, err))
		}
		got, err := schema.UnwrapEntryChunk(nb.Build())
		if err != nil {
			return merge(res, pbt.Failf("%s UnwrapEntryChunk: %v", cd.name, err))
		}
		if d := chunkEq(ch, got); d != "" {
			return merge(res, pbt.Failf("%s round trip changed %s", cd.name, d))
		}
		ls, st := newLsys()
		lp := cidlink.LinkPrototype{Prefix: cid.Prefix{Version: 1, Codec: cd.code, MhType: uint64(multicodec.Sha2_256), MhLength: -1}}
		l1, err := ls.Store(ipld.LinkContext{Ctx: ctx}, lp, n)
		if err != nil {
			return merge(res, pbt.Failf("%s store: %v", cd.name, err))
		}
		n2, _ := c.Chunk.Build().ToNode()
		l2, err := ls.Store(ipld.LinkContext{Ctx: ctx}, lp, n2)
		if err != nil || !linkEq(l1, l2) {
			return merge(res, pbt.Failf("%s: storing the same chunk twice gave %v and %v", cd.name, l1, l2))
		}
		typed, err1 := ls.Load(ipld.LinkContext{Ctx: ctx}, l1, schema.EntryChunkPrototype)
		generic, err2 := ls.Load(ipld.LinkContext{Ctx: ctx}, l1, basicnode.Prototype.Any)
		if err1 != nil || err2 != nil {
			return merge(res, pbt.Failf("%s load typed/generic: %v / %v", cd.name, err1, err2))
		}
		ct, err1 := schema.UnwrapEntryChunk(typed)
		cg, err2 := schema.UnwrapEntryChunk(generic)
		if err1 != nil || err2 != nil {
			return merge(res, pbt.Failf("%s unwrap typed/generic: %v / %v", cd.name, err1, err2))
		}
		if d := chunkEq(ct, cg); d != "" || chunkEq(ch, cg) != "" {
			return merge(res, pbt.Failf("%s: generic / typed / original chunk differ (%s)", cd.name, d))
		}
		stored, _ := st.Get(ctx, l1.(cidlink.Link).Cid.KeyString())
		cb, err := schema.BytesToEntryChunk(l1.(cidlink.Link).Cid, stored)
		if err != nil || chunkEq(ch, &cb) != "" {
			return merge(res, pbt.Failf("%s BytesToEntryChunk: %v", cd.name, err))
		}
	}
	return res
}

func merge(base, f pbt.Result) pbt.Result {
	base.Fail = f.Fail
	return base
}

func TestC13_RoundTrip(t *testing.T) {
	pbt.Run(t, pbt.Config{Prop: "C13", Unit: "TestC13_RoundTrip",
		Rule: "advertisements over all combinations of optional parts (previous link, extended providers present with 0..4 entries or absent), 0..5 addresses, context ID nil / 0..20 / exactly 64 B, metadata nil / small / any / exactly 1024 B, arbitrary signature bytes; entry chunks with 0..200 multihashes of mixed functions, with and without next link; both codecs; oracle: encode->decode gives a semantically equal value (nil == empty; optional parts keep presence), storing twice gives one CID, a loaded advertisement encodes to the bytes it was loaded from, generic-prototype load == typed load == BytesTo...; a second BytesToAdvertisement of the same block after the caller edited the first result, and of a sibling advertisement's bytes under the same CID, give what was encoded; peer IDs in base58 or CIDv1 text form. Non-trivial: at least one optional part present and one absent/empty; distinct by case.",
	}, genRT, runRT)
}

// ------------------------------------------------------------------ decoders on arbitrary bytes

type decCase struct {
	Codec int
	IsAd  bool
	Data  []byte
}

func genDec(t *rapid.T) decCase {
	c := decCase{Codec: rapid.IntRange(0, 1).Draw(t, "codec"), IsAd: rapid.Bool().Draw(t, "isad")}
	var b []byte
	if rapid.IntRange(0, 5).Draw(t, "raw") == 0 {
		b = gen.Bytes(0, 80).Draw(t, "rawbytes")
	} else {
		var n ipld.Node
		if c.IsAd != (rapid.IntRange(0, 9).Draw(t, "cross") == 0) {
			rc := rtCase{IsAd: true, Ad: adgen.GenAd(false).Draw(t, "ad")}
			for range rc.Ad.EPs {
				rc.EPSigs = append(rc.EPSigs, gen.Bytes(0, 8).Draw(t, "epsig"))
			}
			if len(rc.Ad.Metadata) > 40 {
				rc.Ad.Metadata = rc.Ad.Metadata[:40]
			}
			n, _ = rc.buildAd().ToNode()
		} else {
			ch := adgen.GenChunk().Draw(t, "chunk")
			if len(ch.Entries) > 5 {
				ch.Entries = ch.Entries[:5]
			}
			n, _ = ch.Build().ToNode()
		}
		var buf bytes.Buffer
		_ = codecs[c.Codec].enc(n, &buf)
		b = buf.Bytes()
	}
	nm := rapid.IntRange(0, 3).Draw(t, "nmut")
	for i := 0; i < nm && len(b) > 0; i++ {
		pos := rapid.IntRange(0, len(b)-1).Draw(t, "pos")
		switch rapid.IntRange(0, 4).Draw(t, "mut") {
		case 0:
			b[pos] ^= 1 << uint(rapid.IntRange(0, 7).Draw(t, "bit"))
		case 1:
			b = b[:pos]
		case 2:
			b = append(b[:pos:pos], append([]byte{rapid.Byte().Draw(t, "ins")}, b[pos:]...)...)
		case 3:
			b = append(b[:pos:pos], b[pos+1:]...)
		case 4:
			b[pos] = rapid.SampledFrom([]byte{0, '"', '{', '}', '[', ']', ':', ',', 0xa0, 0xbf, 0x9f, 0xff, 0xf6, 0xd8, 0x5f, 0x7f}).Draw(t, "named")
		}
	}
	c.Data = b
	return c
}

// decodeChecked: no panic; error, or a value that re-encodes and decodes to an equal value.
func decodeChecked(c decCase) (fail string, decoded bool) {
	cd := codecs[c.Codec]
	zmh, _ := multihash.Sum(nil, multihash.SHA2_256, -1)
	lcid := cid.NewCidV1(cd.code, zmh)
	if c.IsAd {
		ad, err := schema.BytesToAdvertisement(lcid, c.Data)
		if err != nil {
			return "", false
		}
		n, err := ad.ToNode()
		if err != nil {
			return fmt.Sprintf("decoded advertisement cannot be turned into a node: %v (input %x)", err, c.Data), true
		}
		var buf bytes.Buffer
		if err := cd.enc(n, &buf); err != nil {
			return fmt.Sprintf("decoded advertisement cannot be re-encoded: %v (input %x)", err, c.Data), true
		}
		ad2, err := schema.BytesToAdvertisement(lcid, buf.Bytes())
		if err != nil {
			return fmt.Sprintf("re-encoding of a decoded advertisement does not decode: %v (input %x)", err, c.Data), true
		}
		if d := adEq(&ad, &ad2); d != "" {
			return fmt.Sprintf("decode->encode->decode changed %s (input %x)", d, c.Data), true
		}
		return "", true
	}
	ch, err := schema.BytesToEntryChunk(lcid, c.Data)
	if err != nil {
		return "", false
	}
	n, err := ch.ToNode()
	if err != nil {
		return fmt.Sprintf("decoded chunk cannot be turned into a node: %v (input %x)", err, c.Data), true
	}
	var buf bytes.Buffer
	if err := cd.enc(n, &buf); err != nil {
		return fmt.Sprintf("decoded chunk cannot be re-encoded: %v (input %x)", err, c.Data), true
	}
	ch2, err := schema.BytesToEntryChunk(lcid, buf.Bytes())
	if err != nil {
		return fmt.Sprintf("re-encoding of a decoded chunk does not decode: %v (input %x)", err, c.Data), true
	}
	if d := chunkEq(&ch, &ch2); d != "" {
		return fmt.Sprintf("decode->encode->decode changed %s (input %x)", d, c.Data), true
	}
	return "", true
}

func runDec(c decCase) pbt.Result {
	fail, decoded := decodeChecked(c)
	res := pbt.Result{Fail: fail, NonTrivial: decoded || len(c.Data) > 4, Classes: []string{"codec=" + codecs[c.Codec].name}}
	if decoded {
		res.Classes = append(res.Classes, "decoded-ok")
	} else {
		res.Classes = append(res.Classes, "rejected")
	}
	return res
}

func TestC13_Decode(t *testing.T) {
	pbt.Run(t, pbt.Config{Prop: "C13", Unit: "TestC13_Decode",
		Rule: "decoder input for BytesToAdvertisement / BytesToEntryChunk in both codecs: raw bytes, and valid encodings of advertisements and chunks (also fed to the other type's decoder) with 0..3 byte-level mutations (bit flip, truncation, insertion, deletion, structural marker bytes); oracle: no panic; error, or a value whose ToNode + encode succeeds and decodes to an equal value. Non-trivial: decoded successfully or longer than 4 bytes; distinct by input.",
	}, genDec, runDec)
}

func FuzzC13_Decode(f *testing.F) {
	for _, isAd := range []bool{true, false} {
		for ci := range codecs {
			var n ipld.Node
			if isAd {
				rc := rtCase{IsAd: true, Ad: adgen.Ad{HasPrev: true, Prev: "bafkreiaaaaaaaaaaaaaaaaaaaaaaaaaaaaaaaaaaaaaaaaaaaaaaaaaaaa", Entries: "bafkreiaaaaaaaaaaaaaaaaaaaaaaaaaaaaaaaaaaaaaaaaaaaaaaaaaaaa", Addrs: []string{"/ip4/1.2.3.4/tcp/1"}, Metadata: []byte{1}, HasEP: true, EPs: []adgen.EP{{IDKey: 1}}}, EPSigs: [][]byte{{7}}}
				n, _ = rc.buildAd().ToNode()
			} else {
				n, _ = adgen.Chunk{Entries: [][]byte{{0x12, 0x01, 0x00}}, HasNext: true, Next: "bafkreiaaaaaaaaaaaaaaaaaaaaaaaaaaaaaaaaaaaaaaaaaaaaaaaaaaaa"}.Build().ToNode()
			}
			var buf bytes.Buffer
			_ = codecs[ci].enc(n, &buf)
			f.Add(buf.Bytes(), ci == 1, isAd)
		}
	}
	f.Fuzz(func(t *testing.T, data []byte, cbor bool, isAd bool) {
		c := decCase{Data: data, IsAd: isAd}
		if cbor {
			c.Codec = 1
		}
		if fail, _ := decodeChecked(c); fail != "" {
			t.Fatal(fail)
		}
	})
}

func clip(b []byte) string {
	if len(b) > 400 {
		return fmt.Sprintf("%q...", b[:400])
	}
	return fmt.Sprintf("%q", b)
}
