// Package gen holds the shared rapid generators: keys, peer IDs, CIDs,
// multihashes and multiaddrs.
package gen

import (
	"encoding/hex"
	"fmt"
	"net"
	"sync"

	"github.com/ipfs/go-cid"
	ic "github.com/libp2p/go-libp2p/core/crypto"
	"github.com/libp2p/go-libp2p/core/peer"
	"github.com/multiformats/go-multiaddr"
	"github.com/multiformats/go-multihash"
	"pgregory.net/rapid"
)

// Key is one entry of the fixed key pool.
type Key struct {
	Type string
	Priv ic.PrivKey
	ID   peer.ID
}

var (
	keysOnce sync.Once
	keys     []Key
)

// Keys returns the fixed pool (6 ed25519, 3 secp256k1, 3 ecdsa, 3 rsa-2048).
func Keys() []Key {
	keysOnce.Do(func() {
		for _, kh := range keyHex {
			b, err := hex.DecodeString(kh.Hex)
			if err != nil {
				panic(err)
			}
			p, err := ic.UnmarshalPrivateKey(b)
			if err != nil {
				panic(err)
			}
			id, err := peer.IDFromPrivateKey(p)
			if err != nil {
				panic(err)
			}
			keys = append(keys, Key{Type: kh.Type, Priv: p, ID: id})
		}
	})
	return keys
}

var (
	bigOnce sync.Once
	bigKey  Key
)

// BigKey is a fixed RSA-4096 key outside the pool: signatures and encoded public keys of several hundred bytes.
func BigKey() Key {
	bigOnce.Do(func() {
		b, err := hex.DecodeString(bigKeyHex)
		if err != nil {
			panic(err)
		}
		p, err := ic.UnmarshalPrivateKey(b)
		if err != nil {
			panic(err)
		}
		id, err := peer.IDFromPrivateKey(p)
		if err != nil {
			panic(err)
		}
		bigKey = Key{Type: "rsa-4096", Priv: p, ID: id}
	})
	return bigKey
}

// KeyIdx draws an index into Keys(); RSA keys (slow) get ~5 % of the draws.
func KeyIdx() *rapid.Generator[int] {
	return rapid.Custom(func(t *rapid.T) int {
		n := len(Keys())
		if rapid.IntRange(0, 19).Draw(t, "rsa?") == 0 {
			return rapid.IntRange(n-3, n-1).Draw(t, "rsakey")
		}
		return rapid.IntRange(0, n-4).Draw(t, "key")
	})
}

// Bytes draws a byte slice of length lo..hi.
func Bytes(lo, hi int) *rapid.Generator[[]byte] {
	return rapid.SliceOfN(rapid.Byte(), lo, hi)
}

// BoundaryBytes draws a byte string whose length is one of the given boundary lengths (each also minus and
// plus one) and whose content is a cheap deterministic pattern of two drawn bytes: sizes at which buffers,
// caps and limits change, which element-wise generation practically never reaches.
func BoundaryBytes(bounds ...int) *rapid.Generator[[]byte] {
	return rapid.Custom(func(t *rapid.T) []byte {
		b := rapid.SampledFrom(bounds).Draw(t, "bound")
		n := b + rapid.IntRange(-1, 1).Draw(t, "delta")
		if n < 0 {
			n = 0
		}
		a, m := rapid.Byte().Draw(t, "fill0"), rapid.Byte().Draw(t, "fillstep")
		out := make([]byte, n)
		for i := range out {
			out[i] = a + byte(i)*m
		}
		return out
	})
}

var mhCodes = []uint64{multihash.SHA2_256, multihash.SHA2_512, multihash.SHA1, multihash.IDENTITY, multihash.DBL_SHA2_256, multihash.SHA3_256, multihash.MD5}

// Multihash draws a valid multihash of a mixed hash function.
func Multihash() *rapid.Generator[multihash.Multihash] {
	return rapid.Custom(func(t *rapid.T) multihash.Multihash {
		code := rapid.SampledFrom(mhCodes).Draw(t, "mhcode")
		data := Bytes(0, 40).Draw(t, "mhdata")
		mh, err := multihash.Sum(data, code, -1)
		if err != nil {
			// not registered in this binary: fall back to sha2-256
			mh, err = multihash.Sum(data, multihash.SHA2_256, -1)
			if err != nil {
				panic(err)
			}
		}
		return mh
	})
}

var cidCodecs = []uint64{cid.Raw, cid.DagCBOR, cid.DagJSON, cid.DagProtobuf}

// Cid draws a defined CID (v1 of several codecs and hash functions, or v0).
func Cid() *rapid.Generator[cid.Cid] {
	return rapid.Custom(func(t *rapid.T) cid.Cid {
		if rapid.IntRange(0, 7).Draw(t, "v0?") == 0 {
			mh, _ := multihash.Sum(Bytes(0, 16).Draw(t, "d"), multihash.SHA2_256, -1)
			return cid.NewCidV0(mh)
		}
		return cid.NewCidV1(rapid.SampledFrom(cidCodecs).Draw(t, "codec"), Multihash().Draw(t, "mh"))
	})
}

// IP classes used by the address generators. Only "public" and the three
// clearly non-public classes are asserted by oracles; "special" is generated
// but asserted neither way.
const (
	IPPublic      = "public"
	IPPrivate     = "private"
	IPLoopback    = "loopback"
	IPUnspecified = "unspecified"
	IPSpecial     = "special"
)

// IP4 draws an IPv4 address of the given class.
func IP4(class string) *rapid.Generator[net.IP] {
	return rapid.Custom(func(t *rapid.T) net.IP {
		b := func(lo, hi int) byte { return byte(rapid.IntRange(lo, hi).Draw(t, "o")) }
		_ = b(0, 0) // a Custom generator must consume data even for constant classes
		switch class {
		case IPPublic:
			first := rapid.SampledFrom([]byte{1, 8, 23, 52, 93, 104, 151, 185, 200, 212}).Draw(t, "first")
			return net.IPv4(first, b(0, 255), b(0, 255), b(1, 254))
		case IPPrivate:
			switch rapid.IntRange(0, 2).Draw(t, "priv") {
			case 0:
				return net.IPv4(10, b(0, 255), b(0, 255), b(0, 255))
			case 1:
				return net.IPv4(172, b(16, 31), b(0, 255), b(0, 255))
			default:
				return net.IPv4(192, 168, b(0, 255), b(0, 255))
			}
		case IPLoopback:
			return net.IPv4(127, b(0, 255), b(0, 255), b(0, 255))
		case IPUnspecified:
			return net.IPv4(0, 0, 0, 0)
		default:
			switch rapid.IntRange(0, 4).Draw(t, "spec") {
			case 0:
				return net.IPv4(100, b(64, 127), b(0, 255), b(0, 255))
			case 1:
				return net.IPv4(198, b(18, 19), b(0, 255), b(0, 255))
			case 2:
				return net.IPv4(169, 254, b(0, 255), b(0, 255))
			case 3:
				return net.IPv4(224, b(0, 255), b(0, 255), b(0, 255))
			default:
				return net.IPv4(0, b(0, 255), b(0, 255), b(1, 255))
			}
		}
	})
}

// IP6 draws an IPv6 address (never IPv4-mapped, no zone) of the given class.
func IP6(class string) *rapid.Generator[net.IP] {
	return rapid.Custom(func(t *rapid.T) net.IP {
		ip := make(net.IP, 16)
		tail := Bytes(16, 16).Draw(t, "ip6")
		copy(ip, tail)
		switch class {
		case IPPublic:
			pre := rapid.SampledFrom([][]byte{{0x26, 0x06, 0x47, 0x00}, {0x2a, 0x00, 0x14, 0x50}, {0x24, 0x00, 0xcb, 0x00}, {0x2c, 0x0f, 0xf2, 0x48}}).Draw(t, "pre")
			copy(ip, pre)
		case IPPrivate:
			ip[0] = 0xfc | (tail[0] & 1)
		case IPLoopback:
			ip = net.IPv6loopback
		case IPUnspecified:
			ip = net.IPv6unspecified
		default:
			switch rapid.IntRange(0, 2).Draw(t, "spec6") {
			case 0:
				ip[0], ip[1] = 0xfe, 0x80|(tail[1]&0x3f)
			case 1:
				ip[0], ip[1], ip[2], ip[3] = 0x20, 0x01, 0x0d, 0xb8
			default:
				ip[0] = 0xff
			}
		}
		return ip
	})
}

// DNSName draws a host name of 1..3 labels that is not "localhost" and does not parse as an IP.
func DNSName() *rapid.Generator[string] {
	return rapid.Custom(func(t *rapid.T) string {
		n := rapid.IntRange(1, 3).Draw(t, "labels")
		s := ""
		for i := 0; i < n; i++ {
			if i > 0 {
				s += "."
			}
			if rapid.IntRange(0, 3).Draw(t, "protolabel") == 0 {
				// host names that look like multiaddr protocol names: text-based shortcuts must not be fooled
				s += rapid.SampledFrom([]string{"http", "https", "httpbin", "http-path", "tls", "tcp", "udp", "p2p", "ip4", "quic-v1", "ws", "wss", "dns4"}).Draw(t, "plabel")
				continue
			}
			if rapid.IntRange(0, 3).Draw(t, "digitlabel") == 0 {
				// labels may start with a digit (3scale, 1up, 4everland), also the last one, as long as it is not a number
				s += rapid.StringMatching(`[0-9]{1,2}[a-z][a-z0-9-]{0,6}[a-z0-9]`).Draw(t, "dlabel")
				continue
			}
			s += rapid.StringMatching(`[a-z][a-z0-9-]{0,8}[a-z0-9]`).Draw(t, "label")
		}
		if s == "localhost" || net.ParseIP(s) != nil {
			s = "x" + s
		}
		return s
	})
}

// Addr is a generated multiaddr with the facts oracles need.
type Addr struct {
	MA      multiaddr.Multiaddr
	Class   string // IP class, or "dns", "dns-localhost", "other"
	HasHTTP bool   // contains an http or https component
}

// AddrOf draws a multiaddr of the given class ("" = any).
func AddrOf(class string) *rapid.Generator[Addr] {
	return rapid.Custom(func(t *rapid.T) Addr {
		c := class
		if c == "" {
			c = rapid.SampledFrom([]string{IPPublic, IPPublic, IPPrivate, IPLoopback, IPUnspecified, IPSpecial, "dns", "dns-localhost", "other"}).Draw(t, "class")
		}
		var s string
		switch c {
		case "dns":
			s = "/" + rapid.SampledFrom([]string{"dns", "dns4", "dns6", "dnsaddr"}).Draw(t, "dnsproto") + "/" + DNSName().Draw(t, "name")
		case "dns-localhost":
			s = "/" + rapid.SampledFrom([]string{"dns", "dns4", "dns6", "dnsaddr"}).Draw(t, "dnsproto") + "/localhost"
		case "other":
			k := Keys()[rapid.IntRange(0, len(Keys())-1).Draw(t, "k")]
			s = rapid.SampledFrom([]string{"/p2p/" + k.ID.String(), "/unix/tmp%2Fsock", "/p2p/" + k.ID.String() + "/p2p-circuit"}).Draw(t, "otherform")
			ma, err := multiaddr.NewMultiaddr(s)
			if err != nil {
				panic(fmt.Sprintf("%s: %v", s, err))
			}
			return Addr{MA: ma, Class: c}
		default:
			if rapid.Bool().Draw(t, "v6") {
				s = "/ip6/" + IP6(c).Draw(t, "ip").String()
				if rapid.IntRange(0, 3).Draw(t, "zoned") == 0 {
					// the zone-scoped form of the same address
					s = "/ip6zone/" + rapid.SampledFrom([]string{"eth0", "lo", "x"}).Draw(t, "zone") + s
				}
			} else {
				s = "/ip4/" + IP4(c).Draw(t, "ip").String()
			}
		}
		has := false
		switch rapid.IntRange(0, 6).Draw(t, "suffix") {
		case 0:
		case 1:
			s += fmt.Sprintf("/tcp/%d", rapid.IntRange(0, 65535).Draw(t, "port"))
		case 2:
			s += fmt.Sprintf("/tcp/%d/http", rapid.IntRange(0, 65535).Draw(t, "port"))
			has = true
		case 3:
			s += fmt.Sprintf("/tcp/%d/https", rapid.IntRange(0, 65535).Draw(t, "port"))
			has = true
		case 4:
			s += fmt.Sprintf("/tcp/%d/tls/http", rapid.IntRange(0, 65535).Draw(t, "port"))
			has = true
		case 5:
			s += fmt.Sprintf("/udp/%d/quic-v1", rapid.IntRange(0, 65535).Draw(t, "port"))
		case 6:
			s += fmt.Sprintf("/tcp/%d/http/http-path/%s", rapid.IntRange(1, 65535).Draw(t, "port"), rapid.StringMatching(`[a-z]{1,5}(%2F[a-z]{1,4})?`).Draw(t, "hp"))
			has = true
		}
		ma, err := multiaddr.NewMultiaddr(s)
		if err != nil {
			panic(fmt.Sprintf("%s: %v", s, err))
		}
		return Addr{MA: ma, Class: c, HasHTTP: has}
	})
}
