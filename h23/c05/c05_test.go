package c05

import (
	"bytes"
	"fmt"
	"strings"
	"testing"

	"github.com/ipfs/go-cid"
	"github.com/multiformats/go-multihash"

	"github.com/ipld/go-ipld-prime"
	"github.com/ipld/go-ipld-prime/codec/dagcbor"
	"github.com/ipld/go-ipld-prime/codec/dagjson"
	cidlink "github.com/ipld/go-ipld-prime/linking/cid"
	"github.com/ipni/go-libipni/ingest/schema"
	ic "github.com/libp2p/go-libp2p/core/crypto"
	"github.com/libp2p/go-libp2p/core/record"
	recpb "github.com/libp2p/go-libp2p/core/record/pb"
	"google.golang.org/protobuf/proto"
	"pgregory.net/rapid"

	"verif/h23/adgen"
	"verif/h23/gen"
	"verif/h23/pbt"
)

type mutation struct {
	Kind     string
	Target   int // envelope target: -1 = advertisement, i = extended provider i
	Index    int // address index / extended provider index
	Pos      int
	Bit      int
	OtherKey int
	NewCid   string
}

type sigCase struct {
	Ad    adgen.Ad
	Codec string // none | dagjson | dagcbor
	Mut   mutation
}

func genCase(t *rapid.T) sigCase {
	c := sigCase{Ad: adgen.GenAd(true).Draw(t, "ad"), Codec: rapid.SampledFrom([]string{"none", "dagjson", "dagcbor", "dagjson-bytes", "dagcbor-bytes"}).Draw(t, "codec")}
	a := c.Ad
	kinds := []string{"none", "none", "prev", "entries", "provider", "metadata", "isrm", "env-key", "env-payload", "env-sig", "env-raw", "env-raw"}
	if len(a.Addrs) > 0 {
		kinds = append(kinds, "addr")
	}
	if !a.HasEP {
		kinds = append(kinds, "attach-ep", "attach-ep")
	}
	if len(a.EPs) > 0 {
		kinds = append(kinds, "ctx", "override", "ep-id", "ep-metadata", "wrongkey", "wrongkey")
		for _, e := range a.EPs {
			if len(e.Addrs) > 0 {
				kinds = append(kinds, "ep-addr")
				break
			}
		}
		for _, e := range a.EPs {
			if e.IDKey == a.Provider {
				kinds = append(kinds, "transplant-main")
				break
			}
		}
		for _, e := range a.EPs {
			// (the signed payload is the concatenation of the address strings: a list of empty strings signs like no list)
			if len(strings.Join(e.Addrs, "")) > 0 {
				kinds = append(kinds, "ep-clear-addrs")
			} else if len(strings.Join(a.Addrs, "")) > 0 {
				kinds = append(kinds, "ep-fill-addrs")
			}
			if len(e.Metadata) > 0 {
				kinds = append(kinds, "ep-clear-metadata")
			} else if len(a.Metadata) > 0 {
				kinds = append(kinds, "ep-fill-metadata")
			}
		}
	}
	m := mutation{Kind: rapid.SampledFrom(kinds).Draw(t, "mutation"), Target: -1}
	m.Pos = rapid.IntRange(0, 1<<20).Draw(t, "pos")
	m.Bit = rapid.IntRange(0, 7).Draw(t, "bit")
	m.OtherKey = rapid.IntRange(0, len(gen.Keys())-4).Draw(t, "otherkey")
	m.NewCid = gen.Cid().Draw(t, "newcid").String()
	if len(a.EPs) > 0 {
		m.Index = rapid.IntRange(0, len(a.EPs)-1).Draw(t, "epindex")
		if rapid.Bool().Draw(t, "target-ep") {
			m.Target = m.Index
		}
	}
	if m.Kind == "addr" {
		m.Index = rapid.IntRange(0, len(a.Addrs)-1).Draw(t, "addrindex")
	}
	c.Mut = m
	return c
}

// rawRec lets the harness seal an arbitrary payload for the advertisement signature domain.
type rawRec struct {
	domain  string
	codec   []byte
	payload []byte
}

func (r *rawRec) Domain() string                 { return r.domain }
func (r *rawRec) Codec() []byte                  { return r.codec }
func (r *rawRec) MarshalRecord() ([]byte, error) { return r.payload, nil }
func (r *rawRec) UnmarshalRecord(b []byte) error { r.payload = b; return nil }

func flipNonEmpty(b []byte, pos, bit int) []byte {
	if len(b) == 0 {
		return []byte{byte(1 << uint(bit))}
	}
	out := append([]byte(nil), b...)
	out[pos%len(out)] ^= 1 << uint(bit)
	return out
}

func sameEnvelope(a, b []byte) bool {
	var ea, eb recpb.Envelope
	if proto.Unmarshal(a, &ea) != nil || proto.Unmarshal(b, &eb) != nil {
		return false
	}
	return ea.GetPublicKey().GetType() == eb.GetPublicKey().GetType() && bytes.Equal(ea.GetPublicKey().GetData(), eb.GetPublicKey().GetData()) &&
		bytes.Equal(ea.PayloadType, eb.PayloadType) && bytes.Equal(ea.Payload, eb.Payload) && bytes.Equal(ea.Signature, eb.Signature)
}

func roundTrip(ad *schema.Advertisement, codec string) (*schema.Advertisement, error) {
	if codec == "none" {
		return ad, nil
	}
	n, err := ad.ToNode()
	if err != nil {
		return nil, fmt.Errorf("ToNode: %w", err)
	}
	var buf bytes.Buffer
	var dec func(ipld.NodeAssembler, *bytes.Buffer) error
	if strings.HasSuffix(codec, "-bytes") {
		// the other decoding entry point: block bytes plus a CID that names the codec
		code := uint64(cid.DagJSON)
		if codec == "dagjson-bytes" {
			err = dagjson.Encode(n, &buf)
		} else {
			err = dagcbor.Encode(n, &buf)
			code = cid.DagCBOR
		}
		if err != nil {
			return nil, fmt.Errorf("encode: %w", err)
		}
		mh, _ := multihash.Sum(buf.Bytes(), multihash.SHA2_256, -1)
		got, err := schema.BytesToAdvertisement(cid.NewCidV1(code, mh), buf.Bytes())
		if err != nil {
			return nil, fmt.Errorf("BytesToAdvertisement: %w", err)
		}
		return &got, nil
	}
	if codec == "dagjson" {
		err = dagjson.Encode(n, &buf)
		dec = func(na ipld.NodeAssembler, b *bytes.Buffer) error { return dagjson.Decode(na, b) }
	} else {
		err = dagcbor.Encode(n, &buf)
		dec = func(na ipld.NodeAssembler, b *bytes.Buffer) error { return dagcbor.Decode(na, b) }
	}
	if err != nil {
		return nil, fmt.Errorf("encode: %w", err)
	}
	nb := schema.AdvertisementPrototype.NewBuilder()
	if err := dec(nb, &buf); err != nil {
		return nil, fmt.Errorf("decode: %w", err)
	}
	return schema.UnwrapAdvertisement(nb.Build())
}

func runCase(c sigCase) pbt.Result {
	keys := gen.Keys()
	a := c.Ad
	m := c.Mut
	res := pbt.Result{Classes: []string{"mut=" + m.Kind, "codec=" + c.Codec, "signer=" + keys[a.Signer].Type, fmt.Sprintf("eps=%d", len(a.EPs))}}
	if a.HasEP {
		res.Classes = append(res.Classes, "has-ep")
	}
	mainPresent := false
	for _, e := range a.EPs {
		if e.IDKey == a.Provider {
			mainPresent = true
		}
	}
	wantOK := !(len(a.EPs) > 0 && !mainPresent)
	if !wantOK {
		res.Classes = append(res.Classes, "main-absent")
	}
	if m.Kind == "wrongkey" {
		// an entry (and every other entry naming the same identity) is signed by a key that is not the named identity's
		target := a.EPs[m.Index].IDKey
		if target == a.Provider {
			// the library signs the main entry with the ad key itself; handled by transplant-main
			m.Kind = "transplant-main"
		} else {
			other := m.OtherKey
			if keys[other].ID == keys[target].ID {
				other = (other + 1) % (len(keys) - 3)
			}
			for i := range a.EPs {
				if a.EPs[i].IDKey == target {
					a.EPs[i].SignKey = other
				}
			}
			wantOK = false
		}
	}
	ad := a.Build()
	signer := keys[a.Signer]
	var err error
	fetcher := func(id string) (ic.PrivKey, error) { return nil, fmt.Errorf("no key for %s", id) }
	if !a.HasEP {
		err = ad.Sign(signer.Priv)
	} else {
		fetcher = func(id string) (ic.PrivKey, error) {
			for _, e := range a.EPs {
				if adgen.IDString(keys[e.IDKey].ID, a.IDForm) == id {
					if e.IDKey == a.Provider {
						// a key store maps an identity to that identity's key; the library must not need it for
						// the main provider's entry, which the advertisement's signer signs
						return keys[a.Provider].Priv, nil
					}
					return keys[e.SignKey].Priv, nil
				}
			}
			return nil, fmt.Errorf("no key for %s", id)
		}
		err = ad.SignWithExtendedProviders(signer.Priv, fetcher)
		if err != nil && len(a.EPs) > 0 && !mainPresent {
			err = nil // documented refusal; the signatures are in place, verification must refuse too
		}
	}
	if err != nil {
		return merge(res, pbt.Failf("signing failed: %v (ad %+v)", err, a))
	}
	altered := m.Kind != "none"
	switch m.Kind {
	case "none":
	case "prev":
		if ad.PreviousID != nil && m.Pos%3 == 0 {
			ad.PreviousID = nil
		} else {
			nc := cidlink.Link{Cid: mustCid(m.NewCid)}
			if ad.PreviousID != nil && ad.PreviousID.(cidlink.Link).Cid.Equals(nc.Cid) {
				return pbt.Result{Skip: true}
			}
			ad.PreviousID = nc
		}
	case "entries":
		nc := cidlink.Link{Cid: mustCid(m.NewCid)}
		if ad.Entries.(cidlink.Link).Cid.Equals(nc.Cid) {
			return pbt.Result{Skip: true}
		}
		ad.Entries = nc
	case "provider":
		o := adgen.IDString(keys[m.OtherKey].ID, a.IDForm)
		if o == ad.Provider {
			return pbt.Result{Skip: true}
		}
		ad.Provider = o
	case "addr":
		ad.Addresses = append([]string(nil), ad.Addresses...)
		ad.Addresses[m.Index] = string(flipNonEmpty([]byte(ad.Addresses[m.Index]), m.Pos, m.Bit%7))
	case "metadata":
		ad.Metadata = flipNonEmpty(ad.Metadata, m.Pos, m.Bit)
	case "isrm":
		ad.IsRm = !ad.IsRm
	case "ctx":
		ad.ContextID = flipNonEmpty(ad.ContextID, m.Pos, m.Bit)
	case "override":
		ad.ExtendedProvider.Override = !ad.ExtendedProvider.Override
	case "ep-id":
		o := adgen.IDString(keys[m.OtherKey].ID, a.IDForm)
		if o == ad.ExtendedProvider.Providers[m.Index].ID {
			return pbt.Result{Skip: true}
		}
		ad.ExtendedProvider.Providers[m.Index].ID = o
	case "ep-addr":
		p := &ad.ExtendedProvider.Providers[m.Index]
		if len(p.Addresses) == 0 {
			for i := range ad.ExtendedProvider.Providers {
				if len(ad.ExtendedProvider.Providers[i].Addresses) > 0 {
					p = &ad.ExtendedProvider.Providers[i]
				}
			}
		}
		p.Addresses = append([]string(nil), p.Addresses...)
		j := m.Pos % len(p.Addresses)
		p.Addresses[j] = string(flipNonEmpty([]byte(p.Addresses[j]), m.Pos/7, m.Bit%7))
	case "ep-metadata":
		p := &ad.ExtendedProvider.Providers[m.Index]
		p.Metadata = flipNonEmpty(p.Metadata, m.Pos, m.Bit)
	case "ep-clear-addrs", "ep-fill-addrs", "ep-clear-metadata", "ep-fill-metadata":
		// a signed value removed from an entry, or an omitted one filled in with the advertisement's own value
		// (the main provider's entry first, when it qualifies)
		ps := ad.ExtendedProvider.Providers
		pick := -1
		for k := 0; k < 2*len(ps) && pick < 0; k++ {
			i := (m.Index + k) % len(ps)
			if k < len(ps) && ps[i].ID != ad.Provider {
				continue // first pass: only the main provider's entry
			}
			switch m.Kind {
			case "ep-clear-addrs":
				if len(strings.Join(ps[i].Addresses, "")) > 0 {
					pick = i
				}
			case "ep-fill-addrs":
				if len(strings.Join(ps[i].Addresses, "")) == 0 && len(strings.Join(ad.Addresses, "")) > 0 {
					pick = i
				}
			case "ep-clear-metadata":
				if len(ps[i].Metadata) > 0 {
					pick = i
				}
			case "ep-fill-metadata":
				if len(ps[i].Metadata) == 0 {
					pick = i
				}
			}
		}
		if pick < 0 {
			return pbt.Result{Skip: true}
		}
		switch m.Kind {
		case "ep-clear-addrs":
			ps[pick].Addresses = nil
		case "ep-fill-addrs":
			ps[pick].Addresses = append([]string(nil), ad.Addresses...)
		case "ep-clear-metadata":
			ps[pick].Metadata = nil
		case "ep-fill-metadata":
			ps[pick].Metadata = append([]byte(nil), ad.Metadata...)
		}
	case "attach-ep":
		// an extended-provider list attached after signing (the ad signature does not cover it): entries
		// that nobody signed for this ad, with or without the main provider, also on removal ads
		other := keys[m.OtherKey]
		junk, _ := record.Seal(&rawRec{domain: "indexer", codec: []byte("/indexer/ingest/extendedProviderSignature"), payload: []byte("unrelated payload")}, other.Priv)
		jb, _ := junk.Marshal()
		ep := &schema.ExtendedProvider{Override: m.Bit%2 == 0}
		ep.Providers = append(ep.Providers, schema.Provider{ID: adgen.IDString(other.ID, a.IDForm), Addresses: []string{"/ip4/1.1.1.1/tcp/1"}, Signature: jb})
		if m.Pos%2 == 0 {
			ep.Providers = append(ep.Providers, schema.Provider{ID: ad.Provider, Signature: jb})
		}
		ad.ExtendedProvider = ep
	case "transplant-main":
		// the main provider's entry re-signed, same payload, by a key other than the ad signer's
		for i := range ad.ExtendedProvider.Providers {
			p := &ad.ExtendedProvider.Providers[i]
			if p.ID != ad.Provider {
				continue
			}
			var e recpb.Envelope
			if err := proto.Unmarshal(p.Signature, &e); err != nil {
				return merge(res, pbt.Failf("harness: %v", err))
			}
			other := keys[m.OtherKey]
			if other.ID == signer.ID {
				other = keys[(m.OtherKey+1)%(len(keys)-3)]
			}
			env, err := record.Seal(&rawRec{domain: "indexer", codec: e.PayloadType, payload: e.Payload}, other.Priv)
			if err != nil {
				return merge(res, pbt.Failf("harness: seal: %v", err))
			}
			p.Signature, _ = env.Marshal()
		}
	default: // envelope alterations
		sig := &ad.Signature
		if m.Target >= 0 && m.Target < len(a.EPs) {
			sig = &ad.ExtendedProvider.Providers[m.Target].Signature
			res.Classes = append(res.Classes, "envelope=ep")
		} else {
			res.Classes = append(res.Classes, "envelope=ad")
		}
		orig := append([]byte(nil), *sig...)
		if m.Kind == "env-raw" {
			b := append([]byte(nil), orig...)
			b[m.Pos%len(b)] ^= 1 << uint(m.Bit)
			*sig = b
			altered = !sameEnvelope(orig, b)
		} else {
			var e recpb.Envelope
			if err := proto.Unmarshal(orig, &e); err != nil {
				return merge(res, pbt.Failf("harness: %v", err))
			}
			switch m.Kind {
			case "env-key":
				if m.Pos%2 == 0 {
					other := keys[m.OtherKey]
					cur, _ := ic.PublicKeyFromProto(e.PublicKey)
					if cur != nil && cur.Equals(other.Priv.GetPublic()) {
						return pbt.Result{Skip: true}
					}
					e.PublicKey, _ = ic.PublicKeyToProto(other.Priv.GetPublic())
				} else {
					e.PublicKey.Data = flipNonEmpty(e.PublicKey.Data, m.Pos/2, m.Bit)
				}
			case "env-payload":
				e.Payload = flipNonEmpty(e.Payload, m.Pos, m.Bit)
			case "env-sig":
				e.Signature = flipNonEmpty(e.Signature, m.Pos, m.Bit)
			}
			*sig, _ = proto.Marshal(&e)
		}
	}
	if altered {
		wantOK = false
	}
	res.NonTrivial = !wantOK || m.Kind != "none"

	ad2, err := roundTrip(ad, c.Codec)
	if err != nil {
		return merge(res, pbt.Failf("%s round trip of the signed ad failed: %v", c.Codec, err))
	}
	id, verr := func() (id string, err error) {
		defer func() {
			if p := recover(); p != nil {
				err = fmt.Errorf("PANIC: %v", p)
			}
		}()
		pid, err := ad2.VerifySignature()
		return pid.String(), err
	}()
	if verr != nil && len(verr.Error()) > 6 && verr.Error()[:6] == "PANIC:" {
		return merge(res, pbt.Failf("VerifySignature panicked: %v", verr))
	}
	if wantOK {
		if verr != nil {
			return merge(res, pbt.Failf("VerifySignature of a correctly signed ad failed after %s round trip: %v\ncase: %+v", c.Codec, verr, c))
		}
		if id != signer.ID.String() {
			return merge(res, pbt.Failf("VerifySignature returned %s, signer is %s", id, signer.ID))
		}
		res.Classes = append(res.Classes, "verified")
		if a.HasEP && m.Kind == "none" && c.Codec == "none" {
			// the advertisement value is edited and signed again (a provider re-publishing with a new previous
			// link): every signature must be made afresh over the current values
			mh, _ := multihash.Sum([]byte(a.Entries+"resign"), multihash.SHA2_256, -1)
			ad.PreviousID = cidlink.Link{Cid: cid.NewCidV1(cid.DagJSON, mh)}
			if err := ad.SignWithExtendedProviders(signer.Priv, fetcher); err != nil {
				if len(a.EPs) > 0 && !mainPresent {
					return res
				}
				return merge(res, pbt.Failf("signing the edited advertisement again failed: %v", err))
			}
			if _, err := ad.VerifySignature(); err != nil {
				return merge(res, pbt.Failf("an advertisement that verified, was given a new previous link and was signed again with SignWithExtendedProviders does not verify: %v\ncase: %+v", err, c))
			}
			res.Classes = append(res.Classes, "re-signed")
		}
		return res
	}
	if verr == nil {
		return merge(res, pbt.Failf("VerifySignature succeeded (returned %s) although it must fail: mutation %q (really altered: %v), main provider present: %v, extended providers: %d\ncase: %+v", id, m.Kind, altered, mainPresent, len(a.EPs), c))
	}
	res.Classes = append(res.Classes, "rejected")
	return res
}

func merge(base, f pbt.Result) pbt.Result {
	base.Fail = f.Fail
	return base
}

func TestC05_SignVerify(t *testing.T) {
	pbt.Run(t, pbt.Config{Prop: "C05", Unit: "TestC05_SignVerify",
		Rule:        "advertisements over all combinations of previous link, entries/no-entries link, 0..5 addresses, metadata 0..1024 B, context ID 0..64 B, removal flag (without extended providers), 0..4 extended providers (main provider present or absent, override on/off), ad signed by the provider's or a separate publisher key of any key type; one mutation: each signed value changed to a different value (also: an entry's addresses or metadata removed, or omitted ones filled in with the advertisement's own, where the main provider's entry repeats or omits the advertisement's values), key / payload / signature bytes of the ad envelope or of an entry envelope edited through the protobuf, a raw bit flip of an envelope, an entry signed by a key that is not the named identity's, the main entry re-signed by another key; then none / DAG-JSON / DAG-CBOR round trip (through the node prototype or through BytesToAdvertisement); an unmutated advertisement with extended providers is also edited and signed again; oracle: VerifySignature returns the signer's peer ID iff nothing was altered, the main provider is listed when there are entries and every entry is signed by the named identity's key (ad signer for the main entry). Non-trivial: mutated or mis-keyed or main provider absent; distinct by case.",
		Assumptions: []string{"a raw bit flip that leaves the four parsed envelope fields unchanged is not an alteration", "one value is changed at a time (undelimited concatenation, per the property's quantifier)"},
	}, genCase, runCase)
}

func mustCid(s string) cid.Cid {
	c, err := cid.Decode(s)
	if err != nil {
		panic(err)
	}
	return c
}
