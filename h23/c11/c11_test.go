package c11

import (
	"bytes"
	"encoding/binary"
	"fmt"
	"runtime"
	"sort"
	"testing"

	"github.com/ipfs/go-cid"
	"github.com/ipni/go-libipni/metadata"
	"github.com/multiformats/go-multicodec"
	"pgregory.net/rapid"

	"verif/h23/gen"
	"verif/h23/pbt"
)

const (
	idBitswap   = 0x0900
	idGraphsync = 0x0910
	idGateway   = 0x0920
)

// protoDesc describes one protocol of a metadata value.
type protoDesc struct {
	Kind     string // bitswap | gateway | graphsync | unknown
	Cid      string // graphsync piece CID
	Verified bool
	Fast     bool
	Code     uint64 // unknown
	Payload  []byte // unknown: payload without the code/length header
}

func (p protoDesc) id() uint64 {
	switch p.Kind {
	case "bitswap":
		return idBitswap
	case "gateway":
		return idGateway
	case "graphsync":
		return idGraphsync
	}
	return p.Code
}

func uvarint(v uint64) []byte {
	b := make([]byte, binary.MaxVarintLen64)
	return b[:binary.PutUvarint(b, v)]
}

func cborHead(major byte, n uint64) []byte {
	switch {
	case n < 24:
		return []byte{major<<5 | byte(n)}
	case n < 1<<8:
		return []byte{major<<5 | 24, byte(n)}
	case n < 1<<16:
		return []byte{major<<5 | 25, byte(n >> 8), byte(n)}
	case n < 1<<32:
		return []byte{major<<5 | 26, byte(n >> 24), byte(n >> 16), byte(n >> 8), byte(n)}
	}
	b := []byte{major<<5 | 27, 0, 0, 0, 0, 0, 0, 0, 0}
	binary.BigEndian.PutUint64(b[1:], n)
	return b
}

func cborBool(b bool) byte {
	if b {
		return 0xf5
	}
	return 0xf4
}

// wire is the independent specification of one protocol's encoding.
func (p protoDesc) wire() []byte {
	switch p.Kind {
	case "bitswap":
		return uvarint(idBitswap)
	case "gateway":
		return append(uvarint(idGateway), 0)
	case "graphsync":
		c, err := cid.Decode(p.Cid)
		if err != nil {
			panic(err)
		}
		var b bytes.Buffer
		b.Write(uvarint(idGraphsync))
		b.WriteByte(0xa3) // map of 3, keys in DAG-CBOR canonical order (length, then bytes)
		b.Write(cborHead(3, 8))
		b.WriteString("PieceCID")
		b.Write([]byte{0xd8, 0x2a}) // tag 42
		lb := append([]byte{0}, c.Bytes()...)
		b.Write(cborHead(2, uint64(len(lb))))
		b.Write(lb)
		b.Write(cborHead(3, 12))
		b.WriteString("VerifiedDeal")
		b.WriteByte(cborBool(p.Verified))
		b.Write(cborHead(3, 13))
		b.WriteString("FastRetrieval")
		b.WriteByte(cborBool(p.Fast))
		return b.Bytes()
	}
	out := append(uvarint(p.Code), uvarint(uint64(len(p.Payload)))...)
	return append(out, p.Payload...)
}

// wirePermuted encodes a graphsync protocol with its three map entries in a non-canonical order (perm 1..5).
func (p protoDesc) wirePermuted(perm int) []byte {
	c, err := cid.Decode(p.Cid)
	if err != nil {
		panic(err)
	}
	var e [3][]byte
	lb := append([]byte{0}, c.Bytes()...)
	e[0] = append(append(append(append(cborHead(3, 8), "PieceCID"...), 0xd8, 0x2a), cborHead(2, uint64(len(lb)))...), lb...)
	e[1] = append(append(cborHead(3, 12), "VerifiedDeal"...), cborBool(p.Verified))
	e[2] = append(append(cborHead(3, 13), "FastRetrieval"...), cborBool(p.Fast))
	orders := [][3]int{{0, 1, 2}, {0, 2, 1}, {1, 0, 2}, {1, 2, 0}, {2, 0, 1}, {2, 1, 0}}
	o := orders[perm%6]
	out := append(uvarint(idGraphsync), 0xa3)
	for _, i := range o {
		out = append(out, e[i]...)
	}
	return out
}

func (p protoDesc) build() metadata.Protocol {
	switch p.Kind {
	case "bitswap":
		return &metadata.Bitswap{}
	case "gateway":
		return &metadata.IpfsGatewayHttp{}
	case "graphsync":
		c, _ := cid.Decode(p.Cid)
		return &metadata.GraphsyncFilecoinV1{PieceCID: c, VerifiedDeal: p.Verified, FastRetrieval: p.Fast}
	}
	// Unknown protocols hold their complete wire form (this is how the decoder builds them).
	return &metadata.Unknown{Code: multicodec.Code(p.Code), Payload: p.wire()}
}

func genUnknownCode(t *rapid.T) uint64 {
	for {
		var c uint64
		switch rapid.IntRange(0, 4).Draw(t, "codeclass") {
		case 0:
			c = uint64(rapid.IntRange(1, 127).Draw(t, "c1"))
		case 1:
			c = uint64(rapid.IntRange(0x08f0, 0x0930).Draw(t, "c-near"))
		case 2:
			c = uint64(rapid.IntRange(128, 1<<21).Draw(t, "c3"))
		case 3:
			c = rapid.Uint64Range(1<<21, 1<<62).Draw(t, "c-large")
		default:
			c = rapid.SampledFrom([]uint64{0x3f0000, 0x0300, 0x0400, 0, 0xfc, 0x12, 0x55}).Draw(t, "c-named")
		}
		if c != idBitswap && c != idGraphsync && c != idGateway {
			return c
		}
	}
}

func genProto(t *rapid.T) protoDesc {
	switch rapid.IntRange(0, 5).Draw(t, "kind") {
	case 0:
		return protoDesc{Kind: "bitswap"}
	case 1:
		return protoDesc{Kind: "gateway"}
	case 2, 3:
		return protoDesc{Kind: "graphsync", Cid: gen.Cid().Draw(t, "piece").String(), Verified: rapid.Bool().Draw(t, "v"), Fast: rapid.Bool().Draw(t, "f")}
	default:
		n := rapid.OneOf(rapid.IntRange(0, 20), rapid.IntRange(120, 140), rapid.IntRange(0, 900)).Draw(t, "plen")
		return protoDesc{Kind: "unknown", Code: genUnknownCode(t), Payload: gen.Bytes(n, n).Draw(t, "payload")}
	}
}

type rtCase struct {
	Protos []protoDesc // construction order
	Perm   []int       // second construction order (sort keys)
	Mut    int         // which protocol the sibling metadata (encoded afterwards) differs in
}

func genRT(t *rapid.T) rtCase {
	n := rapid.IntRange(1, 6).Draw(t, "n")
	c := rtCase{Mut: rapid.IntRange(0, 5).Draw(t, "mut")}
	large := rapid.IntRange(0, 9).Draw(t, "large") == 0 // an encoding of several KiB
	for i := 0; i < n; i++ {
		if large && i > 0 {
			c.Protos = append(c.Protos, protoDesc{Kind: "unknown", Code: genUnknownCode(t), Payload: gen.BoundaryBytes(700, 1000, 1023).Draw(t, "bigpayload")})
			continue
		}
		if i > 0 && rapid.IntRange(0, 5).Draw(t, "dup-id") == 0 {
			// another protocol with an ID already present
			prev := c.Protos[rapid.IntRange(0, i-1).Draw(t, "dupof")]
			switch prev.Kind {
			case "unknown":
				n := rapid.IntRange(0, 30).Draw(t, "plen2")
				c.Protos = append(c.Protos, protoDesc{Kind: "unknown", Code: prev.Code, Payload: gen.Bytes(n, n).Draw(t, "payload2")})
			case "graphsync":
				c.Protos = append(c.Protos, protoDesc{Kind: "graphsync", Cid: gen.Cid().Draw(t, "piece2").String(), Verified: rapid.Bool().Draw(t, "v2"), Fast: prev.Fast})
			default:
				c.Protos = append(c.Protos, prev)
			}
			continue
		}
		c.Protos = append(c.Protos, genProto(t))
	}
	c.Perm = rapid.SliceOfN(rapid.IntRange(0, 1000), n, n).Draw(t, "perm")
	return c
}

// matchGroups reports whether b is the concatenation of the protocol encodings in
// ascending ID order, with protocols of equal ID in any order.
func matchGroups(b []byte, groups [][][]byte) bool {
	if len(groups) == 0 {
		return len(b) == 0
	}
	g := groups[0]
	if len(g) == 0 {
		return matchGroups(b, groups[1:])
	}
	for i, enc := range g {
		if bytes.HasPrefix(b, enc) {
			rest := make([][]byte, 0, len(g)-1)
			rest = append(rest, g[:i]...)
			rest = append(rest, g[i+1:]...)
			ng := append([][][]byte{rest}, groups[1:]...)
			if matchGroups(b[len(enc):], ng) {
				return true
			}
		}
	}
	return false
}

func groupsOf(ps []protoDesc) (ids []uint64, groups [][][]byte) {
	m := map[uint64][][]byte{}
	for _, p := range ps {
		if _, ok := m[p.id()]; !ok {
			ids = append(ids, p.id())
		}
		m[p.id()] = append(m[p.id()], p.wire())
	}
	sort.Slice(ids, func(i, j int) bool { return ids[i] < ids[j] })
	for _, id := range ids {
		groups = append(groups, m[id])
	}
	return
}

func protosIn(order []protoDesc) []metadata.Protocol {
	out := make([]metadata.Protocol, len(order))
	for i, p := range order {
		out[i] = p.build()
	}
	return out
}

func runRT(c rtCase) pbt.Result {
	res := pbt.Result{}
	ids, groups := groupsOf(c.Protos)
	kinds := map[string]bool{}
	afterCbor, longUnknown := false, false
	for _, p := range c.Protos {
		kinds[p.Kind] = true
		if p.Kind == "unknown" && len(p.Payload) > 127 {
			longUnknown = true
		}
		if p.id() > idGraphsync && kinds["graphsync"] || (p.Kind == "graphsync" && hasGreater(c.Protos, idGraphsync)) {
			afterCbor = true
		}
	}
	res.Classes = append(res.Classes, fmt.Sprintf("n=%d", len(c.Protos)))
	for k := range map[string]bool{"bitswap": true, "gateway": true, "graphsync": true, "unknown": true} {
		if kinds[k] {
			res.Classes = append(res.Classes, "has:"+k)
		}
	}
	if afterCbor {
		res.Classes = append(res.Classes, "protocol-after-cbor")
	}
	if longUnknown {
		res.Classes = append(res.Classes, "unknown>127B")
	}
	if len(ids) < len(c.Protos) {
		res.Classes = append(res.Classes, "equal-ids")
	}
	res.NonTrivial = len(c.Protos) >= 3 || afterCbor || longUnknown

	md := metadata.Default.New(protosIn(c.Protos)...)
	b, err := md.MarshalBinary()
	if err != nil {
		return pbt.Failf("MarshalBinary(%+v): %v", c.Protos, err)
	}
	if !matchGroups(b, groups) {
		return merge(res, pbt.Failf("MarshalBinary of %+v = %x, which is not the concatenation of the protocol encodings in ascending ID order %v", c.Protos, b, ids))
	}
	// construction order does not matter
	idx := make([]int, len(c.Protos))
	for i := range idx {
		idx[i] = i
	}
	sort.SliceStable(idx, func(a, b int) bool { return c.Perm[idx[a]] < c.Perm[idx[b]] })
	perm := make([]protoDesc, len(idx))
	for i, j := range idx {
		perm[i] = c.Protos[j]
	}
	md2 := metadata.Default.New(protosIn(perm)...)
	b2, err := md2.MarshalBinary()
	if err != nil || !matchGroups(b2, groups) {
		return merge(res, pbt.Failf("construction order %+v: MarshalBinary = %x (err %v), not the canonical concatenation", perm, b2, err))
	}
	if len(ids) == len(c.Protos) && !bytes.Equal(b, b2) {
		return merge(res, pbt.Failf("two construction orders of %+v encode differently: %x vs %x", c.Protos, b, b2))
	}
	// somebody else derives a context of their own for one of the codes used here (an application that knows
	// that protocol): the default context keeps treating it as unknown
	for _, p := range c.Protos {
		if p.Kind == "unknown" {
			_ = metadata.Default.WithProtocol(multicodec.Code(p.Code), func() metadata.Protocol { return &metadata.Bitswap{} })
			break
		}
	}
	// decoding returns equal metadata in which every protocol is retrievable by ID
	dec := metadata.Default.New()
	if err := dec.UnmarshalBinary(b); err != nil {
		return merge(res, pbt.Failf("UnmarshalBinary(MarshalBinary(%+v) = %x): %v", c.Protos, b, err))
	}
	if !dec.Equal(md) || !md.Equal(dec) || dec.Len() != len(c.Protos) {
		return merge(res, pbt.Failf("decoded metadata of %x is not Equal to the original %+v (decoded protocols %v)", b, c.Protos, dec.Protocols()))
	}
	got := dec.Protocols()
	if len(got) != len(c.Protos) {
		return merge(res, pbt.Failf("decoded %d protocols, want %d", len(got), len(c.Protos)))
	}
	for gi, id := range ids {
		p := dec.Get(multicodec.Code(id))
		if p == nil {
			return merge(res, pbt.Failf("decoded metadata of %x: Get(%#x) = nil; original %+v", b, id, c.Protos))
		}
		pb, err := p.MarshalBinary()
		if err != nil || uint64(p.ID()) != id {
			return merge(res, pbt.Failf("decoded Get(%#x): ID %#x, marshal err %v", id, uint64(p.ID()), err))
		}
		ok := false
		for _, enc := range groups[gi] {
			ok = ok || bytes.Equal(enc, pb)
		}
		if !ok {
			return merge(res, pbt.Failf("decoded metadata of %x: Get(%#x) encodes to %x, not one of the original protocols with that ID", b, id, pb))
		}
	}
	// and it re-encodes to the same bytes
	b3, err := dec.MarshalBinary()
	if err != nil || !bytes.Equal(b3, b) {
		return merge(res, pbt.Failf("decode->encode of %x gives %x (err %v)", b, b3, err))
	}
	// an encoding, once returned, is the caller's: encoding a sibling metadata (one protocol changed) afterwards
	// must not change it
	snap := append([]byte(nil), b...)
	sib := append([]protoDesc(nil), c.Protos...)
	k := c.Mut % len(sib)
	switch sib[k].Kind {
	case "unknown":
		np := append([]byte(nil), sib[k].Payload...)
		if len(np) == 0 {
			np = []byte{0x5a}
		} else {
			np[len(np)-1] ^= 0x41
		}
		sib[k].Payload = np
	case "graphsync":
		sib[k].Verified = !sib[k].Verified
	default:
		sib = append(sib, protoDesc{Kind: "unknown", Code: 0x3f0001, Payload: []byte{byte(c.Mut)}})
	}
	_, sgroups := groupsOf(sib)
	smd := metadata.Default.New(protosIn(sib)...)
	sb, err := smd.MarshalBinary()
	if err != nil || !matchGroups(sb, sgroups) {
		return merge(res, pbt.Failf("sibling metadata %+v: MarshalBinary = %x (err %v), not the canonical concatenation", sib, sb, err))
	}
	if !bytes.Equal(b, snap) {
		return merge(res, pbt.Failf("the encoding of %+v changed from %x to %x when another metadata (%+v) was encoded afterwards: encodings share memory", c.Protos, snap, b, sib))
	}
	if !bytes.Equal(b3, snap) {
		return merge(res, pbt.Failf("the re-encoding of the decoded metadata changed when another metadata was encoded afterwards"))
	}
	// the same holds one level down: the encodings of the single protocols, taken one after the other and held
	// while the others are taken and while a metadata is decoded, stay what they were
	prs := protosIn(c.Protos)
	var held, copies [][]byte
	for _, pr := range prs {
		e, err := pr.MarshalBinary()
		if err != nil {
			return merge(res, pbt.Failf("MarshalBinary of protocol %v: %v", pr.ID(), err))
		}
		held, copies = append(held, e), append(copies, append([]byte(nil), e...))
	}
	again := metadata.Default.New()
	_ = again.UnmarshalBinary(snap)
	for i := range held {
		if !bytes.Equal(held[i], copies[i]) {
			return merge(res, pbt.Failf("the encoding of protocol %d (%v) of %+v changed from %x to %x while other protocols were encoded or a metadata was decoded: encodings share memory", i, prs[i].ID(), c.Protos, copies[i], held[i]))
		}
	}
	// two metadata that differ in one protocol are not equal
	if md.Equal(smd) || smd.Equal(md) {
		return merge(res, pbt.Failf("Metadata.Equal reports %+v and %+v as equal", c.Protos, sib))
	}
	return res
}

func hasGreater(ps []protoDesc, id uint64) bool {
	for _, p := range ps {
		if p.id() > id {
			return true
		}
	}
	return false
}

func merge(base, f pbt.Result) pbt.Result {
	base.Fail = f.Fail
	return base
}

func TestC11_RoundTrip(t *testing.T) {
	pbt.Run(t, pbt.Config{Prop: "C11", Unit: "TestC11_RoundTrip",
		Rule: "multisets of 1..6 protocols (bitswap, gateway, graphsync-filecoin with drawn piece CID and flags, unknown codes 0..2^62 with payloads 0..900 B, one case in ten with payloads near 700 / 1000 / 1023 B so that the encoding reaches several KiB, repeated IDs) in two drawn construction orders; oracle: MarshalBinary = concatenation of independently specified protocol encodings in ascending ID order (equal IDs in any order), decode is Equal, every ID retrievable, decode->encode identity; a context derived with WithProtocol for one of the unknown codes does not change what the default context does; a returned encoding does not change when a sibling metadata (one protocol altered) is encoded afterwards, nor do the encodings of the single protocols while the others are encoded and a metadata is decoded; the sibling is not Equal. Non-trivial: >=3 protocols, or a protocol after the CBOR-encoded one, or an unknown payload >127 B; distinct by case.",
	}, genRT, runRT)
}

// ------------------------------------------------------------------ decoder on arbitrary bytes

type decCase struct {
	Data []byte
}

func genValidWire(t *rapid.T) []byte {
	n := rapid.IntRange(1, 4).Draw(t, "n")
	ps := make([]protoDesc, n)
	for i := range ps {
		ps[i] = genProto(t)
		if ps[i].Kind == "unknown" && len(ps[i].Payload) > 60 {
			ps[i].Payload = ps[i].Payload[:60]
		}
	}
	if rapid.IntRange(0, 3).Draw(t, "sorted") > 0 {
		sort.SliceStable(ps, func(i, j int) bool { return ps[i].id() < ps[j].id() })
	}
	var b []byte
	for _, p := range ps {
		b = append(b, p.wire()...)
	}
	return b
}

var hostile = [][]byte{
	{0xff, 0xff, 0xff, 0xff, 0xff, 0xff, 0xff, 0xff, 0x7f},       // 2^63-1
	{0x80, 0x80, 0x80, 0x80, 0x80, 0x80, 0x80, 0x80, 0x40},       // 2^62
	{0x80, 0x80, 0x80, 0x80, 0x08},                               // 2^31
	{0x80, 0x80, 0x80, 0x80, 0x80, 0x01},                         // 2^35
	{0x80, 0x80, 0x80, 0x80, 0x80, 0x80, 0x02},                   // 2^43
	{0x80},                                                       // truncated varint
	{0x80, 0x00},                                                 // non-minimal
	{0xff, 0xff, 0xff, 0xff, 0xff, 0xff, 0xff, 0xff, 0xff, 0x01}, // 10-byte varint
	{0x81, 0x08},                                                 // 1025
	{0x80, 0x08},                                                 // 1024
}

func genDec(t *rapid.T) decCase {
	var b []byte
	switch rapid.IntRange(0, 6).Draw(t, "src") {
	case 0:
		b = gen.Bytes(0, 64).Draw(t, "raw")
	case 1: // unknown header with a hostile length
		b = append(b, uvarint(genUnknownCode(t))...)
		b = append(b, rapid.SampledFrom(hostile).Draw(t, "hostile")...)
		b = append(b, gen.Bytes(0, 16).Draw(t, "tail")...)
	case 2: // valid prefix + hostile
		b = genValidWire(t)
		b = append(b, uvarint(genUnknownCode(t))...)
		b = append(b, rapid.SampledFrom(hostile).Draw(t, "hostile")...)
	case 4: // graphsync protocol whose CBOR map entries are permuted (valid CBOR, same length, not canonical), possibly followed by another protocol
		pd := protoDesc{Kind: "graphsync", Cid: gen.Cid().Draw(t, "piece").String(), Verified: rapid.Bool().Draw(t, "v"), Fast: rapid.Bool().Draw(t, "f")}
		b = pd.wirePermuted(rapid.IntRange(1, 5).Draw(t, "perm"))
		if rapid.Bool().Draw(t, "follow") {
			b = append(b, protoDesc{Kind: "gateway"}.wire()...)
		}
	case 3: // graphsync header followed by CBOR with a hostile declared string length
		b = append(uvarint(idGraphsync), rapid.SampledFrom([][]byte{{0x79, 0x78, 0x30}, {0x7a, 0x00, 0x10, 0x00, 0x00}, {0x5a, 0x00, 0x7f, 0xff, 0xff}, {0xa3, 0x68, 'P', 'i', 'e', 'c', 'e', 'C', 'I', 'D', 0xd8, 0x2a, 0x5a, 0x00, 0x20, 0x00, 0x00}, {0x7a, 0xff, 0xff, 0xff, 0xff}, {0x9a, 0x7f, 0xff, 0xff, 0xff}, {0x5f, 0x5a, 0x00, 0x10, 0x00, 0x00}}).Draw(t, "hostile-cbor")...)
		b = append(b, gen.Bytes(0, 8).Draw(t, "tail")...)
	default:
		b = genValidWire(t)
	}
	// mutations
	nm := rapid.IntRange(0, 3).Draw(t, "nmut")
	for i := 0; i < nm && len(b) > 0; i++ {
		pos := rapid.IntRange(0, len(b)-1).Draw(t, "pos")
		switch rapid.IntRange(0, 4).Draw(t, "mut") {
		case 0:
			b[pos] ^= 1 << uint(rapid.IntRange(0, 7).Draw(t, "bit"))
		case 1:
			b = b[:pos]
		case 2:
			b = append(b[:pos:pos], append([]byte{rapid.Byte().Draw(t, "ins")}, b[pos:]...)...)
		case 3:
			b = append(b[:pos:pos], b[pos+1:]...)
		case 4:
			b[pos] = rapid.SampledFrom([]byte{0, 0x7f, 0x80, 0xff, 0xa3, 0xbf, 0x5f, 0x9f, 0xd8}).Draw(t, "named")
		}
	}
	if len(b) > metadata.MaxMetadataSize {
		b = b[:metadata.MaxMetadataSize]
	}
	return decCase{Data: b}
}

const allocSlack = 64 << 10
const allocFactor = 64

// decodeChecked is the oracle shared by the rapid unit and the native fuzz target.
func decodeChecked(data []byte) (fail string, decoded bool) {
	in := append([]byte(nil), data...)
	var before, after runtime.MemStats
	runtime.ReadMemStats(&before)
	md := metadata.Default.New()
	err := md.UnmarshalBinary(in)
	runtime.ReadMemStats(&after)
	if alloc := after.TotalAlloc - before.TotalAlloc; alloc > uint64(allocFactor*len(data)+allocSlack) {
		if declared := cborPrealloc(data); declared > 0 && pbt.IsKnown("KF-C11-1") && err != nil && alloc <= uint64(3*declared+allocSlack) {
			return knownPrealloc, false
		}
		return fmt.Sprintf("UnmarshalBinary(%x) allocated %d bytes for %d input bytes (bound %d*len+%d)", data, alloc, len(data), allocFactor, allocSlack), false
	}
	if !bytes.Equal(in, data) {
		return fmt.Sprintf("UnmarshalBinary(%x) modified its input", data), false
	}
	if err != nil {
		return "", false
	}
	out, err := md.MarshalBinary()
	if err != nil {
		return fmt.Sprintf("UnmarshalBinary(%x) succeeded but MarshalBinary fails: %v", data, err), true
	}
	if !bytes.Equal(out, data) {
		return fmt.Sprintf("UnmarshalBinary(%x) succeeded (protocols %v) but re-encodes to %x", data, md.Protocols(), out), true
	}
	return "", true
}

const knownPrealloc = "known:KF-C11-1"

// cborPrealloc recognises the input region of known finding KF-C11-1: a
// GraphsyncFilecoinV1 protocol whose CBOR declares a text or byte string longer
// than the bytes that remain (the third-party decoder allocates the declared
// length, up to its fixed 32 MiB cap, before reading). It returns the declared
// length, or 0 if the input is not of that shape. Independent walk of the wire
// format: it does not call the library.
func cborPrealloc(data []byte) int {
	for len(data) > 0 {
		id, n := binary.Uvarint(data)
		if n <= 0 {
			return 0
		}
		data = data[n:]
		switch id {
		case idBitswap:
		case idGateway:
			if len(data) < 1 {
				return 0
			}
			data = data[1:]
		case idGraphsync:
			rest, declared, ok := cborSkip(data, 0)
			if declared > 0 {
				return declared
			}
			if !ok {
				return 0
			}
			data = rest
		default:
			l, m := binary.Uvarint(data)
			if m <= 0 || l > uint64(len(data)-m) {
				return 0
			}
			data = data[m+int(l):]
		}
	}
	return 0
}

// cborSkip skips one CBOR item; declared > 0 reports a string header that
// promises more bytes than remain.
func cborSkip(b []byte, depth int) (rest []byte, declared int, ok bool) {
	if len(b) == 0 || depth > 64 {
		return nil, 0, false
	}
	major, info := b[0]>>5, b[0]&0x1f
	b = b[1:]
	var n uint64
	switch {
	case info < 24:
		n = uint64(info)
	case info >= 24 && info <= 27:
		w := 1 << (info - 24)
		if len(b) < w {
			return nil, 0, false
		}
		for i := 0; i < w; i++ {
			n = n<<8 | uint64(b[i])
		}
		b = b[w:]
	case info == 31 && (major == 2 || major == 3 || major == 4 || major == 5):
		for {
			if len(b) == 0 {
				return nil, 0, false
			}
			if b[0] == 0xff {
				return b[1:], 0, true
			}
			r, d, ok := cborSkip(b, depth+1)
			if d > 0 || !ok {
				return nil, d, ok
			}
			b = r
		}
	default:
		return nil, 0, false
	}
	switch major {
	case 0, 1, 7:
		return b, 0, true
	case 2, 3:
		if n > uint64(len(b)) {
			if n <= 33554432 {
				return nil, int(n), false
			}
			return nil, 0, false
		}
		return b[n:], 0, true
	case 4, 5:
		cnt := n
		if major == 5 {
			cnt = 2 * n
		}
		for i := uint64(0); i < cnt; i++ {
			r, d, ok := cborSkip(b, depth+1)
			if d > 0 || !ok {
				return nil, d, ok
			}
			b = r
		}
		return b, 0, true
	default: // tag
		return cborSkip(b, depth+1)
	}
}

func runDec(c decCase) pbt.Result {
	fail, decoded := decodeChecked(c.Data)
	if fail == knownPrealloc {
		return pbt.Result{Known: "KF-C11-1", Fail: fail, NonTrivial: true, Classes: []string{"known:cbor-prealloc"}}
	}
	res := pbt.Result{Fail: fail, NonTrivial: decoded || len(c.Data) > 2}
	if decoded {
		res.Classes = append(res.Classes, "decoded-ok")
	} else {
		res.Classes = append(res.Classes, "rejected")
	}
	return res
}

func TestC11_Decode(t *testing.T) {
	pbt.Run(t, pbt.Config{Prop: "C11", Unit: "TestC11_Decode", TrackCurrent: true,
		Rule: "decoder input: raw bytes, valid encodings (sorted and unsorted) with 0..3 byte-level mutations (bit flip, truncation, insertion, deletion, CBOR/varint marker bytes), unknown-protocol headers with hostile length prefixes (2^31..2^63-1, truncated, non-minimal, 10-byte varints), all capped at MaxMetadataSize; oracle: no panic, input untouched, TotalAlloc delta <= 64*len+64KiB, and success implies MarshalBinary returns exactly the input. Non-trivial: decoded successfully or longer than 2 bytes; distinct by input bytes.",
	}, genDec, runDec)
}

func FuzzC11_Unmarshal(f *testing.F) {
	f.Add([]byte{0x80, 0x12})
	f.Add([]byte{0x80, 0x12, 0xa0, 0x12, 0x00})
	f.Add(protoDesc{Kind: "graphsync", Cid: "bafkreiaaaaaaaaaaaaaaaaaaaaaaaaaaaaaaaaaaaaaaaaaaaaaaaaaaaa"}.wire())
	f.Add(append(protoDesc{Kind: "graphsync", Cid: "bafkreiaaaaaaaaaaaaaaaaaaaaaaaaaaaaaaaaaaaaaaaaaaaaaaaaaaaa", Fast: true}.wire(), 0xa0, 0x12, 0x00))
	f.Add(protoDesc{Kind: "unknown", Code: 0x3f0000, Payload: []byte("hello")}.wire())
	for _, h := range hostile {
		f.Add(append([]byte{0x55}, h...))
	}
	f.Fuzz(func(t *testing.T, data []byte) {
		if len(data) > metadata.MaxMetadataSize {
			return
		}
		if fail, _ := decodeChecked(data); fail != "" && fail != knownPrealloc {
			t.Fatal(fail)
		}
	})
}
