package c20

import (
	"bytes"
	"fmt"
	"net"
	"net/url"
	"sort"
	"strconv"
	"strings"
	"testing"

	"github.com/ipni/go-libipni/maurl"
	"github.com/ipni/go-libipni/mautil"
	"github.com/libp2p/go-libp2p/core/peer"
	"github.com/multiformats/go-multiaddr"
	"pgregory.net/rapid"

	"verif/h23/gen"
	"verif/h23/pbt"
)

// ---------------------------------------------------------------- URL <-> multiaddr

type urlCase struct {
	Scheme   string
	HostKind string // ip4 | ip6 | dns
	Host     string // as written in the URL (ip6 without brackets)
	Port     int    // -1: absent
	RawPath  string // as written in the URL ("" or starting with "/")
}

const pathPlain = "abcXYZ019-._~!$&'()*,;=:@"

func genRawPath(t *rapid.T) string {
	nseg := rapid.IntRange(0, 4).Draw(t, "nseg")
	if nseg == 0 {
		return rapid.SampledFrom([]string{"", "", "/"}).Draw(t, "emptypath")
	}
	var sb strings.Builder
	for i := 0; i < nseg; i++ {
		sb.WriteString(rapid.SampledFrom([]string{"/", "/", "/", "//"}).Draw(t, "sep"))
		nch := rapid.IntRange(0, 6).Draw(t, "nch")
		for j := 0; j < nch; j++ {
			switch rapid.IntRange(0, 9).Draw(t, "chkind") {
			case 0:
				sb.WriteByte(' ')
			case 1:
				sb.WriteByte('+')
			case 2:
				sb.WriteString(rapid.SampledFrom([]string{"%20", "%2B", "%2F", "%25", "%2b", "%3F", "%23", "%00", "%C3%A9", "%FF", "%7E", "%41"}).Draw(t, "esc"))
			case 3:
				sb.WriteString(fmt.Sprintf("%%%02X", rapid.IntRange(0, 255).Draw(t, "escbyte")))
			default:
				sb.WriteByte(pathPlain[rapid.IntRange(0, len(pathPlain)-1).Draw(t, "plain")])
			}
		}
	}
	if rapid.IntRange(0, 3).Draw(t, "trail") == 0 {
		sb.WriteByte('/')
	}
	return sb.String()
}

func genURLCase(t *rapid.T) urlCase {
	c := urlCase{Scheme: rapid.SampledFrom([]string{"http", "https"}).Draw(t, "scheme")}
	c.HostKind = rapid.SampledFrom([]string{"ip4", "ip6", "dns"}).Draw(t, "hostkind")
	cls := rapid.SampledFrom([]string{gen.IPPublic, gen.IPPrivate, gen.IPLoopback, gen.IPUnspecified, gen.IPSpecial}).Draw(t, "ipclass")
	switch c.HostKind {
	case "ip4":
		c.Host = gen.IP4(cls).Draw(t, "ip4").String()
	case "ip6":
		ip := gen.IP6(cls).Draw(t, "ip6")
		if ip.To4() != nil { // quantifier: not IPv4-mapped
			ip[0] = 0x26
		}
		c.Host = ip.String()
	default:
		c.Host = rapid.OneOf(gen.DNSName(), rapid.Just("localhost")).Draw(t, "dns")
		if rapid.IntRange(0, 5).Draw(t, "fqdn") == 0 {
			c.Host += "." // a fully-qualified name as written in zone files: another host string for the same target
		}
	}
	c.Port = -1
	if rapid.IntRange(0, 3).Draw(t, "hasport") > 0 {
		c.Port = rapid.OneOf(rapid.IntRange(0, 65535), rapid.SampledFrom([]int{0, 1, 80, 443, 8080, 65535})).Draw(t, "port")
	}
	c.RawPath = genRawPath(t)
	return c
}

func (c urlCase) String() string {
	h := c.Host
	if c.HostKind == "ip6" {
		h = "[" + h + "]"
	}
	if c.Port >= 0 {
		h += ":" + strconv.Itoa(c.Port)
	}
	return c.Scheme + "://" + h + c.RawPath
}

func sameHost(a, b string) bool {
	ia, ib := net.ParseIP(a), net.ParseIP(b)
	if ia != nil || ib != nil {
		return ia != nil && ib != nil && ia.Equal(ib)
	}
	return a == b
}

func checkSameTarget(what string, u, u2 *url.URL) string {
	if u2.Scheme != u.Scheme {
		return fmt.Sprintf("%s: scheme %q -> %q", what, u.Scheme, u2.Scheme)
	}
	if !sameHost(u.Hostname(), u2.Hostname()) {
		return fmt.Sprintf("%s: host %q -> %q", what, u.Hostname(), u2.Hostname())
	}
	if u.Port() != u2.Port() {
		return fmt.Sprintf("%s: port %q -> %q", what, u.Port(), u2.Port())
	}
	if u.Path != u2.Path {
		return fmt.Sprintf("%s: decoded path %q -> %q", what, u.Path, u2.Path)
	}
	return ""
}

func runURLCase(c urlCase) pbt.Result {
	s := c.String()
	u, err := url.Parse(s)
	if err != nil {
		return pbt.Result{Skip: true}
	}
	res := pbt.Result{Classes: []string{"host=" + c.HostKind}}
	if c.Port < 0 {
		res.Classes = append(res.Classes, "port=absent")
	}
	p := u.Path
	for _, f := range []struct{ sub, label string }{{" ", "path:space"}, {"+", "path:plus"}, {"%", "path:percent"}, {"//", "path:dslash"}} {
		if strings.Contains(p, f.sub) {
			res.Classes = append(res.Classes, f.label)
			res.NonTrivial = true
		}
	}
	if p == "" {
		res.Classes = append(res.Classes, "path=empty")
	}
	res.Key = s
	ma, err := maurl.FromURL(u)
	if err != nil {
		res.Fail = fmt.Sprintf("FromURL(%q) failed: %v", s, err)
		return res
	}
	u2, err := maurl.ToURL(ma)
	if err != nil {
		res.Fail = fmt.Sprintf("ToURL(FromURL(%q)=%s) failed: %v", s, ma, err)
		return res
	}
	if msg := checkSameTarget("ToURL(FromURL(u))", u, u2); msg != "" {
		res.Fail = fmt.Sprintf("url %q via %s: %s", s, ma, msg)
		return res
	}
	// The address travels as bytes (announce messages) and as text (JSON, config):
	// both transports must keep the target.
	mb, err := multiaddr.NewMultiaddrBytes(ma.Bytes())
	if err != nil {
		res.Fail = fmt.Sprintf("url %q: multiaddr bytes do not parse back: %v", s, err)
		return res
	}
	ms, err := multiaddr.NewMultiaddr(ma.String())
	if err != nil {
		res.Fail = fmt.Sprintf("url %q: multiaddr text %q does not parse back: %v", s, ma.String(), err)
		return res
	}
	for _, m := range []multiaddr.Multiaddr{mb, ms} {
		u3, err := maurl.ToURL(m)
		if err != nil {
			res.Fail = fmt.Sprintf("url %q: ToURL after transport failed: %v", s, err)
			return res
		}
		if msg := checkSameTarget("after transport", u, u3); msg != "" {
			res.Fail = fmt.Sprintf("url %q via %s: %s", s, m, msg)
			return res
		}
	}
	// the round-tripped URL, rendered and parsed again, converts to the same multiaddr
	u4, err := url.Parse(u2.String())
	if err == nil {
		ma2, err := maurl.FromURL(u4)
		if err != nil || !ma2.Equal(ma) {
			res.Fail = fmt.Sprintf("url %q: FromURL(parse(ToURL(m).String())) = %v (err %v), want %s", s, ma2, err, ma)
		}
	}
	return res
}

func TestC20_URLRoundTrip(t *testing.T) {
	pbt.Run(t, pbt.Config{Prop: "C20", Unit: "TestC20_URLRoundTrip",
		Rule: "URL drawn as scheme x host kind (IPv4/IPv6/DNS, all IP classes) x port (absent|0..65535) x path from segments over unreserved, sub-delims, space, '+', %xx of any byte, '//' and trailing '/'; oracle: ToURL(FromURL(u)) keeps scheme, host (IPs compared parsed), port, decoded path byte for byte, also after the multiaddr travelled as bytes and as text. Non-trivial: decoded path contains space, '+', '%' or '//'; distinct by URL string.",
	}, genURLCase, runURLCase)
}

// ---------------------------------------------------------------- multiaddr forms -> URL

type formCase struct {
	HostKind string
	Host     string
	Port     int
	Form     string // http | https | tls/http | tls/ws | ws | wss
	PathKind string // none | http-path | httpath
	PathEsc  string // escaped text of the path component
}

func genFormCase(t *rapid.T) formCase {
	c := formCase{HostKind: rapid.SampledFrom([]string{"ip4", "ip6", "dns"}).Draw(t, "hostkind")}
	switch c.HostKind {
	case "ip4":
		c.Host = gen.IP4(gen.IPPublic).Draw(t, "ip").String()
	case "ip6":
		c.Host = gen.IP6(gen.IPPublic).Draw(t, "ip").String()
	default:
		c.Host = gen.DNSName().Draw(t, "dns")
	}
	c.Port = rapid.IntRange(-1, 65535).Draw(t, "port")
	c.Form = rapid.SampledFrom([]string{"http", "https", "tls/http", "tls/sni/http"}).Draw(t, "form")
	c.PathKind = rapid.SampledFrom([]string{"none", "http-path", "httpath"}).Draw(t, "pathkind")
	c.PathEsc = rapid.StringMatching(`[a-z0-9._~-]{1,6}(%2F[a-z0-9._-]{1,6}){0,3}`).Draw(t, "pathesc")
	return c
}

func runFormCase(c formCase) pbt.Result {
	proto := map[string]string{"ip4": "ip4", "ip6": "ip6", "dns": "dns"}[c.HostKind]
	s := "/" + proto + "/" + c.Host
	if c.Port >= 0 {
		s += "/tcp/" + strconv.Itoa(c.Port)
	}
	if c.Form == "tls/sni/http" {
		// the form libp2p uses for HTTPS endpoints that name the TLS server
		s += "/tls/sni/sni.example.com/http"
	} else {
		s += "/" + c.Form
	}
	if c.PathKind != "none" {
		s += "/" + c.PathKind + "/" + c.PathEsc
	}
	res := pbt.Result{Key: s, Classes: []string{"form=" + c.Form, "path=" + c.PathKind}, NonTrivial: c.Form != "http" || c.PathKind == "httpath"}
	ma, err := multiaddr.NewMultiaddr(s)
	if err != nil {
		return pbt.Result{Skip: true}
	}
	u, err := maurl.ToURL(ma)
	if err != nil {
		res.Fail = fmt.Sprintf("ToURL(%s): %v", s, err)
		return res
	}
	want := "https"
	if c.Form == "http" {
		want = "http"
	}
	if u.Scheme != want {
		res.Fail = fmt.Sprintf("ToURL(%s) scheme %q, want %q", s, u.Scheme, want)
		return res
	}
	if !sameHost(u.Hostname(), c.Host) {
		res.Fail = fmt.Sprintf("ToURL(%s) host %q, want %q", s, u.Hostname(), c.Host)
		return res
	}
	wantPort := ""
	if c.Port >= 0 {
		wantPort = strconv.Itoa(c.Port)
	}
	if u.Port() != wantPort {
		res.Fail = fmt.Sprintf("ToURL(%s) port %q, want %q", s, u.Port(), wantPort)
		return res
	}
	wantPath := ""
	if c.PathKind != "none" {
		wantPath, _ = url.PathUnescape(c.PathEsc) // generator uses only %2F and unreserved characters
	}
	if u.Path != wantPath {
		res.Fail = fmt.Sprintf("ToURL(%s) path %q, want %q", s, u.Path, wantPath)
	}
	return res
}

func TestC20_Forms(t *testing.T) {
	pbt.Run(t, pbt.Config{Prop: "C20", Unit: "TestC20_Forms",
		Rule: "multiaddr built as host x optional tcp port x {http, https, tls/http, tls/sni/<name>/http} x {no path, http-path, legacy httpath}; oracle: scheme https for https, tls/http and tls/sni/<name>/http, http otherwise, same host, port and unescaped path. Non-trivial: https form or legacy path; distinct by multiaddr text.",
	}, genFormCase, runFormCase)
}

// ---------------------------------------------------------------- address helpers

type addrItem struct {
	Nil     bool
	Text    string
	Class   string
	HasHTTP bool
}

type listCase struct {
	Items []addrItem
	Perm  []int // permutation seed for the order-insensitivity checks
	Drop  int   // index dropped for the inequality check (-1 none)
}

func genListCase(t *rapid.T) listCase {
	n := rapid.IntRange(0, 8).Draw(t, "n")
	var c listCase
	for i := 0; i < n; i++ {
		switch k := rapid.IntRange(0, 9).Draw(t, "itemkind"); {
		case k == 0:
			c.Items = append(c.Items, addrItem{Nil: true})
		case k == 1 && len(c.Items) > 0:
			c.Items = append(c.Items, c.Items[rapid.IntRange(0, len(c.Items)-1).Draw(t, "dup")])
		default:
			a := gen.AddrOf("").Draw(t, "addr")
			c.Items = append(c.Items, addrItem{Text: a.MA.String(), Class: a.Class, HasHTTP: a.HasHTTP})
		}
	}
	c.Perm = rapid.SliceOfN(rapid.IntRange(0, 1<<20), len(c.Items), len(c.Items)).Draw(t, "perm")
	c.Drop = rapid.IntRange(-1, len(c.Items)-1).Draw(t, "drop")
	return c
}

func build(items []addrItem) []multiaddr.Multiaddr {
	out := make([]multiaddr.Multiaddr, len(items))
	for i, it := range items {
		if !it.Nil {
			out[i] = multiaddr.StringCast(it.Text)
		}
	}
	return out
}

func texts(ms []multiaddr.Multiaddr) []string {
	out := make([]string, len(ms))
	for i, m := range ms {
		if m == nil {
			out[i] = "<nil>"
		} else {
			out[i] = m.String()
		}
	}
	return out
}

func permute(items []addrItem, keys []int) []addrItem {
	idx := make([]int, len(items))
	for i := range idx {
		idx[i] = i
	}
	sort.SliceStable(idx, func(a, b int) bool { return keys[idx[a]] < keys[idx[b]] })
	out := make([]addrItem, len(items))
	for i, j := range idx {
		out[i] = items[j]
	}
	return out
}

func runListCase(c listCase) pbt.Result {
	res := pbt.Result{}
	hasNil, hasDup := false, false
	seen := map[string]bool{}
	for _, it := range c.Items {
		if it.Nil {
			hasNil = true
			continue
		}
		if seen[it.Text] {
			hasDup = true
		}
		seen[it.Text] = true
		res.Classes = append(res.Classes, "class="+it.Class)
	}
	if hasNil {
		res.Classes = append(res.Classes, "has-nil")
	}
	if hasDup {
		res.Classes = append(res.Classes, "has-dup")
	}
	res.NonTrivial = hasNil || hasDup

	// FindHTTPAddrs = exactly the non-nil addresses with an http/https component, order kept.
	var wantHTTP []string
	for _, it := range c.Items {
		if !it.Nil && it.HasHTTP {
			wantHTTP = append(wantHTTP, it.Text)
		}
	}
	inHTTP := build(c.Items)
	beforeHTTP := texts(inHTTP)
	gotHTTP := texts(mautil.FindHTTPAddrs(inHTTP))
	if strings.Join(gotHTTP, " ") != strings.Join(wantHTTP, " ") {
		res.Fail = fmt.Sprintf("FindHTTPAddrs(%v) = %v, want %v", texts(build(c.Items)), gotHTTP, wantHTTP)
		return res
	}
	// a selection does not rearrange the list it selects from (the caller goes on using it)
	if after := texts(inHTTP); strings.Join(after, " ") != strings.Join(beforeHTTP, " ") {
		res.Fail = fmt.Sprintf("FindHTTPAddrs changed the list it was given: %v became %v", beforeHTTP, after)
		return res
	}

	// FilterPublic: nothing clearly non-public, every clearly public one, order kept, nothing invented.
	in := build(c.Items)
	beforePub := texts(in)
	got := mautil.FilterPublic(in)
	if after := texts(in); strings.Join(after, " ") != strings.Join(beforePub, " ") {
		res.Fail = fmt.Sprintf("FilterPublic changed the list it was given: %v became %v", beforePub, after)
		return res
	}
	gi := 0
	for _, it := range c.Items {
		if it.Nil {
			// not asserted either way; consume if present
			if gi < len(got) && got[gi] == nil {
				gi++
			}
			continue
		}
		present := gi < len(got) && got[gi] != nil && got[gi].String() == it.Text
		switch it.Class {
		case gen.IPPrivate, gen.IPLoopback, gen.IPUnspecified, "dns-localhost":
			if present {
				res.Fail = fmt.Sprintf("FilterPublic(%v) kept %s (%s): got %v", texts(in), it.Text, it.Class, texts(got))
				return res
			}
		case gen.IPPublic, "dns", "other":
			if !present {
				res.Fail = fmt.Sprintf("FilterPublic(%v) dropped or reordered %s (%s): got %v", texts(in), it.Text, it.Class, texts(got))
				return res
			}
			gi++
		default: // special-purpose ranges: either outcome
			if present {
				gi++
			}
		}
	}
	if gi != len(got) {
		res.Fail = fmt.Sprintf("FilterPublic(%v) returned entries that are not in its input order: %v", texts(in), texts(got))
		return res
	}

	// CleanPeerAddrInfo = the non-nil inputs as a multiset.
	var wantClean []string
	for _, it := range c.Items {
		if !it.Nil {
			wantClean = append(wantClean, it.Text)
		}
	}
	cl := mautil.CleanPeerAddrInfo(peer.AddrInfo{ID: gen.Keys()[0].ID, Addrs: build(c.Items)})
	gotClean := texts(cl.Addrs)
	sort.Strings(wantClean)
	sort.Strings(gotClean)
	if strings.Join(gotClean, " ") != strings.Join(wantClean, " ") || cl.ID != gen.Keys()[0].ID {
		res.Fail = fmt.Sprintf("CleanPeerAddrInfo(%v) = %v, want multiset %v", texts(build(c.Items)), gotClean, wantClean)
		return res
	}

	// MultiaddrsEqual <=> multiset equality (nil-free lists, as produced by CleanPeerAddrInfo).
	var clean []addrItem
	var keys []int
	for i, it := range c.Items {
		if !it.Nil {
			clean = append(clean, it)
			keys = append(keys, c.Perm[i])
		}
	}
	perm := permute(clean, keys)
	if !mautil.MultiaddrsEqual(build(clean), build(perm)) {
		res.Fail = fmt.Sprintf("MultiaddrsEqual(%v, permutation %v) = false", texts(build(clean)), texts(build(perm)))
		return res
	}
	if c.Drop >= 0 && c.Drop < len(perm) && len(perm) > 0 {
		// replace one element by a different address: multisets differ unless the replacement re-creates it
		other := append([]addrItem(nil), perm...)
		repl := addrItem{Text: "/ip4/203.0.113.77/tcp/7/http"}
		if other[c.Drop].Text == repl.Text {
			repl.Text = "/ip4/203.0.113.78/tcp/7/http"
		}
		other[c.Drop] = repl
		a, b := build(clean), build(other)
		wantEq := multisetEqual(a, b)
		if got := mautil.MultiaddrsEqual(a, b); got != wantEq {
			res.Fail = fmt.Sprintf("MultiaddrsEqual(%v, %v) = %v, want %v", texts(build(clean)), texts(build(other)), got, wantEq)
			return res
		}
		shorter := build(perm[:len(perm)-1])
		if mautil.MultiaddrsEqual(build(clean), shorter) {
			res.Fail = fmt.Sprintf("MultiaddrsEqual(%v, %v) = true for different lengths", texts(build(clean)), texts(shorter))
			return res
		}
	}
	return res
}

func multisetEqual(a, b []multiaddr.Multiaddr) bool {
	if len(a) != len(b) {
		return false
	}
	as, bs := make([][]byte, len(a)), make([][]byte, len(b))
	for i := range a {
		as[i], bs[i] = a[i].Bytes(), b[i].Bytes()
	}
	sort.Slice(as, func(i, j int) bool { return bytes.Compare(as[i], as[j]) < 0 })
	sort.Slice(bs, func(i, j int) bool { return bytes.Compare(bs[i], bs[j]) < 0 })
	for i := range as {
		if !bytes.Equal(as[i], bs[i]) {
			return false
		}
	}
	return true
}

func TestC20_Helpers(t *testing.T) {
	pbt.Run(t, pbt.Config{Prop: "C20", Unit: "TestC20_Helpers",
		Rule: "address lists of 0..8 entries over public/private/loopback/unspecified/special IPv4+IPv6, DNS, localhost, non-IP addresses, with nil entries and duplicates, plus a drawn permutation; oracles: FindHTTPAddrs = filter(has http|https), FilterPublic drops every clearly non-public and keeps every clearly public entry in order, CleanPeerAddrInfo = non-nil inputs as multiset, MultiaddrsEqual <=> multiset equality. Non-trivial: list has a nil or a duplicate; distinct by case.",
		Assumptions: []string{"special-purpose ranges (100.64/10, 198.18/15, 169.254/16, multicast, 0/8, fe80::/10, 2001:db8::/32, ff00::/8) and nil entries are not asserted either way for FilterPublic", "MultiaddrsEqual is given nil-free lists"},
	}, genListCase, runListCase)
}
