package c06h

import (
	"context"
	"encoding/json"
	"fmt"
	"net/http"
	"net/http/httptest"
	"strings"
	"sync"
	"testing"
	"time"

	"github.com/ipni/go-libipni/find/model"
	"github.com/ipni/go-libipni/pcache"
	"github.com/libp2p/go-libp2p/core/peer"
	"github.com/multiformats/go-multiaddr"
	"pgregory.net/rapid"

	"verif/h23/gen"
	"verif/h23/pbt"
)

// The provider cache over its real HTTP source (pcache/http_source.go) against loopback provider endpoints.

type step struct {
	Op  string // set | del | refresh | get | fail
	Src int
	Pid int
	T   int
}

type Case struct {
	NSrc  int
	Steps []step
}

type endpoint struct {
	mu       sync.Mutex
	content  map[int][2]int // provider -> (version, time)
	failNext int            // status to answer the next request with (0 = none)
	fetches  map[int]int    // per provider: /providers/<id> requests
	srv      *httptest.Server
}

var base = time.Date(2022, 1, 1, 0, 0, 0, 0, time.UTC)

func info(p int, v [2]int) *model.ProviderInfo {
	a, _ := multiaddr.NewMultiaddr(fmt.Sprintf("/ip4/8.8.8.8/tcp/%d", 1000+v[0]))
	return &model.ProviderInfo{AddrInfo: peer.AddrInfo{ID: gen.Keys()[p].ID, Addrs: []multiaddr.Multiaddr{a}}, LastError: fmt.Sprintf("v%d", v[0]),
		LastAdvertisementTime: base.Add(time.Duration(v[1]) * time.Second).Format(time.RFC3339)}
}

func newEndpoint() *endpoint {
	e := &endpoint{content: map[int][2]int{}, fetches: map[int]int{}}
	e.srv = httptest.NewServer(http.HandlerFunc(func(w http.ResponseWriter, r *http.Request) {
		e.mu.Lock()
		defer e.mu.Unlock()
		if e.failNext != 0 {
			st := e.failNext
			e.failNext = 0
			http.Error(w, "injected", st)
			return
		}
		if r.URL.Path == "/providers" {
			var all []*model.ProviderInfo
			for p, v := range e.content {
				all = append(all, info(p, v))
			}
			_ = json.NewEncoder(w).Encode(all)
			return
		}
		id := strings.TrimPrefix(r.URL.Path, "/providers/")
		for p := 0; p < 8; p++ {
			if gen.Keys()[p].ID.String() == id {
				e.fetches[p]++
				if v, ok := e.content[p]; ok {
					_ = json.NewEncoder(w).Encode(info(p, v))
					return
				}
			}
		}
		http.Error(w, "no such provider", http.StatusNotFound)
	}))
	return e
}

func runCase(c Case) (res pbt.Result) {
	var eps []*endpoint
	var urls []string
	for i := 0; i < c.NSrc; i++ {
		e := newEndpoint()
		defer e.srv.Close()
		eps = append(eps, e)
		urls = append(urls, e.srv.URL)
	}
	pc, err := pcache.New(pcache.WithSourceURL(urls...), pcache.WithPreload(false), pcache.WithRefreshInterval(0), pcache.WithTTL(time.Hour))
	if err != nil {
		return pbt.Failf("pcache.New: %v", err)
	}
	ctx := context.Background()
	ver := 0
	known := map[int]bool{}  // providers a completed refresh (or miss-fetch) made visible
	absent := map[int]bool{} // providers remembered as absent
	sawNeg, sawFail := false, false
	served := map[int]map[string]bool{} // provider -> version tags ever set for it
	type heldRec struct {
		pi                *model.ProviderInfo
		id                peer.ID
		tag, when, addr   string
		step              int
	}
	var held []heldRec
	// checkRecord: the record belongs to the provider asked for, is one of the records served for it, is not a
	// mixture of two records; it is then held, and must never change afterwards (it was handed to a caller)
	checkRecord := func(i, p int, pi *model.ProviderInfo) string {
		if pi.AddrInfo.ID != gen.Keys()[p].ID {
			return fmt.Sprintf("step %d: Get(provider %d) returned the record of another provider (%s)", i, p, pi.AddrInfo.ID)
		}
		if !served[p][pi.LastError] {
			return fmt.Sprintf("step %d: Get(provider %d) returned a record tagged %q, which no endpoint ever served for it", i, p, pi.LastError)
		}
		var v int
		_, _ = fmt.Sscanf(pi.LastError, "v%d", &v)
		if len(pi.AddrInfo.Addrs) != 1 || !strings.HasSuffix(pi.AddrInfo.Addrs[0].String(), fmt.Sprintf("/tcp/%d", 1000+v)) {
			return fmt.Sprintf("step %d: Get(provider %d) returned a mixture of records: tag %s with addresses %v", i, p, pi.LastError, pi.AddrInfo.Addrs)
		}
		held = append(held, heldRec{pi: pi, id: pi.AddrInfo.ID, tag: pi.LastError, when: pi.LastAdvertisementTime, addr: pi.AddrInfo.Addrs[0].String(), step: i})
		return ""
	}
	checkHeld := func(i int) string {
		for _, h := range held {
			if h.pi.AddrInfo.ID != h.id || h.pi.LastError != h.tag || h.pi.LastAdvertisementTime != h.when || len(h.pi.AddrInfo.Addrs) != 1 || h.pi.AddrInfo.Addrs[0].String() != h.addr {
				return fmt.Sprintf("step %d: the record that Get returned at step %d (provider %s, tag %s) has changed since (now provider %s, tag %s): records handed to callers are modified in place", i, h.step, h.id, h.tag, h.pi.AddrInfo.ID, h.pi.LastError)
			}
		}
		return ""
	}
	for i, s := range c.Steps {
		if msg := checkHeld(i); msg != "" {
			return pbt.Failf("%s", msg)
		}
		switch s.Op {
		case "set":
			ver++
			eps[s.Src].mu.Lock()
			eps[s.Src].content[s.Pid] = [2]int{ver, s.T}
			eps[s.Src].mu.Unlock()
			if served[s.Pid] == nil {
				served[s.Pid] = map[string]bool{}
			}
			served[s.Pid][fmt.Sprintf("v%d", ver)] = true
		case "del":
			eps[s.Src].mu.Lock()
			delete(eps[s.Src].content, s.Pid)
			eps[s.Src].mu.Unlock()
		case "fail":
			sawFail = true
			eps[s.Src].mu.Lock()
			eps[s.Src].failNext = []int{500, 503, 404, 400}[s.T%4]
			eps[s.Src].mu.Unlock()
		case "refresh":
			failed := map[int]bool{}
			for k, e := range eps {
				e.mu.Lock()
				failed[k] = e.failNext != 0
				e.mu.Unlock()
			}
			if err := pc.Refresh(ctx); err != nil {
				return pbt.Failf("step %d: Refresh: %v", i, err)
			}
			// every provider reported by a responding source is visible with the freshest record
			best := map[int][2]int{}
			for k, e := range eps {
				if failed[k] {
					continue
				}
				e.mu.Lock()
				for p, v := range e.content {
					if b, ok := best[p]; !ok || v[1] > b[1] {
						best[p] = v
					}
				}
				e.mu.Unlock()
			}
			for p, b := range best {
				pi, err := pc.Get(ctx, gen.Keys()[p].ID)
				if err != nil || pi == nil {
					return pbt.Failf("step %d: provider %d is reported by a responding HTTP source but Get returns %v, %v", i, p, pi, err)
				}
				if msg := checkRecord(i, p, pi); msg != "" {
					return pbt.Failf("%s", msg)
				}
				want := base.Add(time.Duration(b[1]) * time.Second).Format(time.RFC3339)
				if !known[p] && pi.LastAdvertisementTime < want {
					return pbt.Failf("step %d: provider %d has advertisement time %s, a responding source reports %s", i, p, pi.LastAdvertisementTime, want)
				}
				known[p] = true
				delete(absent, p)
			}
		case "get":
			before := 0
			for _, e := range eps {
				e.mu.Lock()
				before += e.fetches[s.Pid]
				e.mu.Unlock()
			}
			pi, err := pc.Get(ctx, gen.Keys()[s.Pid].ID)
			if err != nil {
				return pbt.Failf("step %d: Get: %v", i, err)
			}
			after := 0
			anyHas, anyFail := false, false
			for _, e := range eps {
				e.mu.Lock()
				after += e.fetches[s.Pid]
				if _, ok := e.content[s.Pid]; ok {
					anyHas = true
				}
				e.mu.Unlock()
			}
			_ = anyFail
			if absent[s.Pid] {
				sawNeg = true
				if pi != nil || after != before {
					return pbt.Failf("step %d: provider %d is remembered as absent but Get returned %v and made %d requests to /providers/<id>", i, s.Pid, pi, after-before)
				}
			}
			if pi == nil && after > before && !anyHas && !known[s.Pid] {
				absent[s.Pid] = true
			}
			if pi != nil {
				known[s.Pid] = true
				if msg := checkRecord(i, s.Pid, pi); msg != "" {
					return pbt.Failf("%s", msg)
				}
			}
		}
	}
	if msg := checkHeld(len(c.Steps)); msg != "" {
		return pbt.Failf("%s", msg)
	}
	res.NonTrivial = sawNeg || (sawFail && c.NSrc > 1)
	return res
}

func TestC06_HTTPSource(t *testing.T) {
	pbt.Run(t, pbt.Config{Prop: "C06", Unit: "TestC06_HTTPSource",
		Rule: "the provider cache over its real HTTP source against 1..2 loopback provider endpoints (/providers, /providers/<id>) whose content changes; steps: set / delete a provider at an endpoint, make an endpoint answer its next request with 500/503/404/400, Refresh, Get; oracle (coarser than TestC06_Model, no clock): after a Refresh every provider reported by a responding endpoint is returned with a record at least as fresh as the freshest reported; every record returned belongs to the provider asked for, is one the endpoints served for it and is not a mixture of two; a record once returned to a caller never changes afterwards (the listing order of the endpoints changes from request to request); a provider no endpoint knows is remembered as absent: repeated Gets make no further /providers/<id> request. Non-trivial: a remembered-absent hit, or an injected failure with two endpoints; distinct by case.",
	}, func(t *rapid.T) Case {
		c := Case{NSrc: rapid.IntRange(1, 2).Draw(t, "nsrc")}
		n := rapid.IntRange(3, 25).Draw(t, "n")
		for i := 0; i < n; i++ {
			c.Steps = append(c.Steps, step{Op: rapid.SampledFrom([]string{"set", "set", "del", "refresh", "refresh", "get", "get", "get", "fail"}).Draw(t, "op"),
				Src: rapid.IntRange(0, c.NSrc-1).Draw(t, "src"), Pid: rapid.IntRange(0, 5).Draw(t, "pid"), T: rapid.IntRange(0, 9).Draw(t, "t")})
		}
		return c
	}, runCase)
}
