package c16

import (
	"context"
	"errors"
	"fmt"
	"testing"
	"time"

	"github.com/ipni/go-libipni/announce"
	"github.com/libp2p/go-libp2p/core/peer"
	"pgregory.net/rapid"

	"verif/h23/gen"
	"verif/h23/pbt"
)

// A Direct call waiting for the consumer (the one delivery slot is taken) whose context is cancelled at about
// the moment the receiver is closed: whichever of the two wakes it, the call returns, and the receiver stays
// usable for the calls that follow (which return promptly, Direct with the closed error).

type cancelCase struct {
	Blocked   int  // Direct calls waiting for the slot
	CancelAll bool // cancel every waiting call's context, or only the first
	CloseGap  int  // scheduler yields between the cancellation and Close (negative: Close first)
	Reps      int
}

func TestC16_CancelledDirect(t *testing.T) {
	pbt.Run(t, pbt.Config{Prop: "C16", Unit: "TestC16_CancelledDirect", TrackCurrent: true,
		Rule: "a receiver without topic; one announcement fills the delivery slot, 1..3 further Direct calls with cancellable contexts wait for it; their contexts are cancelled and Close is called within a few scheduler yields of each other (either order); then Close again, UncacheCid, Direct and Next are called; repeated 5..30 times per case on fresh receivers; oracle: every call returns within 2 s (a miss is re-tried twice on fresh receivers before it is reported), the later Direct returns the closed error, Close returns nil. Non-trivial: always; distinct by case.",
		Assumptions: []string{"interleavings are sampled by the Go scheduler"},
	}, func(t *rapid.T) cancelCase {
		return cancelCase{Blocked: rapid.IntRange(1, 3).Draw(t, "blocked"), CancelAll: rapid.Bool().Draw(t, "cancelall"), CloseGap: rapid.IntRange(-3, 6).Draw(t, "gap"), Reps: rapid.IntRange(5, 30).Draw(t, "reps")}
	}, func(c cancelCase) (res pbt.Result) {
		res.NonTrivial = true
		pinfo := peer.AddrInfo{ID: gen.Keys()[0].ID}
		once := func() (viol string, slow bool) {
			r, err := announce.NewReceiver(nil, "")
			if err != nil {
				return "NewReceiver: " + err.Error(), false
			}
			if err := r.Direct(context.Background(), cidOf(0), pinfo); err != nil {
				return "Direct: " + err.Error(), false
			}
			type w struct {
				cancel context.CancelFunc
				done   chan error
			}
			var ws []w
			for i := 0; i < c.Blocked; i++ {
				ctx, cancel := context.WithCancel(context.Background())
				d := make(chan error, 1)
				ci := cidOf(10 + i)
				go func() { d <- r.Direct(ctx, ci, pinfo) }()
				ws = append(ws, w{cancel, d})
			}
			time.Sleep(2 * time.Millisecond) // let them reach the slot (not required for the oracle)
			closed := make(chan error, 1)
			doCancel := func() {
				for i, x := range ws {
					if i == 0 || c.CancelAll {
						x.cancel()
					}
				}
			}
			yield := func(n int) {
				for i := 0; i < n; i++ {
					time.Sleep(0)
				}
			}
			if c.CloseGap >= 0 {
				doCancel()
				yield(c.CloseGap)
				go func() { closed <- r.Close() }()
			} else {
				go func() { closed <- r.Close() }()
				yield(-c.CloseGap)
				doCancel()
			}
			deadline := time.After(2 * time.Second)
			select {
			case err := <-closed:
				if err != nil {
					return "Close returned " + err.Error(), false
				}
			case <-deadline:
				return "", true
			}
			for _, x := range ws {
				select {
				case <-x.done:
				case <-deadline:
					return "", true
				}
				x.cancel()
			}
			// the calls that follow
			later := make(chan string, 1)
			go func() {
				if err := r.Close(); err != nil {
					later <- "second Close returned " + err.Error()
					return
				}
				r.UncacheCid(cidOf(0))
				if err := r.Direct(context.Background(), cidOf(99), pinfo); !errors.Is(err, announce.ErrClosed) {
					later <- fmt.Sprintf("Direct after Close returned %v, want the closed error", err)
					return
				}
				ctx, cancel := context.WithTimeout(context.Background(), time.Second)
				_, _ = r.Next(ctx)
				cancel()
				later <- ""
			}()
			select {
			case v := <-later:
				return v, false
			case <-time.After(2 * time.Second):
				return "", true
			}
		}
		for rep := 0; rep < c.Reps; rep++ {
			v, slow := once()
			if slow {
				n := 1
				for k := 0; k < 2; k++ {
					if _, s := once(); s {
						n++
					}
				}
				if n == 3 {
					res.Fail = fmt.Sprintf("a call does not return within 2 s when waiting Direct calls are cancelled and the receiver is closed at about the same time (reproduced 3 of 3 times on fresh receivers; blocked=%d cancelall=%v gap=%d)", c.Blocked, c.CancelAll, c.CloseGap)
					return res
				}
				continue
			}
			if v != "" {
				res.Fail = fmt.Sprintf("repetition %d: %s", rep, v)
				return res
			}
		}
		return res
	})
}
