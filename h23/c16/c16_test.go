package c16

import (
	"bytes"
	"context"
	"errors"
	"fmt"
	"runtime"
	"strings"
	"sync"
	"sync/atomic"
	"testing"
	"time"

	"github.com/ipfs/go-cid"
	"github.com/ipni/go-libipni/announce"
	"github.com/ipni/go-libipni/announce/gossiptopic"
	"github.com/ipni/go-libipni/announce/message"
	dstest "github.com/ipni/go-libipni/dagsync/test"
	pubsub "github.com/libp2p/go-libp2p-pubsub"
	"github.com/libp2p/go-libp2p/core/host"
	"github.com/libp2p/go-libp2p/core/peer"
	"github.com/multiformats/go-multihash"
	"pgregory.net/rapid"

	"verif/h23/gen"
	"verif/h23/pbt"
)

// Real time on purpose: the failure this property excludes is a leaked sync.Mutex,
// which a synctest bubble cannot see.

type step struct {
	Op   string // close | direct | next | uncache
	Cid  int
	Conc bool // start the next step without waiting for this one
}

type Case struct {
	Variant string // nohost | host-notopic | host-topic
	Resend  bool   // WithResend(true) on a receiver that has no topic to re-publish to (the option then has nothing to do)
	Steps   []step
}

func genCase(t *rapid.T) Case { return genVariant(t, false) }

func genTopicCase(t *rapid.T) Case { return genVariant(t, true) }

func genVariant(t *rapid.T, topic bool) Case {
	c := Case{Variant: rapid.SampledFrom([]string{"nohost", "nohost", "nohost", "nohost", "host-notopic"}).Draw(t, "variant")}
	if topic {
		c.Variant = "host-topic"
	} else {
		c.Resend = rapid.IntRange(0, 2).Draw(t, "resend") == 0
	}
	n := rapid.IntRange(1, 10).Draw(t, "nsteps")
	ops := []string{"close", "close", "direct", "direct", "next", "next", "uncache"}
	if topic {
		// a gossip message whose handling is parked inside the allow-peer callback (the watcher goroutine is then
		// between dequeuing the message and taking the receiver's lock), and its release
		ops = append(ops, "pubpark", "pubpark", "release")
	}
	for i := 0; i < n; i++ {
		s := step{Op: rapid.SampledFrom(ops).Draw(t, "op"), Cid: rapid.IntRange(0, 5).Draw(t, "cid"), Conc: rapid.IntRange(0, 2).Draw(t, "conc") == 0}
		c.Steps = append(c.Steps, s)
	}
	return c
}

func cidOf(i int) cid.Cid {
	mh, _ := multihash.Sum([]byte(fmt.Sprintf("c16-%d", i)), multihash.SHA2_256, -1)
	return cid.NewCidV1(cid.DagJSON, mh)
}

var (
	hostOnce   sync.Once
	sharedHost host.Host
	everHung   atomic.Bool
	topicSeq   atomic.Int32
)

type call struct {
	op   string
	done chan struct{}
	err  error
	got  bool // next: an announcement was returned
	afterClose bool // a Close call had returned before this call was started
}

const prompt = 2 * time.Second

// execute runs the history on a fresh receiver; hang != "" describes a call that did not return although it must.
func execute(t *testing.T, c Case) (viol string, hang string) {
	var h host.Host
	topic := ""
	switch c.Variant {
	case "host-notopic":
		hostOnce.Do(func() { sharedHost = dstest.MkTestHost(t) })
		h = sharedHost
	case "host-topic":
		h = dstest.MkTestHost(t)
		topic = fmt.Sprintf("/verif/c16/%d", topicSeq.Add(1))
	}
	var opts []announce.Option
	var psTopic *pubsub.Topic
	gate := &parkGate{}
	if c.Variant == "host-topic" {
		tp, cancelPS, err := gossiptopic.MakeTopic(h, topic)
		if err != nil {
			return "MakeTopic: " + err.Error(), ""
		}
		defer cancelPS()
		defer h.Close()
		psTopic = tp
		self := h.ID()
		opts = append(opts, announce.WithTopic(tp), announce.WithAllowPeer(func(p peer.ID) bool {
			if p == self {
				gate.enter() // only gossip from this host itself parks; Direct calls name another peer
			}
			return true
		}))
		topic = ""
	}
	if c.Resend && c.Variant != "host-topic" {
		opts = append(opts, announce.WithResend(true))
	}
	r, err := announce.NewReceiver(h, topic, opts...)
	if err != nil {
		return "NewReceiver: " + err.Error(), ""
	}
	defer gate.releaseAll()
	pinfo := peer.AddrInfo{ID: gen.Keys()[0].ID}
	pubSeq := 0
	gossiped := 0 // gossip messages handed to the watcher before Close (each becomes a delivery once released)
	var calls []*call
	var stepOf []int      // calls[k] was started by step stepOf[k] (-1: harness-issued)
	closed := false       // a Close call has been started
	pushes, nexts := 0, 0 // pushing Direct calls / Next calls started before any Close
	seen := map[int]bool{}
	start := func(s step) *call {
		cl := &call{op: s.Op, done: make(chan struct{})}
		for _, prev := range calls {
			if prev.op == "close" {
				select {
				case <-prev.done:
					cl.afterClose = true
				default:
				}
			}
		}
		ci := cidOf(s.Cid)
		go func() {
			defer close(cl.done)
			switch s.Op {
			case "close":
				cl.err = r.Close()
			case "direct":
				cl.err = r.Direct(context.Background(), ci, pinfo)
			case "next":
				a, err := r.Next(context.Background())
				cl.err = err
				cl.got = err == nil && a.Cid.Defined()
			case "uncache":
				r.UncacheCid(ci)
			}
		}()
		return cl
	}
	finished := func(op string) int {
		n := 0
		for _, cl := range calls {
			if cl.op != op {
				continue
			}
			select {
			case <-cl.done:
				n++
			default:
			}
		}
		return n
	}
	count := func(op string) int {
		n := 0
		for _, cl := range calls {
			if cl.op == op {
				n++
			}
		}
		return n
	}
	// settle waits until the calls that must have returned did so.
	settle := func(what string) string {
		deadline := time.Now().Add(prompt)
		for {
			var missing string
			if closed {
				for i, cl := range calls {
					if cl.op == "close" && gate.parked() > 0 {
						continue // Close waits for the watcher, which the harness holds inside the allow-peer callback
					}
					select {
					case <-cl.done:
					default:
						missing = fmt.Sprintf("call %d (%s) has not returned although the receiver was closed", i, cl.op)
					}
				}
			} else {
				// gossip messages the watcher delivers (gossiped) compete with Direct calls for the one slot
				wantD := min(pushes, max(0, nexts+1-gossiped)) + (count("direct") - pushes) // duplicates return at once
				wantN := min(pushes, nexts)                                                 // consumers are served by Direct items or gossip items, whichever comes
				if fd := finished("direct"); fd < wantD {
					missing = fmt.Sprintf("%d of %d Direct calls returned, %d must have (one delivery slot, %d consumers)", fd, count("direct"), wantD, nexts)
				} else if fn := finished("next"); fn < wantN {
					missing = fmt.Sprintf("%d of %d Next calls returned, %d must have (%d announcements)", fn, count("next"), wantN, pushes)
				}
				for i, cl := range calls {
					if cl.op == "close" && gate.parked() > 0 {
						continue
					}
					if cl.op == "uncache" || cl.op == "close" {
						select {
						case <-cl.done:
						default:
							missing = fmt.Sprintf("call %d (%s) has not returned", i, cl.op)
						}
					}
				}
			}
			if missing == "" {
				return ""
			}
			if time.Now().After(deadline) {
				return what + ": " + missing
			}
			time.Sleep(200 * time.Microsecond)
		}
	}
	for i, s := range c.Steps {
		if s.Op == "pubpark" || s.Op == "release" {
			if psTopic == nil {
				continue
			}
			if s.Op == "release" {
				gate.releaseAll()
				if h := settle(fmt.Sprintf("after step %d (release)", i)); h != "" {
					return "", h
				}
				continue
			}
			if closed || gate.parked() > 0 {
				continue // the subscription is cancelled / the watcher is already parked
			}
			gate.arm()
			pubSeq++
			var buf bytes.Buffer
			m := message.Message{Cid: cidOf(1000 + pubSeq)}
			_ = m.MarshalCBOR(&buf)
			if err := psTopic.Publish(context.Background(), buf.Bytes()); err != nil {
				return "", ""
			}
			deadline := time.Now().Add(prompt)
			for gate.parked() == 0 && time.Now().Before(deadline) {
				time.Sleep(100 * time.Microsecond)
			}
			if gate.parked() == 0 {
				gate.disarm() // the message did not come back to this host's own subscription in time: nothing parked
			}
			gossiped++ // parked now, or still on its way: either way it may take the slot later
			continue
		}
		if s.Op == "uncache" {
			// the model needs to know whether the un-cache precedes or follows neighbouring announcements
			// of the same CID: it is ordered against them (not raced)
			if h := settle(fmt.Sprintf("before step %d (uncache)", i)); h != "" {
				return "", h
			}
			s.Conc = false
			// a Direct call for the same CID that is still pending may or may not have recorded the CID yet
			// (it may not even have been scheduled): the model could not tell what the un-cache removes
			skip := false
			for k, cl := range calls {
				if cl.op == "direct" && c.Steps[stepOf[k]].Cid == s.Cid {
					select {
					case <-cl.done:
					default:
						skip = true
					}
				}
			}
			if skip {
				continue
			}
		}
		if !closed {
			switch s.Op {
			case "direct":
				if !seen[s.Cid] {
					pushes++
					seen[s.Cid] = true
				}
			case "next":
				nexts++
			case "uncache":
				delete(seen, s.Cid)
			}
		}
		if s.Op == "close" {
			closed = true
		}
		calls = append(calls, start(s))
		stepOf = append(stepOf, i)
		if s.Conc && i+1 < len(c.Steps) {
			continue
		}
		if h := settle(fmt.Sprintf("after step %d (%s)", i, s.Op)); h != "" {
			return "", h
		}
	}
	// finally close; everything must return once the watcher is released
	if gate.parked() > 0 && closed {
		// calls other than Close must already have returned while the watcher is held (checked by settle above)
	}
	wasParked := gate.parked() > 0
	if !closed {
		closed = true
		calls = append(calls, start(step{Op: "close"}))
		stepOf = append(stepOf, -1)
	}
	if wasParked {
		// Close is called while the watcher sits between dequeuing a message and the receiver's lock
		if h := settle("after Close with the watcher held in the allow-peer callback"); h != "" {
			return "", h
		}
	}
	gate.releaseAll()
	if h := settle("after the final Close"); h != "" {
		return "", h
	}
	// results
	closeSeen := false
	for i, cl := range calls {
		<-cl.done
		switch cl.op {
		case "close":
			if cl.err != nil {
				return fmt.Sprintf("call %d: Close returned %v", i, cl.err), ""
			}
			closeSeen = true
		case "direct":
			if cl.err != nil && !errors.Is(cl.err, announce.ErrClosed) {
				return fmt.Sprintf("call %d: Direct returned %v", i, cl.err), ""
			}
			if cl.afterClose && !errors.Is(cl.err, announce.ErrClosed) {
				return fmt.Sprintf("call %d: Direct started after a Close call had returned gave %v, want the closed error (whether or not its CID was announced before)", i, cl.err), ""
			}
			_ = closeSeen
		case "next":
			if cl.err != nil && !errors.Is(cl.err, announce.ErrClosed) {
				return fmt.Sprintf("call %d: Next returned %v", i, cl.err), ""
			}
		}
	}
	// calls made after Close returned: closed error, promptly
	late := []*call{start(step{Op: "direct", Cid: 99}), start(step{Op: "next"}), start(step{Op: "uncache", Cid: 1}), start(step{Op: "close"})}
	// also a CID that the receiver has (probably) seen before it was closed
	for _, st := range c.Steps {
		if st.Op == "direct" {
			late = append(late, start(step{Op: "direct", Cid: st.Cid}))
			break
		}
	}
	deadline := time.Now().Add(prompt)
	for i, cl := range late {
		select {
		case <-cl.done:
		case <-time.After(time.Until(deadline)):
			return "", fmt.Sprintf("after Close returned: later call %d (%s) does not return", i, cl.op)
		}
	}
	if !errors.Is(late[0].err, announce.ErrClosed) {
		return fmt.Sprintf("Direct after Close returned %v, want the closed error", late[0].err), ""
	}
	if late[1].err == nil && !late[1].got {
		return "Next after Close returned no error and no announcement", ""
	}
	if late[1].err != nil && !errors.Is(late[1].err, announce.ErrClosed) {
		return fmt.Sprintf("Next after Close returned %v, want the closed error", late[1].err), ""
	}
	if len(late) > 4 && !errors.Is(late[4].err, announce.ErrClosed) {
		return fmt.Sprintf("Direct after Close of a CID announced before the Close returned %v, want the closed error", late[4].err), ""
	}
	if late[3].err != nil {
		return fmt.Sprintf("second Close returned %v", late[3].err), ""
	}
	if h != nil && !everHung.Load() {
		// the pubsub watcher goroutine is gone
		deadline := time.Now().Add(prompt)
		for {
			buf := make([]byte, 1<<20)
			buf = buf[:runtime.Stack(buf, true)]
			if !strings.Contains(string(buf), "announce.(*Receiver).watch") {
				break
			}
			if time.Now().After(deadline) {
				return "", "the receiver's watcher goroutine is still running after Close returned"
			}
			time.Sleep(time.Millisecond)
		}
	}
	return "", ""
}

func runCase(t *testing.T) func(Case) pbt.Result {
	return func(c Case) pbt.Result {
		res := pbt.Result{Classes: []string{"variant=" + c.Variant}}
		closes, conc := 0, false
		afterClose := false
		for _, s := range c.Steps {
			if s.Op == "close" {
				closes++
			} else if closes > 0 {
				afterClose = true
			}
			conc = conc || s.Conc
		}
		res.NonTrivial = closes >= 2 || afterClose
		if conc {
			res.Classes = append(res.Classes, "concurrent-steps")
		}
		viol, hang := execute(t, c)
		if viol != "" {
			res.Fail = viol
			return res
		}
		if hang != "" {
			// never reported from a single observation: the same history must hang twice more on fresh receivers
			everHung.Store(true)
			n := 0
			for k := 0; k < 2; k++ {
				if _, h2 := execute(t, c); h2 != "" {
					n++
				}
			}
			if n == 2 {
				res.Fail = "call does not return (reproduced 3 of 3 times on fresh receivers; normal cost of these calls is microseconds): " + hang
				return res
			}
			res.Classes = append(res.Classes, "slow-once-not-reproduced")
		}
		return res
	}
}

func TestC16_Histories(t *testing.T) {
	pbt.Run(t, pbt.Config{Prop: "C16", Unit: "TestC16_Histories", TrackCurrent: true,
		Rule:        "histories of 1..10 calls over Close / Direct / Next / UncacheCid on a fresh receiver (without host; with a libp2p host and no topic; in a third of the cases created with WithResend(true), which has nothing to re-publish to), each call in its own goroutine, either awaited or started concurrently with the next; a counting model of the one-slot delivery channel (Directs that must have returned = min(pushes, consumers+1), Nexts = min(pushes, consumers)) says which calls may still be blocked; after Close every call, and four later calls, must return, Direct with the closed error, Close twice with nil, and the watcher goroutine must be gone; 'does not return' = not done after 2 s and reproduced twice more on fresh receivers. Non-trivial: >= 2 Close calls or a call after Close; distinct by case.",
		Assumptions: []string{"2 s real time is 'promptly' (normal cost: microseconds); a non-return is only reported when it reproduces 3 of 3 times"},
	}, genCase, runCase(t))
}

func TestC16_Topic(t *testing.T) {
	pbt.Run(t, pbt.Config{Prop: "C16", Unit: "TestC16_Topic", TrackCurrent: true,
		Rule: "the same histories and oracle as TestC16_Histories on a receiver with a fresh libp2p host and its own gossipsub topic (real pubsub subscription and watcher goroutine), extended with gossip messages whose handling is parked inside the allow-peer callback -- the watcher then sits between dequeuing a message and the receiver's lock while Close and the other calls run -- and their release; while the watcher is held only Close may wait. Non-trivial: >= 2 Close calls or a call after Close; distinct by case.",
	}, genTopicCase, runCase(t))
}

// parkGate parks the goroutine that enters while armed until released.
type parkGate struct {
	mu    sync.Mutex
	armed bool
	ch    chan struct{}
	nPark int
}

func (g *parkGate) arm() {
	g.mu.Lock()
	g.armed = true
	if g.ch == nil {
		g.ch = make(chan struct{})
	}
	g.mu.Unlock()
}

func (g *parkGate) disarm() { g.mu.Lock(); g.armed = false; g.mu.Unlock() }

func (g *parkGate) enter() {
	g.mu.Lock()
	if !g.armed {
		g.mu.Unlock()
		return
	}
	g.armed = false // one goroutine per arming
	ch := g.ch
	g.nPark++
	g.mu.Unlock()
	<-ch
	g.mu.Lock()
	g.nPark--
	g.mu.Unlock()
}

func (g *parkGate) parked() int { g.mu.Lock(); defer g.mu.Unlock(); return g.nPark }

func (g *parkGate) releaseAll() {
	g.mu.Lock()
	if g.ch != nil {
		close(g.ch)
		g.ch = nil
	}
	g.armed = false
	g.mu.Unlock()
	for g.parked() > 0 {
		time.Sleep(50 * time.Microsecond)
	}
}
