package c16

import (
	"context"
	"fmt"
	"testing"
	"time"

	"github.com/ipni/go-libipni/announce"
	"github.com/ipni/go-libipni/announce/gossiptopic"
	dstest "github.com/ipni/go-libipni/dagsync/test"
	"github.com/libp2p/go-libp2p/core/host"
	"pgregory.net/rapid"

	"verif/h23/pbt"
)

// A receiver built on a topic of a pubsub instance that somebody else owns (announce.WithTopic): the owner may
// shut pubsub down before the receiver is closed. Close, and whoever waits in Next, must still return.

type psGoneCase struct {
	Waiter  bool // a Next call is waiting
	DelayMs int  // pause between the pubsub shutdown and Close
	Closes  int
}

func TestC16_PubsubGone(t *testing.T) {
	var h host.Host
	pbt.Run(t, pbt.Config{Prop: "C16", Unit: "TestC16_PubsubGone", TrackCurrent: true,
		Rule: "a receiver on a topic of an externally owned gossipsub instance (real loopback host); the owner shuts pubsub down, 0..20 ms later Close is called 1..3 times, optionally with a Next call waiting; oracle: every call returns within 2 s (normal cost: microseconds; a miss is re-tried twice on fresh receivers before it is reported), Close returns nil, the waiter gets the closed error. Non-trivial: always; distinct by case.",
	}, func(t *rapid.T) psGoneCase {
		return psGoneCase{Waiter: rapid.Bool().Draw(t, "waiter"), DelayMs: rapid.SampledFrom([]int{0, 1, 5, 20}).Draw(t, "delay"), Closes: rapid.IntRange(1, 3).Draw(t, "closes")}
	}, func(c psGoneCase) (res pbt.Result) {
		res.NonTrivial = true
		if h == nil {
			h = dstest.MkTestHost(t)
		}
		once := func() (viol string, slow bool) {
			tp, cancelPS, err := gossiptopic.MakeTopic(h, fmt.Sprintf("/verif/c16gone/%d", topicSeq.Add(1)))
			if err != nil {
				return "MakeTopic: " + err.Error(), false
			}
			r, err := announce.NewReceiver(h, "", announce.WithTopic(tp))
			if err != nil {
				cancelPS()
				return "NewReceiver: " + err.Error(), false
			}
			waitErr := make(chan error, 1)
			if c.Waiter {
				go func() { _, err := r.Next(context.Background()); waitErr <- err }()
			}
			cancelPS() // the owner shuts pubsub down
			time.Sleep(time.Duration(c.DelayMs) * time.Millisecond)
			done := make(chan error, c.Closes)
			go func() {
				for i := 0; i < c.Closes; i++ {
					done <- r.Close()
				}
			}()
			deadline := time.After(2 * time.Second)
			for i := 0; i < c.Closes; i++ {
				select {
				case err := <-done:
					if err != nil {
						return fmt.Sprintf("Close call %d returned %v", i, err), false
					}
				case <-deadline:
					return "", true
				}
			}
			if c.Waiter {
				select {
				case err := <-waitErr:
					if err == nil {
						return "the waiting Next returned an announcement although nothing was announced", false
					}
				case <-time.After(2 * time.Second):
					return "", true
				}
			}
			return "", false
		}
		v, slow := once()
		if slow {
			n := 1
			for k := 0; k < 2; k++ {
				if _, s := once(); s {
					n++
				}
			}
			if n == 3 {
				res.Fail = fmt.Sprintf("Close (or the waiting Next) does not return within 2 s when the pubsub instance behind the receiver's topic was shut down first (reproduced 3 of 3 times; waiter=%v delay=%dms)", c.Waiter, c.DelayMs)
			}
			return res
		}
		res.Fail = v
		return res
	})
}
