package c16

import (
	"context"
	"fmt"
	"sync"
	"testing"
	"time"

	"github.com/ipni/go-libipni/announce"
	"github.com/ipni/go-libipni/announce/gossiptopic"
	dstest "github.com/ipni/go-libipni/dagsync/test"
	"github.com/libp2p/go-libp2p/core/host"
	"github.com/libp2p/go-libp2p/core/peer"
	"pgregory.net/rapid"

	"verif/h23/gen"
	"verif/h23/pbt"
)

// Several Close calls released at the same instant (a barrier, not a drawn schedule): closing is idempotent
// also when the calls overlap completely. Each receiver is closed once per repetition; the window in which two
// closers can both believe they are first is a few instructions wide (wider with a pubsub subscription to
// cancel), so each case repeats the race on fresh receivers.

type closeRaceCase struct {
	Closers int
	Topic   bool
	Reps    int
	Waiter  bool // a Next call is waiting when the closers start
	Direct  bool // a Direct call races with the closers
}

func TestC16_CloseRace(t *testing.T) {
	var h host.Host
	pbt.Run(t, pbt.Config{Prop: "C16", Unit: "TestC16_CloseRace", TrackCurrent: true,
		Rule: "2..6 goroutines call Close on the same fresh receiver at the same instant (barrier), optionally with a Next call waiting and a Direct call racing, on receivers without a topic or with their own gossipsub topic on a real loopback host; repeated 5..40 times per case on fresh receivers; oracle: no Close call panics (recovered in the calling goroutine) and every call returns within 2 s (normal cost: microseconds; a miss is re-tried on fresh receivers before it is reported), Close returns nil, the waiting Next returns the closed error or the racing Direct call's announcement. Non-trivial: >= 3 closers or a topic; distinct by case.",
		Assumptions: []string{"interleavings are sampled by the Go scheduler on 16 cores"},
	}, func(t *rapid.T) closeRaceCase {
		return closeRaceCase{Closers: rapid.IntRange(2, 6).Draw(t, "closers"), Topic: rapid.Bool().Draw(t, "topic"), Reps: rapid.IntRange(5, 40).Draw(t, "reps"),
			Waiter: rapid.Bool().Draw(t, "waiter"), Direct: rapid.Bool().Draw(t, "direct")}
	}, func(c closeRaceCase) (res pbt.Result) {
		res.NonTrivial = c.Closers >= 3 || c.Topic
		res.Classes = []string{fmt.Sprintf("topic=%v", c.Topic)}
		if c.Topic && h == nil {
			h = dstest.MkTestHost(t)
		}
		once := func() (viol string, slow bool) {
			var opts []announce.Option
			var rh host.Host
			if c.Topic {
				tp, cancelPS, err := gossiptopic.MakeTopic(h, fmt.Sprintf("/verif/c16race/%d", topicSeq.Add(1)))
				if err != nil {
					return "MakeTopic: " + err.Error(), false
				}
				defer cancelPS()
				opts = append(opts, announce.WithTopic(tp))
				rh = h
			}
			r, err := announce.NewReceiver(rh, "", opts...)
			if err != nil {
				return "NewReceiver: " + err.Error(), false
			}
			var mu sync.Mutex
			report := func(s string) {
				mu.Lock()
				if viol == "" {
					viol = s
				}
				mu.Unlock()
			}
			var wg sync.WaitGroup
			start := make(chan struct{})
			if c.Waiter {
				wg.Add(1)
				go func() {
					defer wg.Done()
					// the racing Direct call may get in before the first Close: then the waiter receives its
					// announcement; anything else was never announced
					if a, err := r.Next(context.Background()); err == nil && !(c.Direct && a.Cid == cidOf(1)) {
						report(fmt.Sprintf("Next returned an announcement of %s, which was never announced", a.Cid))
					}
				}()
			}
			for i := 0; i < c.Closers; i++ {
				wg.Add(1)
				go func(i int) {
					defer wg.Done()
					defer func() {
						if p := recover(); p != nil {
							report(fmt.Sprintf("Close call %d of %d concurrent ones panicked: %v", i, c.Closers, p))
						}
					}()
					<-start
					if err := r.Close(); err != nil {
						report(fmt.Sprintf("Close call %d of %d concurrent ones returned %v", i, c.Closers, err))
					}
				}(i)
			}
			if c.Direct {
				wg.Add(1)
				go func() {
					defer wg.Done()
					defer func() {
						if p := recover(); p != nil {
							report(fmt.Sprintf("Direct racing with %d Close calls panicked: %v", c.Closers, p))
						}
					}()
					<-start
					ctx, cancel := context.WithTimeout(context.Background(), 3*time.Second)
					defer cancel()
					_ = r.Direct(ctx, cidOf(1), peer.AddrInfo{ID: gen.Keys()[0].ID})
				}()
			}
			close(start)
			done := make(chan struct{})
			go func() { wg.Wait(); close(done) }()
			select {
			case <-done:
			case <-time.After(2 * time.Second):
				return viol, true
			}
			// later calls behave as on any closed receiver
			later := make(chan error, 1)
			go func() { later <- r.Close() }()
			select {
			case err := <-later:
				if err != nil {
					report("Close after the race returned " + err.Error())
				}
			case <-time.After(2 * time.Second):
				return viol, true
			}
			return viol, false
		}
		for rep := 0; rep < c.Reps; rep++ {
			v, slow := once()
			if slow {
				// confirm on fresh receivers: 3 of 3
				n := 0
				for k := 0; k < 3; k++ {
					if _, s := once(); s {
						n++
					}
				}
				if n == 3 {
					res.Fail = fmt.Sprintf("calls do not return within 2 s when %d Close calls start at the same instant (reproduced 3 of 3 times on fresh receivers; topic=%v waiter=%v direct=%v)", c.Closers, c.Topic, c.Waiter, c.Direct)
					return res
				}
				continue
			}
			if v != "" {
				res.Fail = fmt.Sprintf("repetition %d: %s (topic=%v waiter=%v direct=%v)", rep, v, c.Topic, c.Waiter, c.Direct)
				return res
			}
		}
		return res
	})
}
