package c16

import (
	"context"
	"fmt"
	"runtime"
	"strings"
	"sync"
	"sync/atomic"
	"testing"
	"time"

	"github.com/ipni/go-libipni/announce"
	"github.com/libp2p/go-libp2p/core/peer"
	"pgregory.net/rapid"

	"verif/h23/gen"
	"verif/h23/pbt"
)

// One announcement is waiting in the receiver, unconsumed, when Close and 1..2 Next calls start at the same
// instant. Whoever gets the announcement, every call returns. The window in which Close and a consumer can
// disagree about the pending announcement is a few instructions wide, so a case repeats the race thousands of
// times on fresh receivers (a receiver without a topic costs microseconds).

type closePendingCase struct {
	Nexts int
	Reps  int
	Late  bool // a Direct call follows the race (it must get the closed error)
}

func TestC16_ClosePending(t *testing.T) {
	pbt.Run(t, pbt.Config{Prop: "C16", Unit: "TestC16_ClosePending", TrackCurrent: true,
		Rule: "receiver without a topic holding one delivered-but-unconsumed announcement; Close and 1..2 Next calls meet at a spin barrier and enter the receiver together; repeated 2000..12000 times per case on fresh receivers; oracle: every call returns within 10 s (normal cost: microseconds; the goroutine dump taken at that point must show a call still inside the receiver), each Next returns the pending announcement or the closed error, Close returns nil, a later Direct returns the closed error. Non-trivial: always; distinct by case.",
		Assumptions: []string{"interleavings are sampled by the Go scheduler on 16 cores", "10 s of real time as 'never returns', confirmed by a goroutine dump that shows the call blocked inside announce.(*Receiver)"},
	}, func(t *rapid.T) closePendingCase {
		return closePendingCase{Nexts: rapid.IntRange(1, 2).Draw(t, "nexts"), Reps: rapid.IntRange(2000, 12000).Draw(t, "reps"), Late: rapid.Bool().Draw(t, "late")}
	}, func(c closePendingCase) (res pbt.Result) {
		res.NonTrivial = true
		pinfo := peer.AddrInfo{ID: gen.Keys()[0].ID}
		for rep := 0; rep < c.Reps; rep++ {
			r, err := announce.NewReceiver(nil, "")
			if err != nil {
				return pbt.Result{Fail: "NewReceiver: " + err.Error()}
			}
			if err := r.Direct(context.Background(), cidOf(1), pinfo); err != nil {
				return pbt.Result{Fail: "Direct on a fresh receiver: " + err.Error()}
			}
			var mu sync.Mutex
			viol := ""
			report := func(s string) {
				mu.Lock()
				if viol == "" {
					viol = s
				}
				mu.Unlock()
			}
			var wg sync.WaitGroup
			var ready atomic.Int32 // spin barrier: the calls enter the receiver within nanoseconds of each other
			meet := func() {
				ready.Add(1)
				for ready.Load() < int32(1+c.Nexts) {
					runtime.Gosched()
				}
			}
			wg.Add(1)
			go func() {
				defer wg.Done()
				meet()
				if err := r.Close(); err != nil {
					report("Close returned " + err.Error())
				}
			}()
			for i := 0; i < c.Nexts; i++ {
				wg.Add(1)
				go func() {
					defer wg.Done()
					meet()
					a, err := r.Next(context.Background())
					if err == nil && a.Cid != cidOf(1) {
						report(fmt.Sprintf("Next returned an announcement of %s, which was never announced", a.Cid))
					}
					if err != nil && err != announce.ErrClosed {
						report("Next returned " + err.Error())
					}
				}()
			}
			done := make(chan struct{})
			go func() { wg.Wait(); close(done) }()
			select {
			case <-done:
			case <-time.After(10 * time.Second):
				buf := make([]byte, 1<<20)
				buf = buf[:runtime.Stack(buf, true)]
				var stuck []string
				for _, g := range strings.Split(string(buf), "\n\n") {
					if strings.Contains(g, "announce.(*Receiver).") {
						lines := strings.Split(g, "\n")
						if len(lines) > 6 {
							lines = lines[:6]
						}
						stuck = append(stuck, strings.Join(lines, " | "))
					}
				}
				if len(stuck) == 0 {
					res.Classes = append(res.Classes, "slow-machine")
					<-done
					continue
				}
				return pbt.Result{NonTrivial: true, Fail: fmt.Sprintf("repetition %d: with one unconsumed announcement pending, Close and %d Next call(s) started together; 10 s later a call is still inside the receiver: %s", rep, c.Nexts, strings.Join(stuck, " || "))}
			}
			if viol != "" {
				return pbt.Result{NonTrivial: true, Fail: fmt.Sprintf("repetition %d: %s", rep, viol)}
			}
			if c.Late && rep%64 == 0 {
				ctx, cancel := context.WithTimeout(context.Background(), 10*time.Second)
				err := r.Direct(ctx, cidOf(2), pinfo)
				cancel()
				if err != announce.ErrClosed {
					return pbt.Result{NonTrivial: true, Fail: fmt.Sprintf("repetition %d: Direct after Close returned %v, want the closed error", rep, err)}
				}
			}
		}
		return res
	})
}
