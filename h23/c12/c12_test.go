package c12

import (
	"bytes"
	"context"
	"crypto/sha256"
	"encoding/json"
	"fmt"
	"net/http"
	"net/http/httptest"
	"sort"
	"strings"
	"sync"
	"testing"

	"github.com/ipni/go-libipni/dhash"
	"github.com/ipni/go-libipni/find/client"
	"github.com/ipni/go-libipni/find/model"
	"github.com/libp2p/go-libp2p/core/peer"
	b58 "github.com/mr-tron/base58/base58"
	"github.com/multiformats/go-multiaddr"
	"github.com/multiformats/go-multihash"
	"pgregory.net/rapid"

	"verif/h23/gen"
	"verif/h23/pbt"
)

// ------------------------------------------------------------------ encryption

type cryptCase struct {
	API        string // aes | valuekey | metadata
	Payload    []byte
	Pass       []byte
	Tamper     string // none | truncate | flip | wrongpass | extend
	Pos        int    // truncate: new length of nonce||ct ; flip: bit index ; extend: number of bytes
	Pass2      []byte // wrongpass
	NonceSplit int    // aes API: how a tampered nonce||ct is split back into (nonce, ct): 12 = the natural split
}

func genCrypt(t *rapid.T) cryptCase {
	c := cryptCase{API: rapid.SampledFrom([]string{"aes", "valuekey", "metadata"}).Draw(t, "api")}
	n := rapid.OneOf(rapid.IntRange(0, 40), rapid.IntRange(0, 4096)).Draw(t, "plen")
	c.Payload = gen.Bytes(n, n).Draw(t, "payload")
	if rapid.Bool().Draw(t, "mhpass") {
		c.Pass = gen.Multihash().Draw(t, "passmh")
	} else {
		c.Pass = gen.Bytes(0, 128).Draw(t, "pass")
	}
	c.Tamper = rapid.SampledFrom([]string{"none", "truncate", "truncate", "flip", "flip", "wrongpass", "nearpass", "nearpass", "extend"}).Draw(t, "tamper")
	total := 12 + n + 16
	switch c.Tamper {
	case "truncate":
		c.Pos = rapid.OneOf(rapid.IntRange(0, total-1), rapid.IntRange(0, 30)).Draw(t, "tlen")
		if c.Pos >= total {
			c.Pos = total - 1
		}
	case "flip":
		c.Pos = rapid.IntRange(0, total*8-1).Draw(t, "bit")
	case "extend":
		c.Pos = rapid.IntRange(1, 20).Draw(t, "ext")
	case "wrongpass":
		c.Pass2 = gen.Bytes(0, 64).Draw(t, "pass2")
	case "nearpass":
		// a passphrase that differs from the right one in one place only (also far into a long passphrase)
		if rapid.Bool().Draw(t, "longpass") {
			c.Pass = gen.Bytes(60, 200).Draw(t, "longpassbytes")
		}
		c.Pass2 = append([]byte(nil), c.Pass...)
		switch k := rapid.IntRange(0, 2).Draw(t, "nearkind"); {
		case k == 0 || len(c.Pass2) == 0:
			c.Pass2 = append(c.Pass2, rapid.Byte().Draw(t, "extra"))
		case k == 1:
			c.Pass2 = c.Pass2[:len(c.Pass2)-1]
		default:
			c.Pass2[rapid.IntRange(0, len(c.Pass2)-1).Draw(t, "at")] ^= byte(1 << uint(rapid.IntRange(0, 7).Draw(t, "b")))
		}
	}
	c.NonceSplit = 12
	return c
}

func catch(f func() ([]byte, error)) (out []byte, err error, panicked any) {
	defer func() {
		if p := recover(); p != nil {
			panicked = p
		}
	}()
	out, err = f()
	return
}

func runCrypt(c cryptCase) pbt.Result {
	res := pbt.Result{Classes: []string{"api=" + c.API, "tamper=" + c.Tamper}}
	if len(c.Payload) == 0 {
		res.Classes = append(res.Classes, "payload=empty")
	}
	res.NonTrivial = c.Tamper != "none"
	var blob1, blob2 []byte
	switch c.API {
	case "aes":
		n1, e1, err := dhash.EncryptAES(c.Payload, c.Pass)
		if err != nil {
			return merge(res, pbt.Failf("EncryptAES: %v", err))
		}
		n2, e2, _ := dhash.EncryptAES(append([]byte(nil), c.Payload...), append([]byte(nil), c.Pass...))
		blob1, blob2 = append(append([]byte(nil), n1...), e1...), append(append([]byte(nil), n2...), e2...)
		if len(n1) != 12 {
			return merge(res, pbt.Failf("EncryptAES nonce has %d bytes", len(n1)))
		}
	case "valuekey":
		var err error
		blob1, err = dhash.EncryptValueKey(c.Payload, multihash.Multihash(c.Pass))
		if err != nil {
			return merge(res, pbt.Failf("EncryptValueKey: %v", err))
		}
		blob2, _ = dhash.EncryptValueKey(append([]byte(nil), c.Payload...), multihash.Multihash(append([]byte(nil), c.Pass...)))
	default:
		var err error
		blob1, err = dhash.EncryptMetadata(c.Payload, c.Pass)
		if err != nil {
			return merge(res, pbt.Failf("EncryptMetadata: %v", err))
		}
		blob2, _ = dhash.EncryptMetadata(append([]byte(nil), c.Payload...), append([]byte(nil), c.Pass...))
	}
	if !bytes.Equal(blob1, blob2) {
		return merge(res, pbt.Failf("%s: two encryptions of the same input differ: %x vs %x", c.API, blob1, blob2))
	}
	// callers loop over multihashes with one scratch buffer for the passphrase: the buffer's earlier content
	// must not matter. Same buffer, first the passphrase, then overwritten in place with another one.
	if c.API == "aes" && len(c.Pass) > 0 {
		other := append([]byte(nil), c.Pass...)
		other[len(other)-1] ^= 0x5a
		// references first, each with a slice of its own; the last call before the buffer is used carries the
		// other passphrase, so that whatever the library remembers from call to call changes when the buffer comes
		n1, e1, _ := dhash.EncryptAES(c.Payload, append([]byte(nil), c.Pass...))
		nf, ef, _ := dhash.EncryptAES(c.Payload, append([]byte(nil), other...))
		buf := append([]byte(nil), c.Pass...)
		if _, _, err := dhash.EncryptAES(c.Payload, buf); err != nil {
			return merge(res, pbt.Failf("EncryptAES: %v", err))
		}
		copy(buf, other) // in place
		nb, eb, err := dhash.EncryptAES(c.Payload, buf)
		if err != nil || !bytes.Equal(nb, nf) || !bytes.Equal(eb, ef) {
			return merge(res, pbt.Failf("EncryptAES with a passphrase held in a buffer that held another passphrase during the previous call differs from the encryption with a fresh slice of the same passphrase (err %v)", err))
		}
		if _, _, err := dhash.EncryptAES(c.Payload, append([]byte(nil), other...)); err != nil {
			return merge(res, pbt.Failf("EncryptAES: %v", err))
		}
		buf2 := append([]byte(nil), c.Pass...)
		if _, _, err := dhash.EncryptAES(c.Payload, buf2); err != nil {
			return merge(res, pbt.Failf("EncryptAES: %v", err))
		}
		copy(buf2, other)
		if pt, err := dhash.DecryptAES(n1, e1, buf2); err == nil {
			return merge(res, pbt.Failf("DecryptAES with a different passphrase (held in a buffer that held the right one during the previous call) returned data %x instead of an error", pt))
		}
	}
	if len(blob1) != 12+len(c.Payload)+16 {
		return merge(res, pbt.Failf("%s: encrypted length %d for payload %d", c.API, len(blob1), len(c.Payload)))
	}
	decrypt := func(blob, pass []byte) ([]byte, error, any) {
		return catch(func() ([]byte, error) {
			switch c.API {
			case "aes":
				k := c.NonceSplit
				if k > len(blob) {
					k = len(blob)
				}
				return dhash.DecryptAES(blob[:k], blob[k:], pass)
			case "valuekey":
				return dhash.DecryptValueKey(blob, multihash.Multihash(pass))
			default:
				return dhash.DecryptMetadata(blob, pass)
			}
		})
	}
	// round trip
	work := append([]byte(nil), blob1...)
	out, err, p := decrypt(work, c.Pass)
	if p != nil || err != nil || !bytes.Equal(out, c.Payload) {
		return merge(res, pbt.Failf("%s: decrypt(encrypt(payload %x, pass %x)) = %x, err %v, panic %v", c.API, c.Payload, c.Pass, out, err, p))
	}
	// the encrypted value is still the encrypted value (it is compared and decrypted again by callers)
	if !bytes.Equal(work, blob1) {
		return merge(res, pbt.Failf("%s: decrypting modified the encrypted input: %x -> %x", c.API, blob1, work))
	}
	if out2, err2, _ := decrypt(work, c.Pass); err2 != nil || !bytes.Equal(out2, c.Payload) {
		return merge(res, pbt.Failf("%s: decrypting the same encrypted value a second time failed: %v", c.API, err2))
	}
	// fail closed
	blob := append([]byte(nil), blob1...)
	pass := c.Pass
	switch c.Tamper {
	case "none":
		return res
	case "truncate":
		blob = blob[:c.Pos]
	case "flip":
		blob[c.Pos/8] ^= 1 << uint(c.Pos%8)
	case "extend":
		blob = append(blob, bytes.Repeat([]byte{0x5a}, c.Pos)...)
	case "wrongpass", "nearpass":
		if bytes.Equal(c.Pass2, c.Pass) {
			return pbt.Result{Skip: true}
		}
		pass = c.Pass2
	}
	before := append([]byte(nil), blob...)
	out, err, p = decrypt(blob, pass)
	if p != nil {
		return merge(res, pbt.Failf("%s: decrypting tampered input (%s@%d, %d of %d bytes) panicked: %v", c.API, c.Tamper, c.Pos, len(blob), len(blob1), p))
	}
	if !bytes.Equal(before, blob) {
		return merge(res, pbt.Failf("%s: a failed decryption (%s) modified the encrypted input: %x -> %x", c.API, c.Tamper, before, blob))
	}
	if err == nil {
		return merge(res, pbt.Failf("%s: decrypting tampered input (%s@%d) returned data %x instead of an error", c.API, c.Tamper, c.Pos, out))
	}
	if out != nil {
		return merge(res, pbt.Failf("%s: decrypting tampered input (%s@%d) returned an error and data %x", c.API, c.Tamper, c.Pos, out))
	}
	return res
}

func merge(base, f pbt.Result) pbt.Result {
	base.Fail = f.Fail
	return base
}

func TestC12_Crypto(t *testing.T) {
	pbt.Run(t, pbt.Config{Prop: "C12", Unit: "TestC12_Crypto",
		Rule: "API in {EncryptAES/DecryptAES, value key, metadata} x payload 0..4096 B x passphrase (multihash or raw 0..128 B) x tamper in {none, truncate nonce||ct to any length, flip any bit, append bytes, different passphrase}; oracle: round trip, two encryptions byte-identical (also when the passphrase sits in a buffer that held another passphrase during the previous call), length = 12+len+16, every tampered input gives an error and no data, no panic. Non-trivial: tampered; distinct by case.",
	}, genCrypt, runCrypt)
}

// exhaustive: every truncation length and every single-bit flip for small payloads, all three APIs.
func TestC12_CryptoExhaustive(t *testing.T) {
	maxLen := 6
	if pbt.Tier() == "thorough" {
		maxLen = 24
	}
	pbt.RunEnum(t, pbt.Config{Prop: "C12", Unit: "TestC12_CryptoExhaustive",
		Rule: fmt.Sprintf("exhaustive: payload lengths 0..%d x 3 APIs x 2 passphrases x (every truncation length of nonce||ct, every single-bit flip; for the raw AES API additionally every split point of the truncated bytes into nonce and ciphertext); same oracle as TestC12_Crypto. Every case is non-trivial (tampered); distinct by case.", maxLen),
	}, func(yield func(cryptCase) bool) {
		for _, api := range []string{"aes", "valuekey", "metadata"} {
			for n := 0; n <= maxLen; n++ {
				payload := make([]byte, n)
				for i := range payload {
					payload[i] = byte(i*37 + 11)
				}
				for _, pass := range [][]byte{{}, []byte("\x12\x20passphrase-passphrase-passphrase!!")} {
					total := 12 + n + 16
					for l := 0; l < total; l++ {
						if api == "aes" {
							for split := 0; split <= l && split <= 16; split++ {
								if !yield(cryptCase{API: api, Payload: payload, Pass: pass, Tamper: "truncate", Pos: l, NonceSplit: split}) {
									return
								}
							}
							continue
						}
						if !yield(cryptCase{API: api, Payload: payload, Pass: pass, Tamper: "truncate", Pos: l, NonceSplit: 12}) {
							return
						}
					}
					for b := 0; b < total*8; b++ {
						if !yield(cryptCase{API: api, Payload: payload, Pass: pass, Tamper: "flip", Pos: b, NonceSplit: 12}) {
							return
						}
					}
				}
			}
		}
	}, func(c cryptCase) pbt.Result {
		if c.API == "aes" && c.Tamper == "truncate" && c.NonceSplit != 12 {
			// a mis-split nonce: natural round trip is checked by the split-12 sibling; only the tampered call matters
			return runCryptTamperOnly(c)
		}
		return runCrypt(c)
	})
}

func runCryptTamperOnly(c cryptCase) pbt.Result {
	res := pbt.Result{Classes: []string{"api=aes", "tamper=truncate+split"}, NonTrivial: true}
	n1, e1, err := dhash.EncryptAES(c.Payload, c.Pass)
	if err != nil {
		return merge(res, pbt.Failf("EncryptAES: %v", err))
	}
	blob := append(append([]byte(nil), n1...), e1...)[:c.Pos]
	k := c.NonceSplit
	if k > len(blob) {
		k = len(blob)
	}
	out, err, p := catch(func() ([]byte, error) { return dhash.DecryptAES(blob[:k], blob[k:], c.Pass) })
	if p != nil {
		return merge(res, pbt.Failf("DecryptAES with a %d-byte nonce and %d-byte ciphertext panicked: %v", k, len(blob)-k, p))
	}
	if err == nil || out != nil {
		return merge(res, pbt.Failf("DecryptAES with a %d-byte nonce and %d-byte ciphertext returned data %x err %v", k, len(blob)-k, out, err))
	}
	return res
}

// ------------------------------------------------------------------ value keys and second hash

type keyCase struct {
	Key     int
	CtxID   []byte
	MH      []byte
	RawPeer []byte // if non-nil: a peer ID built from a drawn sha2-256 multihash instead of a pool key
}

func genKey(t *rapid.T) keyCase {
	c := keyCase{Key: rapid.IntRange(0, len(gen.Keys())-1).Draw(t, "key"), CtxID: gen.Bytes(0, 64).Draw(t, "ctx"), MH: gen.Multihash().Draw(t, "mh")}
	if rapid.IntRange(0, 3).Draw(t, "rawpeer") == 0 {
		mh, _ := multihash.Sum(gen.Bytes(1, 20).Draw(t, "peerseed"), multihash.SHA2_256, -1)
		c.RawPeer = mh
	}
	return c
}

var secondHashPrefix = append([]byte("CR_DOUBLEHASH"), make([]byte, 64-len("CR_DOUBLEHASH"))...)

func runKey(c keyCase) pbt.Result {
	pid := gen.Keys()[c.Key].ID
	kind := "pool:" + gen.Keys()[c.Key].Type
	if c.RawPeer != nil {
		pid = peer.ID(c.RawPeer)
		kind = "sha256-peer"
	}
	res := pbt.Result{Classes: []string{"peer=" + kind, fmt.Sprintf("ctxlen=%d", len(c.CtxID)/16*16)}, NonTrivial: true}
	vk := dhash.CreateValueKey(pid, c.CtxID)
	gp, gc, err := dhash.SplitValueKey(vk)
	if err != nil || gp != pid || !bytes.Equal(gc, c.CtxID) {
		return merge(res, pbt.Failf("SplitValueKey(CreateValueKey(%s, %x)) = (%s, %x, %v)", pid, c.CtxID, gp, gc, err))
	}
	mh := multihash.Multihash(c.MH)
	s1, s2 := dhash.SecondMultihash(mh), dhash.SecondMultihash(append(multihash.Multihash(nil), mh...))
	if !bytes.Equal(s1, s2) {
		return merge(res, pbt.Failf("SecondMultihash(%x) not deterministic: %x vs %x", c.MH, s1, s2))
	}
	dm, err := multihash.Decode(s1)
	if err != nil || dm.Code != multihash.DBL_SHA2_256 || dm.Length != 32 {
		return merge(res, pbt.Failf("SecondMultihash(%x) = %x is not a dbl-sha2-256 multihash (%v)", c.MH, s1, err))
	}
	want := sha256.Sum256(append(append([]byte(nil), secondHashPrefix...), c.MH...))
	if !bytes.Equal(dm.Digest, want[:]) {
		return merge(res, pbt.Failf("SecondMultihash(%x) digest %x, want SHA-256(prefix||mh) = %x", c.MH, dm.Digest, want))
	}
	if bytes.Equal(s1, c.MH) {
		return merge(res, pbt.Failf("SecondMultihash(%x) equals its input", c.MH))
	}
	// after other calls the prefix must be intact (append to a shared slice must not alias)
	s3 := dhash.SecondMultihash(mh)
	if !bytes.Equal(s1, s3) {
		return merge(res, pbt.Failf("SecondMultihash changes over calls: %x then %x", s1, s3))
	}
	return res
}

func TestC12_Keys(t *testing.T) {
	pbt.Run(t, pbt.Config{Prop: "C12", Unit: "TestC12_Keys",
		Rule: "peer IDs of every pool key type (identity-hashed ed25519/secp256k1, sha2-256-hashed rsa/ecdsa) and raw sha2-256 peer IDs x context IDs 0..64 B x multihashes of mixed functions; oracle: SplitValueKey(CreateValueKey(p,c)) = (p,c); SecondMultihash deterministic, dbl-sha2-256, != input, digest = independent SHA-256(64-byte CR_DOUBLEHASH prefix || mh). All cases count as non-trivial; distinct by case.",
	}, genKey, runKey)
}

// ------------------------------------------------------------------ reader-privacy find over a populated store

type entry struct {
	MH       int // index into the case's multihashes
	Provider int // key pool index
	CtxID    []byte
	Metadata []byte
}

type indexCase struct {
	MHs       [][]byte
	Entries   []entry
	Garbage   [][]byte // extra encrypted-value-key blobs stored under MHs[0]
	Transport string   // api | http
	Providers bool     // false: metadata-only mode; true: provider info from a loopback /providers endpoint
	QueryMiss []byte   // a multihash that is not indexed
	Orphans   []int    // entries whose metadata was deleted from the store afterwards (their value keys remain)
	Updates   []int    // entries re-advertised with new metadata after the client has already answered queries
	Removals  []int    // entries whose metadata is deleted after the client has already answered queries
	NoEcho    bool     // the store answers without repeating the looked-up multihash (the field is optional in the response)
}

func genIndex(t *rapid.T) indexCase {
	c := indexCase{Transport: rapid.SampledFrom([]string{"api", "http"}).Draw(t, "transport"), Providers: rapid.Bool().Draw(t, "providers")}
	nm := rapid.IntRange(1, 5).Draw(t, "nmh")
	seen := map[string]bool{}
	for len(c.MHs) < nm {
		mh := gen.Multihash().Draw(t, "mh")
		if !seen[string(mh)] {
			seen[string(mh)] = true
			c.MHs = append(c.MHs, mh)
		}
	}
	for {
		m := gen.Multihash().Draw(t, "miss")
		if !seen[string(m)] {
			c.QueryMiss = m
			break
		}
	}
	ne := rapid.IntRange(1, 8).Draw(t, "nent")
	dup := map[string]bool{}
	for i := 0; i < ne; i++ {
		e := entry{MH: rapid.IntRange(0, nm-1).Draw(t, "emh"), Provider: rapid.IntRange(0, 7).Draw(t, "eprov"),
			CtxID: gen.Bytes(0, 64).Draw(t, "ectx"), Metadata: gen.Bytes(1, 200).Draw(t, "emd")}
		if rapid.IntRange(0, 4).Draw(t, "longctx") == 0 {
			// the longest context IDs (with the 38 / 39-byte identity-hashed peer IDs: the longest value keys)
			n := rapid.IntRange(60, 64).Draw(t, "ctxlen")
			e.CtxID = bytes.Repeat([]byte{byte(0x40 + i)}, n)
		}
		if rapid.IntRange(0, 5).Draw(t, "bigmd") == 0 {
			// up to the largest metadata an advertisement may carry
			e.Metadata = gen.BoundaryBytes(512, 840, 1000, 1023).Draw(t, "emdbig")
			if len(e.Metadata) == 0 {
				e.Metadata = []byte{1}
			}
		}
		k := fmt.Sprintf("%d/%d/%x", e.MH, e.Provider, e.CtxID)
		// one metadata per (provider, context): the value key addresses the metadata
		k2 := fmt.Sprintf("%d/%x", e.Provider, e.CtxID)
		if dup[k] || dup[k2] {
			continue
		}
		dup[k], dup[k2] = true, true
		c.Entries = append(c.Entries, e)
	}
	if rapid.IntRange(0, 2).Draw(t, "hasorphans") == 0 {
		for i := range c.Entries {
			if rapid.IntRange(0, 2).Draw(t, "orphan") == 0 {
				c.Orphans = append(c.Orphans, i)
			}
		}
	}
	if rapid.IntRange(0, 2).Draw(t, "haslater") == 0 {
		for i := range c.Entries {
			switch rapid.IntRange(0, 3).Draw(t, "later") {
			case 0:
				c.Updates = append(c.Updates, i)
			case 1:
				c.Removals = append(c.Removals, i)
			}
		}
	}
	c.NoEcho = rapid.IntRange(0, 3).Draw(t, "noecho") == 0
	ng := rapid.IntRange(0, 3).Draw(t, "ngarbage")
	for i := 0; i < ng; i++ {
		c.Garbage = append(c.Garbage, gen.Bytes(0, 40).Draw(t, "garbage"))
	}
	return c
}

// memStore is an independent in-memory dhstore.
type memStore struct {
	mu  sync.Mutex
	evk map[string][][]byte // b58(second multihash) -> encrypted value keys
	emd map[string][]byte   // b58(sha256(value key)) -> encrypted metadata
	noEcho bool
}

func (s *memStore) FindMultihash(_ context.Context, dhmh multihash.Multihash) ([]model.EncryptedMultihashResult, error) {
	s.mu.Lock()
	defer s.mu.Unlock()
	v, ok := s.evk[dhmh.B58String()]
	if !ok {
		return nil, nil
	}
	if s.noEcho {
		return []model.EncryptedMultihashResult{{EncryptedValueKeys: v}}, nil
	}
	return []model.EncryptedMultihashResult{{Multihash: dhmh, EncryptedValueKeys: v}}, nil
}

func (s *memStore) FindMetadata(_ context.Context, hvk []byte) ([]byte, error) {
	s.mu.Lock()
	defer s.mu.Unlock()
	return s.emd[b58.Encode(hvk)], nil
}

var (
	srvOnce  sync.Once
	srv      *httptest.Server
	curStore *memStore
	curMu    sync.Mutex
)

func providerInfoFor(i int) *model.ProviderInfo {
	k := gen.Keys()[i]
	a, _ := multiaddr.NewMultiaddr(fmt.Sprintf("/ip4/8.8.%d.1/tcp/%d", i, 4000+i))
	return &model.ProviderInfo{AddrInfo: peer.AddrInfo{ID: k.ID, Addrs: []multiaddr.Multiaddr{a}}}
}

func server() *httptest.Server {
	srvOnce.Do(func() {
		mux := http.NewServeMux()
		mux.HandleFunc("/encrypted/multihash/", func(w http.ResponseWriter, r *http.Request) {
			curMu.Lock()
			st := curStore
			curMu.Unlock()
			key := strings.TrimPrefix(r.URL.Path, "/encrypted/multihash/")
			st.mu.Lock()
			v, ok := st.evk[key]
			noEcho := st.noEcho
			st.mu.Unlock()
			if !ok {
				http.Error(w, "not found", http.StatusNotFound)
				return
			}
			mhb, _ := b58.Decode(key)
			if noEcho {
				mhb = nil
			}
			_ = json.NewEncoder(w).Encode(model.FindResponse{EncryptedMultihashResults: []model.EncryptedMultihashResult{{Multihash: mhb, EncryptedValueKeys: v}}})
		})
		mux.HandleFunc("/metadata/", func(w http.ResponseWriter, r *http.Request) {
			curMu.Lock()
			st := curStore
			curMu.Unlock()
			key := strings.TrimPrefix(r.URL.Path, "/metadata/")
			st.mu.Lock()
			v, ok := st.emd[key]
			st.mu.Unlock()
			if !ok {
				http.Error(w, "not found", http.StatusNotFound)
				return
			}
			_ = json.NewEncoder(w).Encode(map[string][]byte{"EncryptedMetadata": v})
		})
		mux.HandleFunc("/providers", func(w http.ResponseWriter, r *http.Request) {
			var all []*model.ProviderInfo
			for i := 0; i < 8; i++ {
				all = append(all, providerInfoFor(i))
			}
			_ = json.NewEncoder(w).Encode(all)
		})
		mux.HandleFunc("/providers/", func(w http.ResponseWriter, r *http.Request) {
			id := strings.TrimPrefix(r.URL.Path, "/providers/")
			for i := 0; i < 8; i++ {
				if gen.Keys()[i].ID.String() == id {
					_ = json.NewEncoder(w).Encode(providerInfoFor(i))
					return
				}
			}
			http.Error(w, "not found", http.StatusNotFound)
		})
		srv = httptest.NewServer(mux)
	})
	return srv
}

type triple struct{ P, C, M string }

func runIndex(c indexCase) pbt.Result {
	res := pbt.Result{Classes: []string{"transport=" + c.Transport, fmt.Sprintf("providers=%v", c.Providers)}}
	st := &memStore{evk: map[string][][]byte{}, emd: map[string][]byte{}, noEcho: c.NoEcho}
	want := map[int][]triple{}
	perMH := map[int]map[int]bool{}
	orphan := map[int]bool{}
	for _, i := range c.Orphans {
		orphan[i] = true
	}
	if len(orphan) > 0 {
		res.Classes = append(res.Classes, "orphaned-value-keys")
	}
	for ei, e := range c.Entries {
		mh := multihash.Multihash(c.MHs[e.MH])
		pid := gen.Keys()[e.Provider].ID
		vk := dhash.CreateValueKey(pid, e.CtxID)
		evk, err := dhash.EncryptValueKey(vk, mh)
		if err != nil {
			return merge(res, pbt.Failf("EncryptValueKey: %v", err))
		}
		emd, err := dhash.EncryptMetadata(e.Metadata, vk)
		if err != nil {
			return merge(res, pbt.Failf("EncryptMetadata: %v", err))
		}
		k := dhash.SecondMultihash(mh).B58String()
		st.evk[k] = append(st.evk[k], evk)
		if orphan[ei] {
			// the metadata was removed (deleted by context ID); the value key stays behind and is skipped
			res.NonTrivial = true
			continue
		}
		st.emd[b58.Encode(dhash.SHA256(vk, nil))] = emd
		want[e.MH] = append(want[e.MH], triple{pid.String(), string(e.CtxID), string(e.Metadata)})
		if perMH[e.MH] == nil {
			perMH[e.MH] = map[int]bool{}
		}
		perMH[e.MH][e.Provider] = true
	}
	for _, m := range perMH {
		if len(m) >= 2 {
			res.NonTrivial = true
		}
	}
	if len(c.Garbage) > 0 {
		res.Classes = append(res.Classes, "garbage-value-keys")
		res.NonTrivial = true
		k := dhash.SecondMultihash(multihash.Multihash(c.MHs[0])).B58String()
		// garbage first, so that a client that stops at the first bad key loses results
		st.evk[k] = append(append([][]byte{}, c.Garbage...), st.evk[k]...)
	}
	var opts []client.Option
	if c.Transport == "http" || c.Providers {
		s := server()
		curMu.Lock()
		curStore = st
		curMu.Unlock()
		if c.Transport == "http" {
			opts = append(opts, client.WithDHStoreURL(s.URL))
		}
		if c.Providers {
			opts = append(opts, client.WithProvidersURL(s.URL), client.WithPcachePreload(true))
		}
	}
	if c.Transport == "api" {
		opts = append(opts, client.WithDHStoreAPI(st))
	}
	if !c.Providers {
		opts = append(opts, client.WithMetadataOnly(true))
	}
	cl, err := client.NewDHashClient(opts...)
	if err != nil {
		return merge(res, pbt.Failf("NewDHashClient: %v", err))
	}
	ctx := context.Background()
	rounds := 2
	if len(c.Updates)+len(c.Removals) > 0 {
		rounds = 3
	}
	for round := 0; round < rounds; round++ { // the same store answers repeated queries identically
		if round == 2 {
			// the index changes under a client that has already answered: re-advertised metadata, removed metadata
			res.Classes = append(res.Classes, "index-changed-between-queries")
			res.NonTrivial = true
			upd, rem := map[int]bool{}, map[int]bool{}
			for _, i := range c.Updates {
				upd[i] = true
			}
			for _, i := range c.Removals {
				rem[i] = true
			}
			want = map[int][]triple{}
			st.mu.Lock()
			for ei, e := range c.Entries {
				if orphan[ei] {
					continue
				}
				pid := gen.Keys()[e.Provider].ID
				vk := dhash.CreateValueKey(pid, e.CtxID)
				key := b58.Encode(dhash.SHA256(vk, nil))
				md := e.Metadata
				switch {
				case rem[ei]:
					delete(st.emd, key)
					continue
				case upd[ei]:
					md = append(append([]byte(nil), e.Metadata...), []byte("-v2")...)
					emd, err := dhash.EncryptMetadata(md, vk)
					if err != nil {
						st.mu.Unlock()
						return merge(res, pbt.Failf("EncryptMetadata: %v", err))
					}
					st.emd[key] = emd
				}
				want[e.MH] = append(want[e.MH], triple{pid.String(), string(e.CtxID), string(md)})
			}
			st.mu.Unlock()
		}
		for i, mhb := range c.MHs {
			resp, err := cl.Find(ctx, multihash.Multihash(mhb))
			if err != nil {
				return merge(res, pbt.Failf("Find(%x): %v", mhb, err))
			}
			var got []triple
			if len(resp.MultihashResults) > 1 {
				return merge(res, pbt.Failf("Find(%x) returned %d multihash results", mhb, len(resp.MultihashResults)))
			}
			for _, mr := range resp.MultihashResults {
				if !bytes.Equal(mr.Multihash, mhb) {
					return merge(res, pbt.Failf("Find(%x) returned result for multihash %x", mhb, []byte(mr.Multihash)))
				}
				for _, pr := range mr.ProviderResults {
					if pr.Provider == nil {
						return merge(res, pbt.Failf("Find(%x): result without provider", mhb))
					}
					if c.Providers {
						wantAddr := ""
						for k := 0; k < 8; k++ {
							if gen.Keys()[k].ID == pr.Provider.ID {
								wantAddr = providerInfoFor(k).AddrInfo.Addrs[0].String()
							}
						}
						if len(pr.Provider.Addrs) != 1 || pr.Provider.Addrs[0].String() != wantAddr {
							return merge(res, pbt.Failf("Find(%x): provider %s has addresses %v, want [%s]", mhb, pr.Provider.ID, pr.Provider.Addrs, wantAddr))
						}
					}
					got = append(got, triple{pr.Provider.ID.String(), string(pr.ContextID), string(pr.Metadata)})
				}
			}
			w := append([]triple(nil), want[i]...)
			less := func(s []triple) func(a, b int) bool {
				return func(a, b int) bool {
					return s[a].P+"\x00"+s[a].C+"\x00"+s[a].M < s[b].P+"\x00"+s[b].C+"\x00"+s[b].M
				}
			}
			sort.Slice(got, less(got))
			sort.Slice(w, less(w))
			if fmt.Sprint(got) != fmt.Sprint(w) {
				return merge(res, pbt.Failf("Find(%x) (query round %d) returned %d results %q, indexed %d: %q", mhb, round, len(got), got, len(w), w))
			}
		}
	}
	resp, err := cl.Find(ctx, multihash.Multihash(c.QueryMiss))
	if err != nil || resp == nil || len(resp.MultihashResults) != 0 {
		return merge(res, pbt.Failf("Find(not indexed %x) = %v, %v; want empty response, nil", c.QueryMiss, resp, err))
	}
	return res
}

func TestC12_Index(t *testing.T) {
	pbt.Run(t, pbt.Config{Prop: "C12", Unit: "TestC12_Index", TrackCurrent: true,
		Rule:        "indexes of 1..5 multihashes -> 1..8 (provider, context ID 0..64 B, metadata 1..200 B) entries (metadata occasionally up to the advertisement limit of 1024 B), stored through CreateValueKey/EncryptValueKey/EncryptMetadata/SecondMultihash/SHA256 into an independent in-memory dhstore (reached through the DHStoreAPI interface or through the library's HTTP dhstore client against a loopback server), plus 0..3 garbage value keys (0..40 random bytes) placed first; in one case of three a drawn subset of the entries has its metadata deleted again (the value key stays, as after a removal by context ID); in one case of three the index changes after the client has answered two rounds of queries (entries re-advertised with new metadata, metadata removed) and is queried again with the same client; metadata-only mode or provider info from a loopback /providers endpoint; oracle: Find(mh) returns exactly the indexed multiset (entries whose metadata is still stored) for each multihash, nothing for a multihash that is not indexed, never an error or crash. Non-trivial: >= 2 providers for one multihash, or garbage keys present; distinct by case.",
		Assumptions: []string{"metadata is >= 1 byte (the client documents empty metadata as 'no metadata')", "one metadata per (provider, context ID) pair, as the value key addresses the metadata", "providers have no extended providers (expansion is C17)"},
	}, genIndex, runIndex)
}
