package c12

import (
	"bytes"
	"fmt"
	"sync"
	"testing"

	"github.com/ipni/go-libipni/dhash"
	"github.com/multiformats/go-multihash"
	"pgregory.net/rapid"

	"verif/h23/gen"
	"verif/h23/pbt"
)

// The dhash functions are pure: what they return for one input must not depend on what other goroutines are
// computing at the same moment. Built with the race detector (a shared scratch buffer is a data race before it
// is a wrong answer), and every result is compared with a reference computed sequentially beforehand.

type concCase struct {
	Workers int
	Rounds  int
	Inputs  [][]byte // one passphrase / multihash payload per worker
	Payload []byte
}

func TestC12_Concurrent(t *testing.T) {
	pbt.Run(t, pbt.Config{Prop: "C12", Unit: "TestC12_Concurrent", TrackCurrent: true,
		Rule: "2..8 goroutines, each with its own multihash (digest of its own drawn bytes) and passphrase of 0..200 B, call SecondMultihash, EncryptAES + DecryptAES, EncryptValueKey + DecryptValueKey and EncryptMetadata 20..200 times at the same time; oracle: every result equals the reference computed sequentially before the goroutines started, and the race detector reports no data race inside the library. Non-trivial: >= 4 goroutines with different inputs; distinct by case.",
		Assumptions: []string{"interleavings are sampled by the Go scheduler on 16 cores"},
	}, func(t *rapid.T) concCase {
		c := concCase{Workers: rapid.IntRange(2, 8).Draw(t, "workers"), Rounds: rapid.IntRange(20, 200).Draw(t, "rounds"), Payload: gen.Bytes(0, 64).Draw(t, "payload")}
		for i := 0; i < c.Workers; i++ {
			c.Inputs = append(c.Inputs, rapid.OneOf(gen.Bytes(0, 64), gen.Bytes(0, 200)).Draw(t, "input"))
		}
		return c
	}, func(c concCase) pbt.Result {
		res := pbt.Result{NonTrivial: c.Workers >= 4}
		type ref struct {
			mh, second     multihash.Multihash
			nonce, ct      []byte
			vk, evk, emeta []byte
		}
		refs := make([]ref, c.Workers)
		for i, in := range c.Inputs {
			mh, _ := multihash.Sum(append([]byte{byte(i)}, in...), multihash.SHA2_256, -1)
			r := ref{mh: mh, second: dhash.SecondMultihash(mh)}
			var err error
			if r.nonce, r.ct, err = dhash.EncryptAES(c.Payload, in); err != nil {
				return pbt.Failf("EncryptAES: %v", err)
			}
			r.vk = dhash.CreateValueKey(gen.Keys()[i%8].ID, in[:min(len(in), 64)])
			if r.evk, err = dhash.EncryptValueKey(r.vk, mh); err != nil {
				return pbt.Failf("EncryptValueKey: %v", err)
			}
			if r.emeta, err = dhash.EncryptMetadata(append([]byte("md"), c.Payload...), r.vk); err != nil {
				return pbt.Failf("EncryptMetadata: %v", err)
			}
			refs[i] = r
		}
		var mu sync.Mutex
		fail := ""
		report := func(format string, a ...any) {
			mu.Lock()
			if fail == "" {
				fail = fmt.Sprintf(format, a...)
			}
			mu.Unlock()
		}
		var wg sync.WaitGroup
		start := make(chan struct{})
		for w := 0; w < c.Workers; w++ {
			wg.Add(1)
			go func(w int) {
				defer wg.Done()
				r, in := refs[w], c.Inputs[w]
				<-start
				for k := 0; k < c.Rounds; k++ {
					if got := dhash.SecondMultihash(r.mh); !bytes.Equal(got, r.second) {
						report("worker %d round %d: SecondMultihash(%x) = %x while other goroutines hash other inputs; sequentially it is %x", w, k, []byte(r.mh), []byte(got), []byte(r.second))
						return
					}
					nonce, ct, err := dhash.EncryptAES(c.Payload, in)
					if err != nil || !bytes.Equal(nonce, r.nonce) || !bytes.Equal(ct, r.ct) {
						report("worker %d round %d: EncryptAES under concurrency differs from the sequential result (err %v)", w, k, err)
						return
					}
					if pt, err := dhash.DecryptAES(r.nonce, r.ct, in); err != nil || !bytes.Equal(pt, c.Payload) {
						report("worker %d round %d: DecryptAES of a valid ciphertext with the right passphrase under concurrency: %v", w, k, err)
						return
					}
					if evk, err := dhash.EncryptValueKey(r.vk, r.mh); err != nil || !bytes.Equal(evk, r.evk) {
						report("worker %d round %d: EncryptValueKey under concurrency differs from the sequential result (err %v)", w, k, err)
						return
					}
					if vk, err := dhash.DecryptValueKey(r.evk, r.mh); err != nil || !bytes.Equal(vk, r.vk) {
						report("worker %d round %d: DecryptValueKey under concurrency: %v", w, k, err)
						return
					}
					if em, err := dhash.EncryptMetadata(append([]byte("md"), c.Payload...), r.vk); err != nil || !bytes.Equal(em, r.emeta) {
						report("worker %d round %d: EncryptMetadata under concurrency differs from the sequential result (err %v)", w, k, err)
						return
					}
				}
			}(w)
		}
		close(start)
		wg.Wait()
		res.Fail = fail
		return res
	})
}
