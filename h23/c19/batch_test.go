package c19

import (
	"bytes"
	"context"
	"fmt"
	"net/http"
	"net/http/httptest"
	"sync"
	"testing"

	"github.com/ipni/go-libipni/find/client"
	"github.com/ipni/go-libipni/find/model"
	"github.com/ipni/go-libipni/rwriter"
	"github.com/multiformats/go-multihash"
	"pgregory.net/rapid"

	"verif/h23/pbt"
)

// FindBatch over a server written with the response-writer helper: several multihashes, some of them without
// results (404 on the wire), in every position of the batch.

type batchCase struct {
	Sets [][]resultDesc // results per multihash, possibly none
}

var (
	batchOnce sync.Once
	batchSrv  *httptest.Server
	batchMu   sync.Mutex
	batchData map[string][]model.ProviderResult
)

func batchServer() *httptest.Server {
	batchOnce.Do(func() {
		batchSrv = httptest.NewServer(http.HandlerFunc(func(w http.ResponseWriter, r *http.Request) {
			rw, err := rwriter.New(w, r, rwriter.WithPreferJson(true)) // the find client sends no Accept header: only a JSON-preferring server accepts it
			if err != nil {
				writeAPIError(w, err)
				return
			}
			prw := rwriter.NewProviderResponseWriter(rw)
			batchMu.Lock()
			rs := batchData[rw.Multihash().B58String()]
			batchMu.Unlock()
			for _, pr := range rs {
				if err := prw.WriteProviderResult(pr); err != nil {
					writeAPIError(w, err)
					return
				}
			}
			if err := prw.Close(); err != nil {
				writeAPIError(w, err)
			}
		}))
	})
	return batchSrv
}

func TestC19_FindBatch(t *testing.T) {
	pbt.Run(t, pbt.Config{Prop: "C19", Unit: "TestC19_FindBatch",
		Rule: "1..5 multihashes with 0..3 results each (as in TestC19_FindRoundTrip) served through the response writer; client.FindBatch over all of them; oracle: no panic or error; the response holds one multihash result per multihash that has results, in query order, each with exactly the results written; multihashes without results are skipped wherever they stand in the batch; all empty => an empty response. Non-trivial: a multihash without results stands before one with results; distinct by case.",
	}, func(t *rapid.T) batchCase {
		var c batchCase
		n := rapid.IntRange(1, 5).Draw(t, "nmh")
		for i := 0; i < n; i++ {
			k := rapid.SampledFrom([]int{0, 0, 1, 2, 3}).Draw(t, "nres")
			var rs []resultDesc
			for j := 0; j < k; j++ {
				rs = append(rs, genResult(t))
			}
			c.Sets = append(c.Sets, rs)
		}
		return c
	}, func(c batchCase) (res pbt.Result) {
		defer func() {
			if p := recover(); p != nil {
				res.Fail = fmt.Sprintf("FindBatch panicked: %v (results per multihash: %v)", p, sizes(c))
			}
		}()
		srv := batchServer()
		data := map[string][]model.ProviderResult{}
		var mhs []multihash.Multihash
		sawEmpty := false
		for i, set := range c.Sets {
			mh, _ := multihash.Sum([]byte(fmt.Sprintf("c19-batch-%d-%d", i, len(set))), multihash.SHA2_256, -1)
			mhs = append(mhs, mh)
			for _, r := range set {
				data[mh.B58String()] = append(data[mh.B58String()], r.build())
			}
			if len(set) == 0 {
				sawEmpty = true
			} else if sawEmpty {
				res.NonTrivial = true
			}
		}
		batchMu.Lock()
		batchData = data
		batchMu.Unlock()
		cl, err := client.New(srv.URL)
		if err != nil {
			return pbt.Failf("client.New: %v", err)
		}
		resp, err := client.FindBatch(context.Background(), cl, mhs)
		if err != nil || resp == nil {
			res.Fail = fmt.Sprintf("FindBatch = %v, %v (results per multihash: %v)", resp, err, sizes(c))
			return res
		}
		k := 0
		for i, mh := range mhs {
			want := data[mh.B58String()]
			if len(want) == 0 {
				continue
			}
			if k >= len(resp.MultihashResults) {
				res.Fail = fmt.Sprintf("FindBatch returned %d multihash results, the one for multihash %d of the batch is missing (results per multihash: %v)", len(resp.MultihashResults), i, sizes(c))
				return res
			}
			got := resp.MultihashResults[k]
			k++
			if !bytes.Equal(got.Multihash, mh) || len(got.ProviderResults) != len(want) {
				res.Fail = fmt.Sprintf("FindBatch result %d: multihash %x with %d results, want multihash %d of the batch with %d (results per multihash: %v)", k-1, []byte(got.Multihash), len(got.ProviderResults), i, len(want), sizes(c))
				return res
			}
			for j := range want {
				if d := prEq(want[j], got.ProviderResults[j]); d != "" {
					res.Fail = fmt.Sprintf("FindBatch result for multihash %d, provider result %d differs in %s", i, j, d)
					return res
				}
			}
		}
		if k != len(resp.MultihashResults) {
			res.Fail = fmt.Sprintf("FindBatch returned %d multihash results, %d multihashes have results", len(resp.MultihashResults), k)
		}
		return res
	})
}

func sizes(c batchCase) []int {
	var out []int
	for _, s := range c.Sets {
		out = append(out, len(s))
	}
	return out
}
