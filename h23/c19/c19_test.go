package c19

import (
	"bufio"
	"bytes"
	"context"
	"encoding/hex"
	"encoding/json"
	"errors"
	"fmt"
	"io"
	"mime"
	"net/http"
	"net/http/httptest"
	"strings"
	"sync"
	"testing"
	"unicode/utf8"

	"github.com/ipfs/go-cid"
	"github.com/ipni/go-libipni/apierror"
	"github.com/ipni/go-libipni/find/client"
	"github.com/ipni/go-libipni/find/model"
	"github.com/ipni/go-libipni/rwriter"
	"github.com/libp2p/go-libp2p/core/peer"
	"github.com/mr-tron/base58"
	"github.com/multiformats/go-multiaddr"
	"github.com/multiformats/go-multibase"
	"github.com/multiformats/go-multihash"
	"pgregory.net/rapid"

	"verif/h23/gen"
	"verif/h23/pbt"
)

type resultDesc struct {
	CtxKind string // nil | empty | bytes
	Ctx     []byte
	MDKind  string
	MD      []byte
	Peer    int
	Addrs   []string
}

type findCase struct {
	Results    []resultDesc
	MH         []byte
	Via        string // client | b58 | hex | cidv0 | cidv1-b32 | cidv1-b58 | cidv1-b36
	CidCodec   uint64
	Accept     string // for raw requests: json | ndjson | any | none | json+q
	PreferJSON bool
	Big        int // if > 0: number of results replicated to make a large body
}

var addrPool = []string{"/ip4/8.8.8.8/tcp/3003", "/ip6/2606:4700::1/tcp/443/https", "/dns4/provider.example.com/tcp/80/http", "/ip4/1.2.3.4/udp/4001/quic-v1"}

func genBytesKind(t *rapid.T, label string, max int) (string, []byte) {
	switch rapid.IntRange(0, 4).Draw(t, label+"kind") {
	case 0:
		return "nil", nil
	case 1:
		return "empty", []byte{}
	default:
		return "bytes", gen.Bytes(1, max).Draw(t, label)
	}
}

func genResult(t *rapid.T) resultDesc {
	r := resultDesc{Peer: rapid.IntRange(0, len(gen.Keys())-1).Draw(t, "peer")}
	r.CtxKind, r.Ctx = genBytesKind(t, "ctx", 64)
	r.MDKind, r.MD = genBytesKind(t, "md", 100)
	n := rapid.IntRange(0, 3).Draw(t, "naddrs")
	for i := 0; i < n; i++ {
		r.Addrs = append(r.Addrs, rapid.SampledFrom(addrPool).Draw(t, "addr"))
	}
	return r
}

func genFind(t *rapid.T) findCase {
	c := findCase{}
	n := rapid.OneOf(rapid.IntRange(0, 3), rapid.IntRange(0, 20)).Draw(t, "nresults")
	for i := 0; i < n; i++ {
		c.Results = append(c.Results, genResult(t))
	}
	if n > 0 && rapid.IntRange(0, 40).Draw(t, "big") == 0 {
		c.Big = rapid.IntRange(300, 900).Draw(t, "bign")
	}
	c.MH = gen.Multihash().Draw(t, "mh")
	c.Via = rapid.SampledFrom([]string{"client", "client", "b58", "hex", "cidv0", "cidv1-b32", "cidv1-b58", "cidv1-b36"}).Draw(t, "via")
	c.CidCodec = rapid.SampledFrom([]uint64{cid.Raw, cid.DagCBOR, cid.DagJSON, cid.DagProtobuf}).Draw(t, "cidcodec")
	c.Accept = rapid.SampledFrom([]string{"json", "ndjson", "ndjson", "any", "none", "json+q"}).Draw(t, "accept")
	c.PreferJSON = rapid.Bool().Draw(t, "preferjson")
	if c.Via == "client" {
		c.PreferJSON = true // the client sends no Accept header: the configuration it works against
	}
	return c
}

func (r resultDesc) build() model.ProviderResult {
	pr := model.ProviderResult{ContextID: r.Ctx, Metadata: r.MD}
	ai := &peer.AddrInfo{ID: gen.Keys()[r.Peer].ID}
	for _, a := range r.Addrs {
		ai.Addrs = append(ai.Addrs, multiaddr.StringCast(a))
	}
	pr.Provider = ai
	return pr
}

func (c findCase) results() []model.ProviderResult {
	var out []model.ProviderResult
	for _, r := range c.Results {
		out = append(out, r.build())
	}
	for i := 0; len(out) > 0 && len(out) < c.Big; i++ {
		pr := c.Results[i%len(c.Results)].build()
		pr.Metadata = bytes.Repeat([]byte{byte(i)}, 200)
		out = append(out, pr)
	}
	return out
}

// server: the documented handler idiom
var (
	srvOnce [2]sync.Once
	srvs    [2]*httptest.Server
	curMu   sync.Mutex
	cur     []model.ProviderResult
	newErrs []error // errors returned by rwriter.New (to check their type)
)

func writeAPIError(w http.ResponseWriter, err error) {
	var ae *apierror.Error
	if errors.As(err, &ae) {
		http.Error(w, ae.Error(), ae.Status())
		return
	}
	http.Error(w, err.Error(), http.StatusInternalServerError)
}

func server(preferJSON bool) *httptest.Server {
	i := 0
	if preferJSON {
		i = 1
	}
	srvOnce[i].Do(func() {
		srvs[i] = httptest.NewServer(http.HandlerFunc(func(w http.ResponseWriter, r *http.Request) {
			rw, err := rwriter.New(w, r, rwriter.WithPreferJson(preferJSON))
			if err != nil {
				curMu.Lock()
				newErrs = append(newErrs, err)
				curMu.Unlock()
				writeAPIError(w, err)
				return
			}
			prw := rwriter.NewProviderResponseWriter(rw)
			curMu.Lock()
			rs := cur
			curMu.Unlock()
			for _, pr := range rs {
				if err := prw.WriteProviderResult(pr); err != nil {
					writeAPIError(w, err)
					return
				}
			}
			if err := prw.Close(); err != nil {
				writeAPIError(w, err)
			}
		}))
	})
	return srvs[i]
}

func prEq(a, b model.ProviderResult) string {
	if !bytes.Equal(a.ContextID, b.ContextID) {
		return "ContextID"
	}
	if !bytes.Equal(a.Metadata, b.Metadata) {
		return "Metadata"
	}
	if (a.Provider == nil) != (b.Provider == nil) {
		return "Provider presence"
	}
	if a.Provider != nil {
		if a.Provider.ID != b.Provider.ID {
			return "Provider.ID"
		}
		if len(a.Provider.Addrs) != len(b.Provider.Addrs) {
			return "Provider.Addrs length"
		}
		for i := range a.Provider.Addrs {
			if !a.Provider.Addrs[i].Equal(b.Provider.Addrs[i]) {
				return fmt.Sprintf("Provider.Addrs[%d]", i)
			}
		}
	}
	return ""
}

func acceptHeader(k string) (string, bool) {
	switch k {
	case "json":
		return "application/json", true
	case "ndjson":
		return "application/x-ndjson", true
	case "any":
		return "*/*", true
	case "json+q":
		return "text/html;q=0.9, application/json;q=0.8", true
	}
	return "", false
}

func runFind(c findCase) pbt.Result {
	res := pbt.Result{Classes: []string{"via=" + c.Via, fmt.Sprintf("n=%d", min(len(c.Results), 4))}}
	want := c.results()
	binaryCtx := false
	for _, r := range c.Results {
		if r.CtxKind == "bytes" && !utf8.Valid(r.Ctx) {
			binaryCtx = true
		}
	}
	res.NonTrivial = len(want) >= 2 && binaryCtx
	if c.Big > 0 {
		res.Classes = append(res.Classes, "large-body")
		res.NonTrivial = true
	}
	mh := multihash.Multihash(c.MH)
	srv := server(c.PreferJSON)
	curMu.Lock()
	cur = want
	curMu.Unlock()

	if c.Via == "client" {
		cl, err := client.New(srv.URL)
		if err != nil {
			return merge(res, pbt.Failf("client.New: %v", err))
		}
		resp, err := cl.Find(context.Background(), mh)
		if err != nil {
			return merge(res, pbt.Failf("client.Find with %d results written: %v", len(want), err))
		}
		return merge(res, compareJSON(resp, mh, want, "client.Find"))
	}
	// raw request with a key form
	var pathType, key string
	switch c.Via {
	case "b58":
		pathType, key = "multihash", mh.B58String()
	case "hex":
		pathType, key = "multihash", hex.EncodeToString(mh)
		if _, err := base58.Decode(key); err == nil {
			return pbt.Result{Skip: true} // inherently ambiguous key: excluded from the round-trip claim
		}
	case "cidv0":
		m2, _ := multihash.Sum(c.MH, multihash.SHA2_256, -1)
		mh = m2
		pathType, key = "cid", cid.NewCidV0(mh).String()
	default:
		ci := cid.NewCidV1(c.CidCodec, mh)
		enc := map[string]multibase.Encoding{"cidv1-b32": multibase.Base32, "cidv1-b58": multibase.Base58BTC, "cidv1-b36": multibase.Base36}[c.Via]
		s, err := ci.StringOfBase(enc)
		if err != nil {
			return merge(res, pbt.Failf("harness: %v", err))
		}
		pathType, key = "cid", s
	}
	req, _ := http.NewRequest(http.MethodGet, srv.URL+"/"+pathType+"/"+key, nil)
	acc, has := acceptHeader(c.Accept)
	if has {
		req.Header.Set("Accept", acc)
	}
	res.Classes = append(res.Classes, "accept="+c.Accept)
	hr, err := http.DefaultClient.Do(req)
	if err != nil {
		return merge(res, pbt.Failf("GET: %v", err))
	}
	body, _ := io.ReadAll(hr.Body)
	hr.Body.Close()
	// expected mode
	mode := "json"
	switch c.Accept {
	case "ndjson":
		mode = "ndjson"
	case "any":
		if !c.PreferJSON {
			mode = "ndjson"
		}
	case "none":
		if !c.PreferJSON {
			mode = "400"
		}
	}
	if mode == "400" {
		if hr.StatusCode < 400 || hr.StatusCode > 499 {
			return merge(res, pbt.Failf("no Accept header and no JSON preference: status %d, want 4xx", hr.StatusCode))
		}
		res.NonTrivial = true
		return res
	}
	if len(want) == 0 {
		if hr.StatusCode != http.StatusNotFound {
			return merge(res, pbt.Failf("empty result set: status %d, want 404 (body %q)", hr.StatusCode, body))
		}
		return res
	}
	if hr.StatusCode != http.StatusOK {
		return merge(res, pbt.Failf("%s key %q: status %d body %q", c.Via, key, hr.StatusCode, body))
	}
	if mode == "json" {
		if ct := hr.Header.Get("Content-Type"); ct != "application/json" {
			return merge(res, pbt.Failf("JSON mode content type %q", ct))
		}
		resp, err := model.UnmarshalFindResponse(body)
		if err != nil {
			return merge(res, pbt.Failf("response body is not a FindResponse: %v", err))
		}
		return merge(res, compareJSON(resp, mh, want, c.Via+" request"))
	}
	if ct := hr.Header.Get("Content-Type"); ct != "application/x-ndjson" {
		return merge(res, pbt.Failf("streaming mode content type %q", ct))
	}
	// exactly one line per result, each a complete JSON ProviderResult
	if len(body) == 0 || body[len(body)-1] != '\n' {
		return merge(res, pbt.Failf("streaming body does not end with a newline"))
	}
	sc := bufio.NewScanner(bytes.NewReader(body))
	sc.Buffer(make([]byte, 1<<20), 1<<26)
	i := 0
	for sc.Scan() {
		if i >= len(want) {
			return merge(res, pbt.Failf("streaming body has more than %d lines", len(want)))
		}
		var pr model.ProviderResult
		dec := json.NewDecoder(bytes.NewReader(sc.Bytes()))
		if err := dec.Decode(&pr); err != nil {
			return merge(res, pbt.Failf("line %d is not a complete JSON result: %v (%q)", i, err, sc.Bytes()))
		}
		if dec.More() {
			return merge(res, pbt.Failf("line %d holds more than one JSON value", i))
		}
		if d := prEq(want[i], pr); d != "" {
			return merge(res, pbt.Failf("line %d differs from the written result in %s", i, d))
		}
		i++
	}
	if i != len(want) {
		return merge(res, pbt.Failf("streaming body has %d lines for %d results", i, len(want)))
	}
	res.Classes = append(res.Classes, "ndjson-checked")
	return res
}

func compareJSON(resp *model.FindResponse, mh multihash.Multihash, want []model.ProviderResult, what string) pbt.Result {
	if len(want) == 0 {
		if resp == nil || len(resp.MultihashResults) != 0 {
			return pbt.Failf("%s: empty result set must give an empty response, got %+v", what, resp)
		}
		return pbt.Result{}
	}
	if resp == nil || len(resp.MultihashResults) != 1 {
		return pbt.Failf("%s: want one MultihashResult, got %+v", what, resp)
	}
	mr := resp.MultihashResults[0]
	if !bytes.Equal(mr.Multihash, mh) {
		return pbt.Failf("%s: result is for multihash %x, requested %x", what, []byte(mr.Multihash), []byte(mh))
	}
	if len(mr.ProviderResults) != len(want) {
		return pbt.Failf("%s: %d results, written %d", what, len(mr.ProviderResults), len(want))
	}
	for i := range want {
		if d := prEq(want[i], mr.ProviderResults[i]); d != "" {
			return pbt.Failf("%s: result %d differs from the written one in %s", what, i, d)
		}
	}
	return pbt.Result{}
}

func merge(base, f pbt.Result) pbt.Result {
	base.Fail = f.Fail
	return base
}

func TestC19_FindRoundTrip(t *testing.T) {
	pbt.Run(t, pbt.Config{Prop: "C19", Unit: "TestC19_FindRoundTrip",
		Rule: "result lists of 0..20 (occasionally 300..900, > 64 KiB body) results with nil / empty / binary context IDs and metadata and providers with 0..3 addresses, written through rwriter.New -> NewProviderResponseWriter -> WriteProviderResult* -> Close on a loopback server (errors written with http.Error and the API error's status); read back by client.Find (server preferring JSON) or by raw GET with the key as base58 multihash, hex multihash, CIDv0, CIDv1 in base32/base58/base36 and Accept json / ndjson / */* / none / q-values; oracle: same results in order for the requested multihash, 404 on the wire and empty response for no results, NDJSON = one complete JSON result per line. Non-trivial: >= 2 results with a non-UTF-8 context ID, or a large body, or a negotiation failure; distinct by case.",
		Assumptions: []string{"hex keys that are also valid base58 are skipped (ambiguous by construction of the API) and counted as skipped"},
	}, genFind, runFind)
}

// ------------------------------------------------------------------ negotiation and request paths

type negCase struct {
	PreferJSON bool
	Accepts    []string // header values (each may hold a comma-separated list)
	PathKind   string   // ok-mh | ok-cid | prefix-ok | other-type | no-type | missing-key | garbage-mh | garbage-cid | trailing-slash | bad-multihash
	Garbage    string
}

var acceptElems = []string{"application/json", "application/x-ndjson", "*/*", "text/html", "application/xml;q=0.9", "application/json;q=0.5", "image/*", "text/plain; charset=utf-8"}
var malformedElems = []string{"", ";q=1", "a/b/c", "text/", "application/json;q", "/", "application/json; =x", "\x00"}

func genNeg(t *rapid.T) negCase {
	c := negCase{PreferJSON: rapid.Bool().Draw(t, "preferjson")}
	nh := rapid.IntRange(0, 2).Draw(t, "nheaders")
	for i := 0; i < nh; i++ {
		ne := rapid.IntRange(1, 3).Draw(t, "nelems")
		var parts []string
		for j := 0; j < ne; j++ {
			if rapid.IntRange(0, 5).Draw(t, "malformed") == 0 {
				parts = append(parts, rapid.SampledFrom(malformedElems).Draw(t, "mal"))
			} else {
				parts = append(parts, rapid.SampledFrom(acceptElems).Draw(t, "elem"))
			}
		}
		c.Accepts = append(c.Accepts, strings.Join(parts, rapid.SampledFrom([]string{",", ", "}).Draw(t, "sep")))
	}
	c.PathKind = rapid.SampledFrom([]string{"ok-mh", "ok-mh", "ok-cid", "prefix-ok", "other-type", "no-type", "missing-key", "garbage-mh", "garbage-cid", "trailing-slash", "bad-multihash", "no-path", "star-path"}).Draw(t, "pathkind")
	c.Garbage = rapid.StringMatching(`[a-zA-Z0-9_.~-]{1,12}`).Draw(t, "garbage")
	return c
}

func runNeg(c negCase) pbt.Result {
	res := pbt.Result{Classes: []string{"path=" + c.PathKind, fmt.Sprintf("preferjson=%v", c.PreferJSON)}}
	mh, _ := multihash.Sum([]byte("c19"), multihash.SHA2_256, -1)
	okKey := mh.B58String()
	var path string
	pathOK := false
	switch c.PathKind {
	case "ok-mh":
		path, pathOK = "/multihash/"+okKey, true
	case "ok-cid":
		path, pathOK = "/cid/"+cid.NewCidV1(cid.Raw, mh).String(), true
	case "prefix-ok":
		path, pathOK = "/api/v1/multihash/"+okKey, true
	case "other-type":
		path = "/" + c.Garbage + "x/" + okKey
	case "no-type":
		path = "/" + okKey
	case "missing-key":
		path = "/multihash/"
	case "garbage-mh":
		path = "/multihash/" + c.Garbage + "!"
	case "garbage-cid":
		path = "/cid/" + c.Garbage
		if _, err := cid.Decode(c.Garbage); err == nil {
			return pbt.Result{Skip: true}
		}
	case "trailing-slash":
		path = "/multihash/" + okKey + "/"
	case "bad-multihash":
		// decodes as base58 but is not a multihash
		path = "/multihash/" + base58.Encode([]byte{0x12, 0x20, 0x01})
	}
	// classify the Accept headers
	supported, malformed := false, false
	for _, h := range c.Accepts {
		for _, e := range strings.Split(h, ",") {
			mt, _, err := mime.ParseMediaType(e)
			if err != nil {
				malformed = true
				continue
			}
			if mt == "application/json" || mt == "application/x-ndjson" || mt == "*/*" {
				supported = true
			}
		}
	}
	if malformed {
		res.Classes = append(res.Classes, "accept:malformed")
	}
	if !supported {
		res.Classes = append(res.Classes, "accept:none-supported")
	}
	srv := server(c.PreferJSON)
	curMu.Lock()
	cur = []model.ProviderResult{{ContextID: []byte("x"), Metadata: []byte("y"), Provider: &peer.AddrInfo{ID: gen.Keys()[0].ID}}}
	newErrs = nil
	curMu.Unlock()
	var hr *http.Response
	if c.PathKind == "no-path" || c.PathKind == "star-path" {
		// request targets without any slash: the absolute form without a path ("GET http://host HTTP/1.1") and the
		// asterisk form; Go's client cannot send them, so the handler is called the way the server would call it
		req := httptest.NewRequest(http.MethodGet, "http://indexer.example", nil)
		path = req.URL.Path
		if c.PathKind == "star-path" {
			req.URL.Path, path = "*", "*"
		}
		for _, h := range c.Accepts {
			req.Header.Add("Accept", h)
		}
		rec := httptest.NewRecorder()
		var pv any
		func() {
			defer func() { pv = recover() }()
			srv.Config.Handler.ServeHTTP(rec, req)
		}()
		if pv != nil {
			return merge(res, pbt.Failf("request target %q with Accept %q: the handler panicked: %v", path, c.Accepts, pv))
		}
		hr = rec.Result()
	} else {
		req, err := http.NewRequest(http.MethodGet, srv.URL+path, nil)
		if err != nil {
			return pbt.Result{Skip: true}
		}
		for _, h := range c.Accepts {
			req.Header.Add("Accept", h)
		}
		hr, err = http.DefaultClient.Do(req)
		if err != nil {
			if strings.Contains(err.Error(), "invalid header") {
				return pbt.Result{Skip: true} // net/http refuses to send the header value
			}
			return merge(res, pbt.Failf("GET %s with Accept %q: %v (handler panic closes the connection)", path, c.Accepts, err))
		}
	}
	body, _ := io.ReadAll(hr.Body)
	hr.Body.Close()
	mustReject := !pathOK
	why := "path " + c.PathKind
	if len(c.Accepts) == 0 {
		if !c.PreferJSON {
			mustReject, why = true, "no Accept header and no JSON preference"
		}
	} else if !supported {
		mustReject, why = true, "Accept header without a supported media type"
	}
	is4xx := hr.StatusCode >= 400 && hr.StatusCode <= 499
	if mustReject {
		res.NonTrivial = true
		if !is4xx {
			return merge(res, pbt.Failf("%s: status %d, want a 400-class API error (Accept %q, path %s, preferJson %v, body %.80q)", why, hr.StatusCode, c.Accepts, path, c.PreferJSON, body))
		}
		curMu.Lock()
		errs := append([]error(nil), newErrs...)
		curMu.Unlock()
		for _, e := range errs {
			var ae *apierror.Error
			if !errors.As(e, &ae) || ae.Status() < 400 || ae.Status() > 499 {
				return merge(res, pbt.Failf("%s: rwriter.New returned %T %v, want *apierror.Error with a 4xx status", why, e, e))
			}
			// the client-side view of that error keeps status and message
			fe := apierror.FromResponse(hr.StatusCode, body)
			var fae *apierror.Error
			if !errors.As(fe, &fae) || fae.Status() != ae.Status() || fae.Error() != strings.TrimSpace(ae.Error()) {
				return merge(res, pbt.Failf("%s: API error (%d, %q) arrives as (%v)", why, ae.Status(), ae.Error(), fe))
			}
		}
		return res
	}
	if malformed {
		return res // supported and malformed elements mixed: not asserted either way
	}
	if hr.StatusCode != http.StatusOK {
		return merge(res, pbt.Failf("well-formed request (Accept %q, path %s, preferJson %v): status %d body %.80q", c.Accepts, path, c.PreferJSON, hr.StatusCode, body))
	}
	// body must agree with its content type
	switch hr.Header.Get("Content-Type") {
	case "application/json":
		if _, err := model.UnmarshalFindResponse(body); err != nil {
			return merge(res, pbt.Failf("JSON content type but body %q: %v", body, err))
		}
	case "application/x-ndjson":
		var pr model.ProviderResult
		if err := json.Unmarshal(bytes.TrimSpace(body), &pr); err != nil || bytes.Count(body, []byte("\n")) != 1 {
			return merge(res, pbt.Failf("NDJSON content type but body %q: %v", body, err))
		}
	default:
		return merge(res, pbt.Failf("unexpected content type %q", hr.Header.Get("Content-Type")))
	}
	return res
}

func TestC19_Negotiation(t *testing.T) {
	pbt.Run(t, pbt.Config{Prop: "C19", Unit: "TestC19_Negotiation",
		Rule: "0..2 Accept header values of 1..3 elements over supported, unsupported and malformed media types x preferJson on/off x request paths (valid multihash / CID key, extra prefix, other resource type, missing type, missing key, garbage keys, trailing slash, base58 that is not a multihash, and the two request targets without a slash: absolute form without a path, and the asterisk); oracle: no supported media type (or none at all without JSON preference) or a bad path => 400-class status, rwriter.New's error is an *apierror.Error with that status whose message survives http.Error -> apierror.FromResponse; well-formed requests => 200 with a body matching its Content-Type; a handler panic shows as a transport error. Non-trivial: a request that must be rejected; distinct by case.",
		Assumptions: []string{"headers that mix supported and malformed elements are not asserted either way", "'malformed' = mime.ParseMediaType fails on an element"},
	}, genNeg, runNeg)
}

// ------------------------------------------------------------------ API error encode/decode

type errCase struct {
	Status int
	Msg    string
	HasMsg bool
	Wrap   int // 0: the API error itself; 1: wrapped with %w; 2: joined with another error; 3: wrapped twice
}

func TestC19_APIError(t *testing.T) {
	pbt.Run(t, pbt.Config{Prop: "C19", Unit: "TestC19_APIError",
		Rule: "status 0..999 x message (absent, or valid UTF-8 of 1..60 runes incl. quotes, angle brackets, newlines); the API error handed to EncodeError as it is, wrapped with %w (once, twice) or joined with another error; oracle: DecodeError(EncodeError(e)) has the same status and message text (for a wrapped error: the status of the API error in the chain and the wrapper's text); FromResponse(status, body) has that status and the trimmed body as message. Non-trivial: status != 0 and a message present; distinct by case.",
	}, func(t *rapid.T) errCase {
		return errCase{Status: rapid.OneOf(rapid.IntRange(0, 999), rapid.SampledFrom([]int{0, 400, 404, 429, 500, 503})).Draw(t, "status"),
			HasMsg: rapid.IntRange(0, 4).Draw(t, "hasmsg") > 0, Msg: rapid.StringN(1, 60, -1).Draw(t, "msg"), Wrap: rapid.SampledFrom([]int{0, 0, 0, 1, 2, 3}).Draw(t, "wrap")}
	}, func(c errCase) pbt.Result {
		res := pbt.Result{NonTrivial: c.Status != 0 && c.HasMsg}
		if !utf8.ValidString(c.Msg) {
			return pbt.Result{Skip: true}
		}
		var inner error
		if c.HasMsg {
			inner = errors.New(c.Msg)
		}
		e := apierror.New(inner, c.Status)
		if c.Status == 0 && !c.HasMsg {
			return res
		}
		// handlers pass errors up through wrappers before they are encoded: the status is that of the API error
		// found in the chain, the message that of the error handed in
		var top error = e
		switch c.Wrap {
		case 1:
			top = fmt.Errorf("lookup failed: %w", e)
		case 2:
			top = errors.Join(errors.New("while closing"), e)
		case 3:
			top = fmt.Errorf("handler: %w", fmt.Errorf("lookup failed: %w", e))
		}
		if c.Wrap != 0 {
			res.Classes = append(res.Classes, "wrapped")
			wd := apierror.DecodeError(apierror.EncodeError(top))
			var wae *apierror.Error
			ws := 0
			if errors.As(wd, &wae) {
				ws = wae.Status()
			}
			if wd == nil || ws != c.Status || wd.Error() != top.Error() {
				return merge(res, pbt.Failf("DecodeError(EncodeError(wrapped API error: status %d, message %q)) = (status %d, message %v)", c.Status, top.Error(), ws, wd))
			}
		}
		d := apierror.DecodeError(apierror.EncodeError(e))
		if d == nil {
			return merge(res, pbt.Failf("DecodeError(EncodeError(%d, %q)) = nil", c.Status, c.Msg))
		}
		var ae *apierror.Error
		gotStatus := 0
		if errors.As(d, &ae) {
			gotStatus = ae.Status()
		}
		if gotStatus != c.Status || d.Error() != e.Error() {
			return merge(res, pbt.Failf("DecodeError(EncodeError(status %d, message %q)) = (status %d, message %q)", c.Status, e.Error(), gotStatus, d.Error()))
		}
		if c.Status != 0 && c.HasMsg {
			fe := apierror.FromResponse(c.Status, []byte(c.Msg+"\n"))
			var fae *apierror.Error
			if !errors.As(fe, &fae) || fae.Status() != c.Status || fae.Error() != strings.TrimSpace(c.Msg) && strings.TrimSpace(c.Msg) != "" {
				return merge(res, pbt.Failf("FromResponse(%d, %q) = %v", c.Status, c.Msg, fe))
			}
		}
		return res
	})
}
