module verif/h23

go 1.23.6

require (
	github.com/gammazero/chanqueue v1.1.0
	github.com/hashicorp/go-multierror v1.1.1
	github.com/hashicorp/go-retryablehttp v0.7.7
	github.com/ipfs/go-cid v0.5.0
	github.com/ipfs/go-datastore v0.8.2
	github.com/ipfs/go-ipld-format v0.6.0
	github.com/ipfs/go-log/v2 v2.5.1
	github.com/ipfs/go-test v0.2.1
	github.com/ipld/go-ipld-prime v0.21.0
	github.com/libp2p/go-libp2p v0.41.1
	github.com/libp2p/go-libp2p-pubsub v0.13.1
	github.com/libp2p/go-msgio v0.3.0
	github.com/mr-tron/base58 v1.2.0
	github.com/multiformats/go-multiaddr v0.15.0
	github.com/multiformats/go-multicodec v0.9.0
	github.com/multiformats/go-multihash v0.2.3
	github.com/multiformats/go-varint v0.0.7
	github.com/stretchr/testify v1.10.0
	github.com/whyrusleeping/cbor-gen v0.2.0
	golang.org/x/crypto v0.36.0
	google.golang.org/protobuf v1.36.5
)

require (
	github.com/benbjohnson/clock v1.3.5 // indirect
	github.com/beorn7/perks v1.0.1 // indirect
	github.com/cespare/xxhash/v2 v2.3.0 // indirect
	github.com/containerd/cgroups v1.1.0 // indirect
	github.com/coreos/go-systemd/v22 v22.5.0 // indirect
	github.com/davecgh/go-spew v1.1.1 // indirect
	github.com/davidlazar/go-crypto v0.0.0-20200604182044-b73af7476f6c // indirect
	github.com/decred/dcrd/dcrec/secp256k1/v4 v4.4.0 // indirect
	github.com/docker/go-units v0.5.0 // indirect
	github.com/elastic/gosigar v0.14.3 // indirect
	github.com/flynn/noise v1.1.0 // indirect
	github.com/francoispqt/gojay v1.2.13 // indirect
	github.com/gammazero/deque v1.0.0 // indirect
	github.com/go-task/slim-sprig/v3 v3.0.0 // indirect
	github.com/godbus/dbus/v5 v5.1.0 // indirect
	github.com/gogo/protobuf v1.3.2 // indirect
	github.com/google/gopacket v1.1.19 // indirect
	github.com/google/pprof v0.0.0-20250208200701-d0013a598941 // indirect
	github.com/google/uuid v1.6.0 // indirect
	github.com/gopherjs/gopherjs v0.0.0-20190812055157-5d271430af9f // indirect
	github.com/gorilla/websocket v1.5.3 // indirect
	github.com/hashicorp/errwrap v1.1.0 // indirect
	github.com/hashicorp/go-cleanhttp v0.5.2 // indirect
	github.com/hashicorp/golang-lru/v2 v2.0.7 // indirect
	github.com/huin/goupnp v1.3.0 // indirect
	github.com/ipfs/go-block-format v0.2.0 // indirect
	github.com/ipfs/go-ipfs-util v0.0.2 // indirect
	github.com/jackpal/go-nat-pmp v1.0.2 // indirect
	github.com/jbenet/go-temp-err-catcher v0.1.0 // indirect
	github.com/klauspost/compress v1.18.0 // indirect
	github.com/klauspost/cpuid/v2 v2.2.10 // indirect
	github.com/koron/go-ssdp v0.0.5 // indirect
	github.com/libp2p/go-buffer-pool v0.1.0 // indirect
	github.com/libp2p/go-flow-metrics v0.2.0 // indirect
	github.com/libp2p/go-libp2p-asn-util v0.4.1 // indirect
	github.com/libp2p/go-netroute v0.2.2 // indirect
	github.com/libp2p/go-reuseport v0.4.0 // indirect
	github.com/libp2p/go-yamux/v5 v5.0.0 // indirect
	github.com/marten-seemann/tcp v0.0.0-20210406111302-dfbc87cc63fd // indirect
	github.com/mattn/go-isatty v0.0.20 // indirect
	github.com/miekg/dns v1.1.63 // indirect
	github.com/mikioh/tcpinfo v0.0.0-20190314235526-30a79bb1804b // indirect
	github.com/mikioh/tcpopt v0.0.0-20190314235656-172688c1accc // indirect
	github.com/minio/sha256-simd v1.0.1 // indirect
	github.com/multiformats/go-base32 v0.1.0 // indirect
	github.com/multiformats/go-base36 v0.2.0 // indirect
	github.com/multiformats/go-multiaddr-dns v0.4.1 // indirect
	github.com/multiformats/go-multiaddr-fmt v0.1.0 // indirect
	github.com/multiformats/go-multistream v0.6.0 // indirect
	github.com/munnerz/goautoneg v0.0.0-20191010083416-a7dc8b61c822 // indirect
	github.com/onsi/ginkgo/v2 v2.22.2 // indirect
	github.com/opencontainers/runtime-spec v1.2.0 // indirect
	github.com/pbnjay/memory v0.0.0-20210728143218-7b4eea64cf58 // indirect
	github.com/pion/datachannel v1.5.10 // indirect
	github.com/pion/dtls/v2 v2.2.12 // indirect
	github.com/pion/dtls/v3 v3.0.4 // indirect
	github.com/pion/ice/v4 v4.0.8 // indirect
	github.com/pion/interceptor v0.1.37 // indirect
	github.com/pion/logging v0.2.3 // indirect
	github.com/pion/mdns/v2 v2.0.7 // indirect
	github.com/pion/randutil v0.1.0 // indirect
	github.com/pion/rtcp v1.2.15 // indirect
	github.com/pion/rtp v1.8.11 // indirect
	github.com/pion/sctp v1.8.37 // indirect
	github.com/pion/sdp/v3 v3.0.10 // indirect
	github.com/pion/srtp/v3 v3.0.4 // indirect
	github.com/pion/stun v0.6.1 // indirect
	github.com/pion/stun/v3 v3.0.0 // indirect
	github.com/pion/transport/v2 v2.2.10 // indirect
	github.com/pion/transport/v3 v3.0.7 // indirect
	github.com/pion/turn/v4 v4.0.0 // indirect
	github.com/pion/webrtc/v4 v4.0.10 // indirect
	github.com/pkg/errors v0.9.1 // indirect
	github.com/pmezard/go-difflib v1.0.0 // indirect
	github.com/polydawn/refmt v0.89.0 // indirect
	github.com/prometheus/client_golang v1.21.1 // indirect
	github.com/prometheus/client_model v0.6.1 // indirect
	github.com/prometheus/common v0.62.0 // indirect
	github.com/prometheus/procfs v0.15.1 // indirect
	github.com/quic-go/qpack v0.5.1 // indirect
	github.com/quic-go/quic-go v0.50.1 // indirect
	github.com/quic-go/webtransport-go v0.8.1-0.20241018022711-4ac2c9250e66 // indirect
	github.com/raulk/go-watchdog v1.3.0 // indirect
	github.com/smartystreets/assertions v1.13.0 // indirect
	github.com/spaolacci/murmur3 v1.1.0 // indirect
	github.com/wlynxg/anet v0.0.5 // indirect
	go.uber.org/dig v1.18.0 // indirect
	go.uber.org/fx v1.23.0 // indirect
	go.uber.org/mock v0.5.0 // indirect
	go.uber.org/multierr v1.11.0 // indirect
	go.uber.org/zap v1.27.0 // indirect
	golang.org/x/exp v0.0.0-20250218142911-aa4b98e5adaa // indirect
	golang.org/x/mod v0.23.0 // indirect
	golang.org/x/net v0.36.0 // indirect
	golang.org/x/sync v0.12.0 // indirect
	golang.org/x/sys v0.31.0 // indirect
	golang.org/x/text v0.23.0 // indirect
	golang.org/x/tools v0.30.0 // indirect
	golang.org/x/xerrors v0.0.0-20220907171357-04be3eba64a2 // indirect
	gopkg.in/yaml.v3 v3.0.1 // indirect
	lukechampine.com/blake3 v1.4.0 // indirect
)

require pgregory.net/rapid v1.3.0

require (
	github.com/ipni/go-libipni v0.0.0
	github.com/multiformats/go-multibase v0.2.0
)

replace github.com/ipni/go-libipni => /repo
