package c03

import (
	"bytes"
	"fmt"
	"net/http"
	"net/http/httptest"
	"testing"

	"github.com/ipfs/go-cid"
	"github.com/ipld/go-ipld-prime"
	"github.com/ipld/go-ipld-prime/codec/dagjson"
	cidlink "github.com/ipld/go-ipld-prime/linking/cid"
	"github.com/ipld/go-ipld-prime/node/basicnode"
	"github.com/ipni/go-libipni/dagsync/ipnisync"
	"github.com/ipni/go-libipni/dagsync/ipnisync/head"
	ic "github.com/libp2p/go-libp2p/core/crypto"
	"github.com/libp2p/go-libp2p/core/peer"
	"pgregory.net/rapid"

	"verif/h23/gen"
	"verif/h23/pbt"
)

type headDesc struct {
	Cid      string
	HasTopic bool
	Topic    string
	Key      int
}

type headCase struct {
	A, B  headDesc
	Alter string // none | cid | topic-change | topic-add | topic-remove | pubkey | sig | swap-key | swap-sig | swap-keysig | resign | flip | truncate | dupfield
	Pos   int
	Bit   int
}

func genHead(t *rapid.T) headDesc {
	h := headDesc{Cid: gen.Cid().Draw(t, "cid").String(), Key: gen.KeyIdx().Draw(t, "key")}
	switch rapid.IntRange(0, 5).Draw(t, "topicclass") {
	case 0:
	case 1:
		h.HasTopic = true // present and empty
	case 2:
		h.HasTopic, h.Topic = true, rapid.StringN(1, 1024, -1).Draw(t, "longtopic")
	case 3:
		h.HasTopic, h.Topic = true, "/indexer/ingest/mainnet"
	default:
		h.HasTopic, h.Topic = true, rapid.StringN(1, 24, -1).Draw(t, "topic")
	}
	return h
}

func genCase(t *rapid.T) headCase {
	c := headCase{A: genHead(t), B: genHead(t)}
	if rapid.IntRange(0, 3).Draw(t, "samesigner") == 0 {
		c.B.Key = c.A.Key
	}
	if rapid.IntRange(0, 3).Draw(t, "samecid") == 0 {
		c.B.Cid = c.A.Cid
	}
	c.Alter = rapid.SampledFrom([]string{"none", "none", "cid", "topic-change", "topic-add", "topic-remove", "pubkey", "sig", "swap-key", "swap-sig", "swap-keysig", "resign", "flip", "flip", "truncate", "dupfield"}).Draw(t, "alter")
	c.Pos = rapid.IntRange(0, 1<<20).Draw(t, "pos")
	c.Bit = rapid.IntRange(0, 7).Draw(t, "bit")
	return c
}

func (h headDesc) msg() []byte {
	return append(cid.MustParse(h.Cid).Bytes(), []byte(h.Topic)...)
}

// build signs with the library API the way a publisher does (empty topic = no topic field),
// except that a present-but-empty topic is set explicitly.
func (h headDesc) build() (*head.SignedHead, error) {
	k := gen.Keys()[h.Key]
	sh, err := head.NewSignedHead(cid.MustParse(h.Cid), h.Topic, k.Priv)
	if err != nil {
		return nil, err
	}
	if h.HasTopic && h.Topic == "" {
		empty := ""
		sh.Topic = &empty
	}
	return sh, nil
}

// independent verifier: generic DAG-JSON decode, field extraction, libp2p verification.
var errGenericDecode = fmt.Errorf("generic DAG-JSON decoder rejects the encoding")

func independent(enc []byte) (signer peer.ID, msg []byte, err error) {
	nb := basicnode.Prototype.Any.NewBuilder()
	if err := dagjson.Decode(nb, bytes.NewReader(enc)); err != nil {
		// e.g. a repeated map key, which the typed decoder tolerates: the generic decoder is
		// stricter about the encoding; that is not a statement about the signature
		return "", nil, errGenericDecode
	}
	n := nb.Build()
	hn, err := n.LookupByString("head")
	if err != nil {
		return "", nil, err
	}
	l, err := hn.AsLink()
	if err != nil {
		return "", nil, err
	}
	topic := ""
	if tn, err := n.LookupByString("topic"); err == nil {
		topic, err = tn.AsString()
		if err != nil {
			return "", nil, err
		}
	}
	pn, err := n.LookupByString("pubkey")
	if err != nil {
		return "", nil, err
	}
	pk, err := pn.AsBytes()
	if err != nil {
		return "", nil, err
	}
	sn, err := n.LookupByString("sig")
	if err != nil {
		return "", nil, err
	}
	sig, err := sn.AsBytes()
	if err != nil {
		return "", nil, err
	}
	pub, err := ic.UnmarshalPublicKey(pk)
	if err != nil {
		return "", nil, err
	}
	msg = append(l.(cidlink.Link).Cid.Bytes(), []byte(topic)...)
	ok, err := pub.Verify(msg, sig)
	if err != nil || !ok {
		return "", nil, fmt.Errorf("signature does not verify: %v", err)
	}
	id, err := peer.IDFromPublicKey(pub)
	return id, msg, err
}

func libAccept(enc []byte) (id peer.ID, msg []byte, err error) {
	defer func() {
		if p := recover(); p != nil {
			err = fmt.Errorf("PANIC: %v", p)
		}
	}()
	sh, err := head.Decode(bytes.NewReader(enc))
	if err != nil {
		return "", nil, err
	}
	id, err = sh.Validate()
	if err != nil {
		return "", nil, err
	}
	topic := ""
	if sh.Topic != nil {
		topic = *sh.Topic
	}
	return id, append(sh.Head.(cidlink.Link).Cid.Bytes(), []byte(topic)...), nil
}

func runCase(c headCase) pbt.Result {
	keys := gen.Keys()
	res := pbt.Result{Classes: []string{"alter=" + c.Alter, "key=" + keys[c.A.Key].Type, fmt.Sprintf("topic=%v", c.A.HasTopic)}}
	res.NonTrivial = c.Alter != "none"
	a, err := c.A.build()
	if err != nil {
		return merge(res, pbt.Failf("NewSignedHead: %v", err))
	}
	b, err := c.B.build()
	if err != nil {
		return merge(res, pbt.Failf("NewSignedHead: %v", err))
	}
	signed := map[string]bool{string(keys[c.A.Key].ID) + "|" + string(c.A.msg()): true}
	x := *a
	var enc []byte
	structural := true
	switch c.Alter {
	case "none":
	case "cid":
		x.Head = b.Head
	case "topic-change":
		t := c.A.Topic + "x"
		x.Topic = &t
	case "topic-add":
		if c.A.HasTopic && c.A.Topic != "" {
			t := "another/" + c.A.Topic
			x.Topic = &t
		} else {
			t := "added-topic"
			x.Topic = &t
		}
	case "topic-remove":
		x.Topic = nil
	case "pubkey":
		x.Pubkey = b.Pubkey
	case "sig":
		x.Sig = b.Sig
	case "swap-key":
		x.Pubkey = b.Pubkey
		signed[string(keys[c.B.Key].ID)+"|"+string(c.B.msg())] = true
	case "swap-sig":
		x.Sig = b.Sig
		signed[string(keys[c.B.Key].ID)+"|"+string(c.B.msg())] = true
	case "swap-keysig":
		x.Pubkey, x.Sig = b.Pubkey, b.Sig
		signed[string(keys[c.B.Key].ID)+"|"+string(c.B.msg())] = true
	case "resign":
		// validly re-signed by another identity: must be accepted as *that* identity, never as A's
		if err := x.Sign(keys[c.B.Key].Priv); err != nil {
			return merge(res, pbt.Failf("Sign: %v", err))
		}
		signed[string(keys[c.B.Key].ID)+"|"+string(c.A.msg())] = true
	default:
		structural = false
	}
	enc, err = x.Encode()
	if err != nil {
		return merge(res, pbt.Failf("Encode: %v", err))
	}
	if !structural {
		switch c.Alter {
		case "flip":
			enc[c.Pos%len(enc)] ^= 1 << uint(c.Bit)
		case "truncate":
			enc = enc[:c.Pos%len(enc)]
		case "dupfield":
			// append a second "sig"/"head" field inside the JSON object; with a shared key and
			// root this can reassemble B's own (validly signed) head
			signed[string(keys[c.B.Key].ID)+"|"+string(c.B.msg())] = true
			if i := bytes.LastIndexByte(enc, '}'); i > 0 {
				benc, _ := b.Encode()
				if j := bytes.Index(benc, []byte(`"sig"`)); j > 0 && c.Pos%2 == 0 {
					enc = append(append(append([]byte(nil), enc[:i]...), ','), benc[j:]...)
				} else if j := bytes.Index(benc, []byte(`"head"`)); j > 0 {
					k := bytes.Index(benc[j:], []byte(`,"`))
					enc = append(append(append(append([]byte(nil), enc[:i]...), ','), benc[j:j+k]...), '}')
				}
			}
		}
	}
	id, msg, lerr := libAccept(enc)
	if lerr != nil && len(lerr.Error()) > 6 && lerr.Error()[:6] == "PANIC:" {
		return merge(res, pbt.Failf("Decode/Validate panicked on %q: %v", enc, lerr))
	}
	if c.Alter == "none" {
		if lerr != nil || id != keys[c.A.Key].ID {
			return merge(res, pbt.Failf("a head built by NewSignedHead/Encode is not accepted: id %s err %v (want %s)", id, lerr, keys[c.A.Key].ID))
		}
	}
	if lerr == nil {
		res.Classes = append(res.Classes, "accepted")
		// (1) the independent verifier agrees
		iid, imsg, ierr := independent(enc)
		if ierr == errGenericDecode {
			res.Classes = append(res.Classes, "generic-decoder-stricter")
		} else if ierr != nil || iid != id || !bytes.Equal(imsg, msg) {
			return merge(res, pbt.Failf("library accepts %q as signed by %s, independent verifier: id %s err %v", enc, id, iid, ierr))
		}
		// (2) no forgery: what was accepted is something the test signed with that key
		if !signed[string(id)+"|"+string(msg)] {
			return merge(res, pbt.Failf("library accepts a head for (signer %s, cid||topic %x) that nobody signed; alteration %s; encoding %q", id, msg, c.Alter, enc))
		}
	} else {
		res.Classes = append(res.Classes, "rejected")
	}
	return res
}

func merge(base, f pbt.Result) pbt.Result {
	base.Fail = f.Fail
	return base
}

func TestC03_Head(t *testing.T) {
	pbt.Run(t, pbt.Config{Prop: "C03", Unit: "TestC03_Head",
		Rule: "two valid signed heads A and B (root CIDs v0/v1 of several codecs and hash functions; topic absent, empty, short, 1 KiB, non-ASCII; signers of all four key types, same or different) and one alteration of A: CID replaced, topic changed / added / removed, key or signature replaced by B's, key and signature swapped in from B, re-signed by B's identity, any bit of the DAG-JSON flipped, truncation, a duplicated field; oracle: unaltered heads are accepted with the signer's ID; whenever the library accepts, an independent verifier (generic DAG-JSON decode + libp2p verify) accepts with the same signer and message, and (signer, cid||topic) is one the test itself signed. Non-trivial: altered; distinct by case.",
	}, genCase, runCase)
}

// What a publisher serves as the head always verifies for exactly its root, topic and identity.
type pubCase struct {
	Root  string
	Topic string
	Key   int
	Path  string
}

func TestC03_PublisherHead(t *testing.T) {
	pbt.Run(t, pbt.Config{Prop: "C03", Unit: "TestC03_PublisherHead",
		Rule: "publisher with a drawn key (all types), head topic (none, short, long, non-ASCII), handler path and root CID; oracle: GET <path>/ipni/v1/ad/head returns bytes that the library and the independent verifier accept for exactly that root, topic and the publisher's ID; an undefined root is 204. Non-trivial: a topic or a handler path is set; distinct by case.",
	}, func(t *rapid.T) pubCase {
		return pubCase{Root: gen.Cid().Draw(t, "root").String(), Key: gen.KeyIdx().Draw(t, "key"),
			Topic: rapid.OneOf(rapid.Just(""), rapid.Just("/indexer/ingest/mainnet"), rapid.StringN(1, 200, -1)).Draw(t, "topic"),
			Path:  rapid.SampledFrom([]string{"", "a", "/a/b", "boop/bop/"}).Draw(t, "path")}
	}, func(c pubCase) pbt.Result {
		k := gen.Keys()[c.Key]
		res := pbt.Result{NonTrivial: c.Topic != "" || c.Path != "", Classes: []string{"key=" + k.Type}}
		opts := []ipnisync.Option{ipnisync.WithStartServer(false)}
		if c.Topic != "" {
			opts = append(opts, ipnisync.WithHeadTopic(c.Topic))
		}
		if c.Path != "" {
			opts = append(opts, ipnisync.WithHandlerPath(c.Path))
		}
		pub, err := ipnisync.NewPublisher(ipld.LinkSystem{}, k.Priv, opts...)
		if err != nil {
			return merge(res, pbt.Failf("NewPublisher: %v", err))
		}
		defer pub.Close()
		p := "/" + trim(c.Path)
		if p != "/" {
			p += "/"
		}
		req := httptest.NewRequest(http.MethodGet, p+"ipni/v1/ad/head", nil)
		rec := httptest.NewRecorder()
		pub.ServeHTTP(rec, req)
		if rec.Code != http.StatusNoContent {
			return merge(res, pbt.Failf("head without a root: status %d", rec.Code))
		}
		root := cid.MustParse(c.Root)
		pub.SetRoot(root)
		rec = httptest.NewRecorder()
		pub.ServeHTTP(rec, req)
		if rec.Code != http.StatusOK {
			return merge(res, pbt.Failf("head request %s: status %d body %q", req.URL.Path, rec.Code, rec.Body.String()))
		}
		want := append(root.Bytes(), []byte(c.Topic)...)
		id, msg, err := libAccept(rec.Body.Bytes())
		if err != nil || id != k.ID || !bytes.Equal(msg, want) {
			return merge(res, pbt.Failf("served head does not validate for the publisher: id %s err %v msg %x want %x", id, err, msg, want))
		}
		iid, imsg, ierr := independent(rec.Body.Bytes())
		if ierr != nil || iid != k.ID || !bytes.Equal(imsg, want) {
			return merge(res, pbt.Failf("independent verifier rejects the served head: id %s err %v", iid, ierr))
		}
		return res
	})
}

func trim(s string) string {
	for len(s) > 0 && s[0] == '/' {
		s = s[1:]
	}
	for len(s) > 0 && s[len(s)-1] == '/' {
		s = s[:len(s)-1]
	}
	return s
}

func FuzzC03_Head(f *testing.F) {
	for i, d := range []headDesc{{Cid: "bafkreiaaaaaaaaaaaaaaaaaaaaaaaaaaaaaaaaaaaaaaaaaaaaaaaaaaaa", Key: 0}, {Cid: "QmdfTbBqBPQ7VNxZEYEj14VmRuZBkqFbiwReogJgS1zR1n", HasTopic: true, Topic: "/indexer/ingest/mainnet", Key: 7}, {Cid: "bafkreiaaaaaaaaaaaaaaaaaaaaaaaaaaaaaaaaaaaaaaaaaaaaaaaaaaaa", HasTopic: true, Topic: "t", Key: 12}} {
		sh, _ := d.build()
		enc, _ := sh.Encode()
		f.Add(enc)
		_ = i
	}
	f.Fuzz(func(t *testing.T, data []byte) {
		id, msg, err := libAccept(data)
		if err != nil {
			if len(err.Error()) > 6 && err.Error()[:6] == "PANIC:" {
				t.Fatalf("panic on %q: %v", data, err)
			}
			return
		}
		iid, imsg, ierr := independent(data)
		if ierr == errGenericDecode {
			return
		}
		if ierr != nil || iid != id || !bytes.Equal(imsg, msg) {
			t.Fatalf("library accepts %q as %s, independent verifier: %s %v", data, id, iid, ierr)
		}
	})
}
