package c03

import (
	"bytes"
	"fmt"
	"net/http"
	"net/http/httptest"
	"runtime"
	"sync"
	"testing"

	"github.com/ipfs/go-cid"
	"github.com/ipld/go-ipld-prime"
	"github.com/ipni/go-libipni/dagsync/ipnisync"
	"github.com/multiformats/go-multihash"
	"pgregory.net/rapid"

	"verif/h23/gen"
	"verif/h23/pbt"
)

// The publisher's head while its root changes: head requests race with SetRoot; whatever they return must be
// a valid head for one of the roots set so far, and once SetRoot(c) has returned and the racing requests have
// finished, every later head request returns c.

type pubConcCase struct {
	Key    int
	Topic  string
	Rounds int
	Racers int
	Yields int // scheduler yields between releasing the racing requests and the root change
}

func TestC03_PublisherConcurrent(t *testing.T) {
	pbt.Run(t, pbt.Config{Prop: "C03", Unit: "TestC03_PublisherConcurrent", TrackCurrent: true,
		Rule: "a publisher with a drawn key (RSA and ECDSA favoured: signing takes long enough for requests to overlap a root change); 3..12 rounds, in each the root is changed, 1..6 head requests are started at once (the first ones for that root) and after 0..60 scheduler yields SetRoot(new root) is called while they run; oracle: every response is a head that the independent verifier accepts for the publisher's identity and for a root that was the current root at some moment of the request (the old or the new one); after SetRoot has returned and the racing requests have finished, two further head requests return exactly the new root. Non-trivial: always; distinct by case.",
		Assumptions: []string{"interleavings are sampled by the Go scheduler"},
	}, func(t *rapid.T) pubConcCase {
		keys := gen.Keys()
		var slow []int
		for i, k := range keys {
			if k.Type == "rsa" || k.Type == "ecdsa" {
				slow = append(slow, i)
			}
		}
		key := gen.KeyIdx().Draw(t, "key")
		if len(slow) > 0 && rapid.IntRange(0, 3).Draw(t, "slowkey") > 0 {
			key = rapid.SampledFrom(slow).Draw(t, "slow")
		}
		return pubConcCase{Key: key, Topic: rapid.SampledFrom([]string{"", "/indexer/ingest/mainnet", "t"}).Draw(t, "topic"),
			Rounds: rapid.IntRange(3, 12).Draw(t, "rounds"), Racers: rapid.IntRange(1, 6).Draw(t, "racers"), Yields: rapid.IntRange(0, 60).Draw(t, "yields")}
	}, func(c pubConcCase) pbt.Result {
		k := gen.Keys()[c.Key]
		res := pbt.Result{NonTrivial: true, Classes: []string{"key=" + k.Type}}
		opts := []ipnisync.Option{ipnisync.WithStartServer(false)}
		if c.Topic != "" {
			opts = append(opts, ipnisync.WithHeadTopic(c.Topic))
		}
		pub, err := ipnisync.NewPublisher(ipld.LinkSystem{}, k.Priv, opts...)
		if err != nil {
			return pbt.Failf("NewPublisher: %v", err)
		}
		defer pub.Close()
		rootOf := func(i int) cid.Cid {
			mh, _ := multihash.Sum([]byte(fmt.Sprintf("pubconc-root-%d", i)), multihash.SHA2_256, -1)
			return cid.NewCidV1(cid.DagJSON, mh)
		}
		get := func() (cid.Cid, string) {
			req := httptest.NewRequest(http.MethodGet, "/ipni/v1/ad/head", nil)
			rec := httptest.NewRecorder()
			pub.ServeHTTP(rec, req)
			if rec.Code != http.StatusOK {
				return cid.Undef, fmt.Sprintf("status %d", rec.Code)
			}
			id, msg, err := independent(rec.Body.Bytes())
			if err != nil || id != k.ID {
				return cid.Undef, fmt.Sprintf("the served head does not verify for the publisher: id %s err %v", id, err)
			}
			if !bytes.HasSuffix(msg, []byte(c.Topic)) {
				return cid.Undef, "the served head is not signed over the configured topic"
			}
			_, root, err := cid.CidFromBytes(msg[:len(msg)-len(c.Topic)])
			if err != nil {
				return cid.Undef, "signed bytes do not start with a CID: " + err.Error()
			}
			return root, ""
		}
		pub.SetRoot(rootOf(0))
		for r := 1; r <= c.Rounds; r++ {
			// the racing requests are the first ones after a root change (nothing the publisher may have
			// remembered about the previous head applies), and the next change overtakes them
			pub.SetRoot(rootOf(1000 + r))
			oldRoot, newRoot := rootOf(1000+r), rootOf(r)
			var wg sync.WaitGroup
			var mu sync.Mutex
			fail := ""
			start := make(chan struct{})
			for i := 0; i < c.Racers; i++ {
				wg.Add(1)
				go func() {
					defer wg.Done()
					<-start
					got, msg := get()
					mu.Lock()
					defer mu.Unlock()
					if msg != "" && fail == "" {
						fail = "head request racing with SetRoot: " + msg
					} else if msg == "" && got != oldRoot && got != newRoot && fail == "" {
						fail = fmt.Sprintf("head request racing with SetRoot(root %d) returned a head for %s, which is neither the old nor the new root", r, got)
					}
				}()
			}
			close(start)
			for y := 0; y < c.Yields; y++ {
				runtime.Gosched()
			}
			pub.SetRoot(newRoot)
			wg.Wait()
			if fail != "" {
				return merge(res, pbt.Failf("round %d: %s", r, fail))
			}
			for k := 0; k < 2; k++ {
				got, msg := get()
				if msg != "" {
					return merge(res, pbt.Failf("round %d: head request after SetRoot: %s", r, msg))
				}
				if got != newRoot {
					which := "an unknown root"
					if got == oldRoot {
						which = "the previous root"
					}
					return merge(res, pbt.Failf("round %d: SetRoot(new root) has returned and no request is in flight, but head request %d returns a head signed for %s", r, k, which))
				}
			}
		}
		return res
	})
}
