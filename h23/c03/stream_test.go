package c03

import (
	"context"
	"fmt"
	"net/http"
	"strings"
	"testing"
	"time"

	"github.com/ipfs/go-cid"
	"github.com/ipld/go-ipld-prime"
	cidlink "github.com/ipld/go-ipld-prime/linking/cid"
	"github.com/ipld/go-ipld-prime/storage/memstore"
	"github.com/ipni/go-libipni/dagsync/ipnisync"
	"github.com/libp2p/go-libp2p"
	"github.com/libp2p/go-libp2p/core/host"
	"github.com/libp2p/go-libp2p/core/peer"
	libp2phttp "github.com/libp2p/go-libp2p/p2p/http"
	"github.com/multiformats/go-multihash"
	"pgregory.net/rapid"

	"verif/h23/gen"
	"verif/h23/pbt"
)

// The head query over libp2p streams (a publisher with no HTTP address): the libp2p host with identity X answers
// the ipni-sync protocol with a head signed by a drawn identity (X itself, or another one). The transport has
// authenticated X; the head must still be signed by X.

type streamCase struct {
	HostKey   int
	SignerKey int
	Topic     string
	Queries   int
}

func lsysMem() ipld.LinkSystem {
	store := &memstore.Store{}
	ls := cidlink.DefaultLinkSystem()
	ls.SetReadStorage(store)
	ls.SetWriteStorage(store)
	return ls
}

func TestC03_StreamHead(t *testing.T) {
	hosts := map[int]host.Host{}
	var clientHost host.Host
	getHost := func(k int) (host.Host, error) {
		if h, ok := hosts[k]; ok {
			return h, nil
		}
		h, err := libp2p.New(libp2p.Identity(gen.Keys()[k].Priv), libp2p.ListenAddrStrings("/ip4/127.0.0.1/tcp/0"))
		if err == nil {
			hosts[k] = h
		}
		return h, err
	}
	pbt.Run(t, pbt.Config{Prop: "C03", Unit: "TestC03_StreamHead", TrackCurrent: true,
		Rule: "a real libp2p host with a drawn identity X (all key types) serves the ipni-sync protocol over libp2p streams only; the head it returns is signed by X or by another drawn identity; a client with its own host queries the head of publisher X 1..3 times on one Syncer; oracle: accepted iff signed by X (then the CID is the served root); a head validly signed by somebody else is rejected every time. Non-trivial: signer differs from the host's identity; distinct by case.",
	}, func(t *rapid.T) streamCase {
		c := streamCase{HostKey: gen.KeyIdx().Draw(t, "hostkey"), Topic: rapid.SampledFrom([]string{"", "/indexer/ingest/mainnet"}).Draw(t, "topic"), Queries: rapid.IntRange(1, 3).Draw(t, "queries")}
		c.SignerKey = c.HostKey
		if rapid.Bool().Draw(t, "foreign") {
			c.SignerKey = gen.KeyIdx().Draw(t, "signerkey")
		}
		return c
	}, func(c streamCase) (res pbt.Result) {
		keys := gen.Keys()
		foreign := keys[c.SignerKey].ID != keys[c.HostKey].ID
		res.NonTrivial = foreign
		res.Classes = []string{"hostkey=" + keys[c.HostKey].Type, fmt.Sprintf("foreign=%v", foreign)}
		hx, err := getHost(c.HostKey)
		if err != nil {
			res.Skip = true // environment
			return res
		}
		if clientHost == nil {
			if clientHost, err = libp2p.New(libp2p.ListenAddrStrings("/ip4/127.0.0.1/tcp/0")); err != nil {
				res.Skip = true
				return res
			}
		}
		opts := []ipnisync.Option{ipnisync.WithStartServer(false)}
		if c.Topic != "" {
			opts = append(opts, ipnisync.WithHeadTopic(c.Topic))
		}
		pub, err := ipnisync.NewPublisher(lsysMem(), keys[c.SignerKey].Priv, opts...)
		if err != nil {
			return pbt.Failf("NewPublisher: %v", err)
		}
		defer pub.Close()
		mh, _ := multihash.Sum([]byte(fmt.Sprintf("c03-stream-%d-%d", c.HostKey, c.SignerKey)), multihash.SHA2_256, -1)
		root := cid.NewCidV1(cid.DagJSON, mh)
		pub.SetRoot(root)
		srv := &libp2phttp.Host{StreamHost: hx}
		// the mounted handler sees the path without the protocol prefix; a publisher that does not run its own
		// server expects it
		srv.SetHTTPHandlerAtPath(ipnisync.ProtocolID, ipnisync.IPNIPath, http.HandlerFunc(func(w http.ResponseWriter, r *http.Request) {
			r2 := r.Clone(r.Context())
			r2.URL.Path = ipnisync.IPNIPath + "/" + strings.TrimPrefix(r.URL.Path, "/")
			pub.ServeHTTP(w, r2)
		}))
		go srv.Serve()
		defer srv.Close()
		sync := ipnisync.NewSync(lsysMem(), nil, ipnisync.ClientStreamHost(clientHost))
		defer sync.Close()
		syncer, err := sync.NewSyncer(peer.AddrInfo{ID: hx.ID(), Addrs: hx.Addrs()})
		if err != nil {
			res.Skip = true // could not reach the loopback host: environment
			return res
		}
		for q := 0; q < c.Queries; q++ {
			ctx, cancel := context.WithTimeout(context.Background(), 20*time.Second)
			got, err := syncer.GetHead(ctx)
			cancel()
			if foreign {
				if err == nil {
					res.Fail = fmt.Sprintf("query %d: the stream host %s returned a head signed by %s and it was accepted for publisher %s (returned %s)", q, hx.ID(), keys[c.SignerKey].ID, hx.ID(), got)
					return res
				}
				if !strings.Contains(err.Error(), "unexpected peer") {
					res.Skip = true // transport trouble, not a verdict
					return res
				}
				continue
			}
			if err != nil {
				if strings.Contains(err.Error(), "unexpected peer") || strings.Contains(err.Error(), "signature") {
					res.Fail = fmt.Sprintf("query %d: a head signed by the stream host's own identity was rejected: %v", q, err)
					return res
				}
				res.Skip = true
				return res
			}
			if got != root {
				res.Fail = fmt.Sprintf("query %d: GetHead returned %s, the publisher's root is %s", q, got, root)
				return res
			}
		}
		return res
	})
}
