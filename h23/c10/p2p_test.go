package c10

import (
	"bytes"
	"context"
	"fmt"
	"sync"
	"testing"
	"time"

	"github.com/ipni/go-libipni/announce/message"
	"github.com/ipni/go-libipni/announce/p2psender"
	dstest "github.com/ipni/go-libipni/dagsync/test"
	pubsub "github.com/libp2p/go-libp2p-pubsub"
	"pgregory.net/rapid"

	"verif/h23/pbt"
)

// p2psender: bursts of messages published on a gossipsub topic are what a subscriber of that topic decodes.
// One real libp2p host on loopback with a local subscription: delivery to local subscribers needs no peer.

type burstCase struct {
	Msgs     []msgCase
	SenderXD []byte
}

var (
	p2pOnce  sync.Once
	p2pErr   string
	p2pTopic *pubsub.Topic
	p2pSub   *pubsub.Subscription
)

func p2pSetup(t *testing.T) {
	p2pOnce.Do(func() {
		h := dstest.MkTestHost(t)
		ps, err := pubsub.NewGossipSub(context.Background(), h)
		if err != nil {
			p2pErr = err.Error()
			return
		}
		if p2pTopic, err = ps.Join("/verif/c10/announce"); err != nil {
			p2pErr = err.Error()
			return
		}
		if p2pSub, err = p2pTopic.Subscribe(pubsub.WithBufferSize(64)); err != nil {
			p2pErr = err.Error()
		}
	})
}

func TestC10_P2PSender(t *testing.T) {
	p2pSetup(t)
	if p2pErr != "" {
		t.Fatalf("libp2p host / pubsub setup failed (environment): %s", p2pErr)
	}
	pbt.Run(t, pbt.Config{Prop: "C10", Unit: "TestC10_P2PSender",
		Rule: "bursts of 1..8 drawn messages (as in TestC10_RoundTrip) handed back-to-back to a p2psender (optionally with sender-level extra data) on a gossipsub topic of a real loopback host; a subscription of the same topic then reads as many messages; oracle: the i-th received payload decodes (CBOR) to the i-th message sent (extra data replaced by the sender's when configured): nothing that was handed to Send is altered afterwards. Non-trivial: a burst of >= 2 different messages; distinct by case.",
	}, func(t *rapid.T) burstCase {
		n := rapid.IntRange(1, 8).Draw(t, "burst")
		c := burstCase{}
		for i := 0; i < n; i++ {
			m := genMsg(t)
			if len(m.ExtraData) > 512 {
				m.ExtraData = m.ExtraData[:512]
			}
			// gossipsub limits a message to 1 MiB: keep the several-MiB cases out of this unit
			kept := m.Addrs[:0]
			for _, a := range m.Addrs {
				if len(a.Bytes) <= 1024 {
					kept = append(kept, a)
				}
			}
			m.Addrs = kept
			c.Msgs = append(c.Msgs, m)
		}
		if rapid.IntRange(0, 3).Draw(t, "xd") == 0 {
			c.SenderXD = rapid.SliceOfN(rapid.Byte(), 1, 32).Draw(t, "senderxd")
		}
		return c
	}, func(c burstCase) pbt.Result {
		res := pbt.Result{NonTrivial: len(c.Msgs) >= 2}
		opts := []p2psender.Option{p2psender.WithTopic(p2pTopic)}
		if len(c.SenderXD) > 0 {
			opts = append(opts, p2psender.WithExtraData(c.SenderXD))
		}
		snd, err := p2psender.New(nil, "", opts...)
		if err != nil {
			return pbt.Failf("p2psender.New: %v", err)
		}
		var want []message.Message
		for i, mc := range c.Msgs {
			m := mc.build()
			w := mc.build()
			if len(c.SenderXD) > 0 {
				w.ExtraData = c.SenderXD
			}
			want = append(want, w)
			if err := snd.Send(context.Background(), m); err != nil {
				return merge(res, pbt.Failf("Send %d of %d: %v", i, len(c.Msgs), err))
			}
		}
		for i := range want {
			ctx, cancel := context.WithTimeout(context.Background(), 10*time.Second)
			pm, err := p2pSub.Next(ctx)
			cancel()
			if err != nil {
				// environment (a local delivery takes microseconds): not a verdict
				res.Skip = true
				return res
			}
			var got message.Message
			if err := got.UnmarshalCBOR(bytes.NewReader(pm.Data)); err != nil {
				return merge(res, pbt.Failf("message %d of a burst of %d does not decode: %v (payload %x)", i, len(want), err, pm.Data))
			}
			if d := msgEq(want[i], got); d != "" {
				return merge(res, pbt.Failf("message %d of a burst of %d: the subscriber decodes a different %s: sent %s, received %s", i, len(want), d, brief(want[i]), brief(got)))
			}
		}
		return res
	})
}

func brief(m message.Message) string {
	return fmt.Sprintf("{cid %s, %d addrs, %d B extra data, origpeer %q}", m.Cid, len(m.Addrs), len(m.ExtraData), m.OrigPeer)
}
