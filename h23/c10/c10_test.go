package c10

import (
	"bytes"
	"context"
	"encoding/binary"
	"encoding/json"
	"fmt"
	"io"
	"net/http"
	"net/http/httptest"
	"net/url"
	"runtime"
	"sync"
	"testing"
	"testing/iotest"

	"github.com/ipfs/go-cid"
	"github.com/ipni/go-libipni/announce"
	"github.com/ipni/go-libipni/announce/httpsender"
	"github.com/ipni/go-libipni/announce/message"
	"github.com/multiformats/go-multiaddr"
	"pgregory.net/rapid"

	"verif/h23/gen"
	"verif/h23/pbt"
)

type addr struct {
	Kind  string // valid | unknown | empty | garbage
	Bytes []byte
}

type msgCase struct {
	Cid       string
	Addrs     []addr
	ExtraData []byte
	OrigPeer  int // -1 none, else key index
	Sender    string // none | cbor | json
	SenderKey int
	SenderXD  []byte // sender-level extra data option
	TwoURLs   bool
	Many      int // this many copies of one short valid address are appended to Addrs (the address-count cap is 8192)
}

var validAddrTexts = []string{"/ip4/8.8.8.8/tcp/3003", "/ip6/2606:4700::1/tcp/443/https", "/dns4/pub.example.com/tcp/80/http", "/ip4/1.2.3.4/udp/4001/quic-v1", "/ip4/127.0.0.1/tcp/9", "/dns/localhost/tcp/3104/http/http-path/a%2Fb"}

func uv(v uint64) []byte {
	b := make([]byte, 10)
	return b[:binary.PutUvarint(b, v)]
}

func genAddr(t *rapid.T) addr {
	switch rapid.IntRange(0, 9).Draw(t, "akind") {
	case 0, 1:
		// unregistered protocol code followed by arbitrary bytes
		code := rapid.SampledFrom([]uint64{0x3f42, 0x7fff1, 0x0999, 0x3e8}).Draw(t, "ucode")
		return addr{Kind: "unknown", Bytes: append(uv(code), gen.Bytes(0, 12).Draw(t, "utail")...)}
	case 2:
		return addr{Kind: "empty"}
	case 3:
		// a valid address that already ends in some peer's /p2p component (a relay, another identity, or the
		// publisher's own)
		base := rapid.SampledFrom(validAddrTexts[:4]).Draw(t, "ptext")
		other := gen.Keys()[rapid.IntRange(0, len(gen.Keys())-1).Draw(t, "pkey")].ID
		return addr{Kind: "valid", Bytes: multiaddr.StringCast(base + "/p2p/" + other.String()).Bytes()}
	default:
		return addr{Kind: "valid", Bytes: multiaddr.StringCast(rapid.SampledFrom(validAddrTexts).Draw(t, "atext")).Bytes()}
	}
}

// chunked returns readers that hand out the same bytes in pieces, as a network stream or an HTTP body does.
func chunked(b []byte) map[string]io.Reader {
	m := map[string]io.Reader{
		"half of the request":       iotest.HalfReader(bytes.NewReader(b)),
		"data together with io.EOF": iotest.DataErrReader(bytes.NewReader(b)),
	}
	if len(b) <= 64<<10 {
		m["one byte at a time"] = iotest.OneByteReader(bytes.NewReader(b)) // millions of Read calls for the several-MiB cases
	}
	return m
}

func genMsg(t *rapid.T) msgCase {
	c := msgCase{Cid: gen.Cid().Draw(t, "cid").String(), OrigPeer: -1}
	n := rapid.OneOf(rapid.IntRange(0, 5), rapid.IntRange(0, 32)).Draw(t, "naddrs")
	for i := 0; i < n; i++ {
		c.Addrs = append(c.Addrs, genAddr(t))
	}
	if rapid.IntRange(0, 299).Draw(t, "manyaddrs") == 123 {
		// address counts at the cap of the array header: what the encoder still writes the decoder must read
		c.Many = rapid.SampledFrom([]int{8190, 8191, 8192}).Draw(t, "many") - len(c.Addrs)
		c.Sender = "none"
		return c
	}
	huge := rapid.IntRange(0, 499).Draw(t, "huge") == 321 // (rapid favours the ends of a range: an interior value is the rare one)
	if huge {
		// every field within its own cap, the whole message several MiB: 2 MiB of extra data (the byte-string
		// cap) next to one or two addresses of up to 2 MiB
		c.ExtraData = gen.BoundaryBytes(1<<20, 2<<20-1).Draw(t, "xdhuge")
		if len(c.ExtraData) > 2<<20 {
			c.ExtraData = c.ExtraData[:2<<20]
		}
		na := rapid.IntRange(1, 2).Draw(t, "nhugeaddrs")
		for i := 0; i < na; i++ {
			body := gen.BoundaryBytes(1<<20, 2<<20-8).Draw(t, "addrhuge")
			c.Addrs = append(c.Addrs, addr{Kind: "unknown", Bytes: append(uv(0x3f42), body...)})
		}
		if rapid.Bool().Draw(t, "origpeer") {
			c.OrigPeer = rapid.IntRange(0, len(gen.Keys())-1).Draw(t, "opkey")
		}
		c.Sender = "none"
		return c
	}
	switch rapid.IntRange(0, 9).Draw(t, "xdclass") {
	case 0:
	case 1:
		k := rapid.IntRange(0, 4096).Draw(t, "xdlen")
		c.ExtraData = gen.Bytes(k, k).Draw(t, "xd")
	default:
		c.ExtraData = gen.Bytes(0, 40).Draw(t, "xdsmall")
	}
	if rapid.Bool().Draw(t, "origpeer") {
		c.OrigPeer = rapid.IntRange(0, len(gen.Keys())-1).Draw(t, "opkey")
	}
	c.Sender = rapid.SampledFrom([]string{"none", "none", "cbor", "json"}).Draw(t, "sender")
	c.SenderKey = rapid.IntRange(0, len(gen.Keys())-1).Draw(t, "senderkey")
	if rapid.IntRange(0, 3).Draw(t, "senderxd") == 0 {
		c.SenderXD = gen.Bytes(1, 20).Draw(t, "sxd")
	}
	c.TwoURLs = rapid.Bool().Draw(t, "twourls")
	return c
}

func (c msgCase) build() message.Message {
	m := message.Message{Cid: cid.MustParse(c.Cid), ExtraData: c.ExtraData}
	for _, a := range c.Addrs {
		m.Addrs = append(m.Addrs, a.Bytes)
	}
	if c.OrigPeer >= 0 {
		m.OrigPeer = gen.Keys()[c.OrigPeer].ID.String()
	}
	return m
}

func msgEq(a, b message.Message) string {
	if !a.Cid.Equals(b.Cid) {
		return "Cid"
	}
	if len(a.Addrs) != len(b.Addrs) {
		return fmt.Sprintf("Addrs length %d vs %d", len(a.Addrs), len(b.Addrs))
	}
	for i := range a.Addrs {
		if !bytes.Equal(a.Addrs[i], b.Addrs[i]) {
			return fmt.Sprintf("Addrs[%d]", i)
		}
	}
	if !bytes.Equal(a.ExtraData, b.ExtraData) {
		return "ExtraData"
	}
	if a.OrigPeer != b.OrigPeer {
		return "OrigPeer"
	}
	return ""
}

// capture server shared by all cases of the process
var (
	capOnce sync.Once
	capSrv  *httptest.Server
	capMu   sync.Mutex
	capReqs []capReq
)

type capReq struct {
	Path, ContentType string
	Body              []byte
}

func capServer() *httptest.Server {
	capOnce.Do(func() {
		capSrv = httptest.NewServer(http.HandlerFunc(func(w http.ResponseWriter, r *http.Request) {
			b, _ := io.ReadAll(r.Body)
			capMu.Lock()
			capReqs = append(capReqs, capReq{r.URL.Path, r.Header.Get("Content-Type"), b})
			capMu.Unlock()
			w.WriteHeader(http.StatusNoContent)
		}))
	})
	return capSrv
}

func runMsg(c msgCase) pbt.Result {
	if c.Many > 0 {
		short := addr{Kind: "valid", Bytes: multiaddr.StringCast("/ip4/127.0.0.1/tcp/9").Bytes()}
		c.Addrs = append([]addr(nil), c.Addrs...)
		for i := 0; i < c.Many; i++ {
			c.Addrs = append(c.Addrs, short)
		}
	}
	m := c.build()
	res := pbt.Result{Classes: []string{fmt.Sprintf("origpeer=%v", c.OrigPeer >= 0), "sender=" + c.Sender}}
	nUnknown, nValid, nEmpty := 0, 0, 0
	for _, a := range c.Addrs {
		switch a.Kind {
		case "unknown":
			nUnknown++
		case "valid":
			nValid++
		default:
			nEmpty++
		}
	}
	if nUnknown > 0 {
		res.Classes = append(res.Classes, "has-unknown-proto-addr")
	}
	if len(c.ExtraData) >= 1<<20-1 {
		res.Classes = append(res.Classes, "several-MiB")
	}
	res.NonTrivial = len(c.Addrs) > 0 && (len(c.ExtraData) > 0 || c.OrigPeer >= 0)

	// CBOR round trip and field-count form
	var buf bytes.Buffer
	if err := m.MarshalCBOR(&buf); err != nil {
		return merge(res, pbt.Failf("MarshalCBOR: %v", err))
	}
	enc := append([]byte(nil), buf.Bytes()...)
	wantHead := byte(0x83)
	if c.OrigPeer >= 0 {
		wantHead = 0x84
	}
	if enc[0] != wantHead {
		return merge(res, pbt.Failf("CBOR encoding starts with %#x, want %#x (OrigPeer set: %v)", enc[0], wantHead, c.OrigPeer >= 0))
	}
	var m2 message.Message
	if err := m2.UnmarshalCBOR(bytes.NewReader(enc)); err != nil {
		return merge(res, pbt.Failf("UnmarshalCBOR(MarshalCBOR(m)): %v", err))
	}
	if d := msgEq(m, m2); d != "" {
		return merge(res, pbt.Failf("CBOR round trip changed %s: %+v -> %+v", d, m, m2))
	}
	// the decoder reads from any io.Reader: what it decodes must not depend on how the bytes are sliced
	for how, rd := range chunked(enc) {
		var mc message.Message
		if err := mc.UnmarshalCBOR(rd); err != nil {
			return merge(res, pbt.Failf("UnmarshalCBOR from a reader that delivers %s: %v (the same bytes decode from a bytes.Reader)", how, err))
		}
		if d := msgEq(m, mc); d != "" {
			return merge(res, pbt.Failf("UnmarshalCBOR from a reader that delivers %s changed %s: got %+v, want %+v", how, d, mc, m))
		}
	}
	// decoding into a Message that already holds another message gives the same result: the decoder resets
	// its receiver (receivers of a stream of announcements reuse one variable)
	for _, dirty := range []message.Message{
		{Cid: m.Cid, Addrs: [][]byte{{1, 2, 3}, {4}}, ExtraData: []byte("previous extra data"), OrigPeer: "12D3KooWPrevious"},
		{Addrs: [][]byte{}, ExtraData: []byte{}},
	} {
		mr := dirty
		if err := mr.UnmarshalCBOR(bytes.NewReader(enc)); err != nil {
			return merge(res, pbt.Failf("UnmarshalCBOR into a Message that held %+v: %v (a fresh Message decodes the same bytes)", dirty, err))
		}
		if d := msgEq(m, mr); d != "" {
			return merge(res, pbt.Failf("UnmarshalCBOR into a Message that held %+v changed %s: got %+v, want %+v", dirty, d, mr, m))
		}
	}
	// JSON round trip
	js, err := json.Marshal(m)
	if err != nil {
		return merge(res, pbt.Failf("json.Marshal: %v", err))
	}
	var m3 message.Message
	if err := json.Unmarshal(js, &m3); err != nil {
		return merge(res, pbt.Failf("json.Unmarshal(json.Marshal(m)): %v", err))
	}
	if d := msgEq(m, m3); d != "" {
		return merge(res, pbt.Failf("JSON round trip changed %s: %s", d, js))
	}
	// GetAddrs: unknown protocols skipped, the rest kept in order; other invalid bytes may fail the call
	addrs, err := m2.GetAddrs()
	if nEmpty == 0 {
		if err != nil {
			return merge(res, pbt.Failf("GetAddrs failed although every address is valid or of an unknown protocol: %v", err))
		}
		var want []string
		for _, a := range c.Addrs {
			if a.Kind == "valid" {
				want = append(want, multiaddr.Cast(a.Bytes).String())
			}
		}
		if len(addrs) != len(want) {
			return merge(res, pbt.Failf("GetAddrs returned %d addresses %v, want %d %v", len(addrs), addrs, len(want), want))
		}
		for i := range want {
			if addrs[i] == nil || addrs[i].String() != want[i] {
				return merge(res, pbt.Failf("GetAddrs[%d] = %v, want %s (all: %v)", i, addrs[i], want[i], addrs))
			}
		}
	}
	// senders
	if c.Sender != "none" && nEmpty == 0 {
		srv := capServer()
		u1, _ := url.Parse(srv.URL + "/a1")
		urls := []*url.URL{u1}
		if c.TwoURLs {
			u2, _ := url.Parse(srv.URL + "/a2")
			urls = append(urls, u2)
		}
		sk := gen.Keys()[c.SenderKey]
		var opts []httpsender.Option
		if c.SenderXD != nil {
			opts = append(opts, httpsender.WithExtraData(c.SenderXD))
		}
		s, err := httpsender.New(urls, sk.ID, opts...)
		if err != nil {
			return merge(res, pbt.Failf("httpsender.New: %v", err))
		}
		capMu.Lock()
		capReqs = nil
		capMu.Unlock()
		before := c.build()
		before.ExtraData = append([]byte(nil), m.ExtraData...) // its own memory: the message under test shares c.ExtraData with every build()
		if c.Sender == "cbor" {
			err = s.Send(context.Background(), m)
		} else {
			err = s.SendJson(context.Background(), m)
		}
		if err != nil {
			return merge(res, pbt.Failf("httpsender %s: %v", c.Sender, err))
		}
		if d := msgEq(before, m); d != "" {
			return merge(res, pbt.Failf("sender modified the caller's message (%s): ExtraData was %x, is %x (sender-level extra data %x)", d, before.ExtraData, m.ExtraData, c.SenderXD))
		}

		capMu.Lock()
		reqs := append([]capReq(nil), capReqs...)
		capMu.Unlock()
		if len(reqs) != len(urls) {
			return merge(res, pbt.Failf("sender made %d requests for %d URLs", len(reqs), len(urls)))
		}
		want := message.Message{Cid: m.Cid, ExtraData: m.ExtraData, OrigPeer: m.OrigPeer}
		if c.SenderXD != nil {
			want.ExtraData = c.SenderXD
		}
		for _, a := range c.Addrs {
			if a.Kind == "valid" {
				withID := multiaddr.Join(multiaddr.Cast(a.Bytes), multiaddr.StringCast("/p2p/"+sk.ID.String()))
				want.Addrs = append(want.Addrs, withID.Bytes())
			}
		}
		for _, r := range reqs {
			var got message.Message
			if c.Sender == "cbor" {
				if r.ContentType != "application/octet-stream" {
					return merge(res, pbt.Failf("Send used content type %q", r.ContentType))
				}
				err = got.UnmarshalCBOR(bytes.NewReader(r.Body))
			} else {
				if r.ContentType != "application/json" {
					return merge(res, pbt.Failf("SendJson used content type %q", r.ContentType))
				}
				err = json.Unmarshal(r.Body, &got)
			}
			if err != nil {
				return merge(res, pbt.Failf("receiver cannot decode what %s sender wrote: %v", c.Sender, err))
			}
			if nValid == 0 {
				// nothing to append the publisher ID to: libp2p renders an address-less AddrInfo as a bare
				// /p2p/<id>; the property does not say which of the two forms goes on the wire
				bare := multiaddr.StringCast("/p2p/" + sk.ID.String()).Bytes()
				if len(got.Addrs) == 1 && bytes.Equal(got.Addrs[0], bare) {
					got.Addrs = nil
				}
			}
			if d := msgEq(want, got); d != "" {
				return merge(res, pbt.Failf("%s sender: wire message differs from the message with /p2p/<publisher> appended in %s\nwant %+v\n got %+v", c.Sender, d, want, got))
			}
		}
		_ = s.Close()
		res.Classes = append(res.Classes, "sent")
	}
	return res
}

func merge(base, f pbt.Result) pbt.Result {
	base.Fail = f.Fail
	return base
}

func TestC10_RoundTrip(t *testing.T) {
	pbt.Run(t, pbt.Config{Prop: "C10", Unit: "TestC10_RoundTrip",
		Rule: "messages: any defined CID, 0..32 address byte strings (valid multiaddrs, some already ending in a /p2p component, multiaddrs with unregistered protocol codes, empty strings), extra data 0..4096 B (roughly one case in 1000: 1..2 MiB of extra data next to one or two addresses of 1..2 MiB, each field within its own cap), OrigPeer absent or a peer-ID string; oracles: CBOR and JSON round trips give an equal message (nil == empty), also when the CBOR arrives through readers that deliver it in pieces, also when the CBOR is decoded into a Message that already holds another message, 3- vs 4-field CBOR form chosen by OrigPeer, GetAddrs skips unknown-protocol addresses and keeps the rest in order, httpsender Send/SendJson (1 or 2 URLs, optional sender-level extra data) put on the wire a message a receiver decodes to the original with /p2p/<publisher> appended to every known-protocol address. Non-trivial: >= 1 address and (extra data or OrigPeer); distinct by case.",
		Assumptions: []string{"messages with an empty address byte string are not sent (GetAddrs legitimately fails on them)", "loopback HTTP capture server"},
	}, genMsg, runMsg)
}

// announce.Send builds the message from a CID and multiaddrs and hands it to every sender.
type sendCase struct {
	Cid      string
	Addrs    []string
	NSenders int
	Undef    bool
}

type recSender struct{ got []message.Message }

func (r *recSender) Close() error { return nil }
func (r *recSender) Send(_ context.Context, m message.Message) error {
	r.got = append(r.got, m)
	return nil
}

func TestC10_AnnounceSend(t *testing.T) {
	pbt.Run(t, pbt.Config{Prop: "C10", Unit: "TestC10_AnnounceSend",
		Rule: "announce.Send with a drawn CID (or Undef), 0..4 multiaddrs and 0..3 recording senders (nil senders mixed in); oracle: every sender receives exactly one message with that CID and those addresses, nothing is sent for cid.Undef. Non-trivial: >= 2 senders and >= 1 address; distinct by case.",
	}, func(t *rapid.T) sendCase {
		c := sendCase{Cid: gen.Cid().Draw(t, "cid").String(), NSenders: rapid.IntRange(0, 3).Draw(t, "ns"), Undef: rapid.IntRange(0, 9).Draw(t, "undef") == 0}
		n := rapid.IntRange(0, 4).Draw(t, "na")
		for i := 0; i < n; i++ {
			c.Addrs = append(c.Addrs, rapid.SampledFrom(validAddrTexts).Draw(t, "a"))
		}
		return c
	}, func(c sendCase) pbt.Result {
		res := pbt.Result{NonTrivial: c.NSenders >= 2 && len(c.Addrs) > 0}
		ci := cid.MustParse(c.Cid)
		if c.Undef {
			ci = cid.Undef
		}
		var mas []multiaddr.Multiaddr
		for _, a := range c.Addrs {
			mas = append(mas, multiaddr.StringCast(a))
		}
		var senders []announce.Sender
		var recs []*recSender
		for i := 0; i < c.NSenders; i++ {
			r := &recSender{}
			recs = append(recs, r)
			senders = append(senders, r, nil)
		}
		if err := announce.Send(context.Background(), ci, mas, senders...); err != nil {
			return merge(res, pbt.Failf("announce.Send: %v", err))
		}
		for _, r := range recs {
			if c.Undef {
				if len(r.got) != 0 {
					return merge(res, pbt.Failf("announce.Send sent a message for cid.Undef"))
				}
				continue
			}
			if len(r.got) != 1 || !r.got[0].Cid.Equals(ci) || len(r.got[0].Addrs) != len(mas) {
				return merge(res, pbt.Failf("sender received %+v for cid %s addrs %v", r.got, ci, c.Addrs))
			}
			for i := range mas {
				if !bytes.Equal(r.got[0].Addrs[i], mas[i].Bytes()) {
					return merge(res, pbt.Failf("sender received address %d = %x, want %s", i, r.got[0].Addrs[i], mas[i]))
				}
			}
		}
		return res
	})
}

// ------------------------------------------------------------------ decoder on arbitrary bytes

type decCase struct {
	JSON bool
	Data []byte
}

var hostile = [][]byte{
	{0x5b, 0x80, 0, 0, 0, 0, 0, 0, 0},                         // byte string, length 2^63
	{0x5b, 0xff, 0xff, 0xff, 0xff, 0xff, 0xff, 0xff, 0xff},    // byte string, length 2^64-1
	{0x5b, 0, 0, 0x01, 0, 0, 0, 0, 0},                         // 2^40
	{0x5a, 0x00, 0x20, 0x00, 0x01},                            // 2 MiB + 1
	{0x5a, 0x00, 0x20, 0x00, 0x00},                            // exactly 2 MiB
	{0x9b, 0x80, 0, 0, 0, 0, 0, 0, 0},                         // array, length 2^63
	{0x9a, 0xff, 0xff, 0xff, 0xff},                            // array 2^32-1
	{0x99, 0x20, 0x01},                                        // array 8193
	{0x99, 0x20, 0x00},                                        // array 8192
	{0x7b, 0x80, 0, 0, 0, 0, 0, 0, 0},                         // text string 2^63
	{0x79, 0x20, 0x01},                                        // text 8193
	{0x5f}, {0x9f}, {0xff}, {0xf6}, {0xd8, 0x2a}, {0x1b, 0xff, 0xff, 0xff, 0xff, 0xff, 0xff, 0xff, 0xff},
}

func genDec(t *rapid.T) decCase {
	c := decCase{JSON: rapid.IntRange(0, 4).Draw(t, "json") == 0}
	var b []byte
	if rapid.IntRange(0, 6).Draw(t, "raw") == 0 {
		b = gen.Bytes(0, 64).Draw(t, "rawbytes")
	} else {
		mc := genMsg(t)
		if len(mc.ExtraData) > 64 {
			mc.ExtraData = mc.ExtraData[:64]
		}
		if len(mc.Addrs) > 6 {
			mc.Addrs = mc.Addrs[:6]
		}
		m := mc.build()
		if c.JSON {
			b, _ = json.Marshal(m)
		} else {
			var buf bytes.Buffer
			_ = m.MarshalCBOR(&buf)
			b = buf.Bytes()
		}
	}
	if !c.JSON && len(b) > 0 && b[0] == 0x83 && rapid.IntRange(0, 7).Draw(t, "longorigpeer") == 0 {
		// a fourth field written by hand: a text string around or beyond the 8192-byte cap the encoder enforces
		// for OrigPeer, with all of its bytes present
		n := rapid.SampledFrom([]int{8191, 8192, 8193, 9000, 70000}).Draw(t, "oplen")
		b[0] = 0x84
		hdr := []byte{0x79, byte(n >> 8), byte(n)} // major type 3, 16-bit length
		if n > 0xffff {
			hdr = []byte{0x7a, byte(n >> 24), byte(n >> 16), byte(n >> 8), byte(n)}
		}
		b = append(append(b, hdr...), bytes.Repeat([]byte{'a'}, n)...)
		c.Data = b
		return c
	}
	nm := rapid.IntRange(0, 3).Draw(t, "nmut")
	for i := 0; i < nm && len(b) > 0; i++ {
		pos := rapid.IntRange(0, len(b)-1).Draw(t, "pos")
		switch rapid.IntRange(0, 5).Draw(t, "mut") {
		case 0:
			b[pos] ^= 1 << uint(rapid.IntRange(0, 7).Draw(t, "bit"))
		case 1:
			b = b[:pos]
		case 2:
			b = append(b[:pos:pos], append([]byte{rapid.Byte().Draw(t, "ins")}, b[pos:]...)...)
		case 3:
			b = append(b[:pos:pos], b[pos+1:]...)
		case 4, 5:
			h := rapid.SampledFrom(hostile).Draw(t, "hostile")
			if rapid.Bool().Draw(t, "replace") && pos+1 <= len(b) {
				b = append(b[:pos:pos], append(append([]byte(nil), h...), b[pos+1:]...)...)
			} else {
				b = append(b[:pos:pos], append(append([]byte(nil), h...), b[pos:]...)...)
			}
		}
	}
	c.Data = b
	return c
}

const allocBound = 2<<20 + 8192*24 + 64<<10

func decodeChecked(c decCase) (fail string, decoded bool) {
	var m message.Message
	if c.JSON {
		if err := json.Unmarshal(c.Data, &m); err != nil {
			return "", false
		}
		js, err := json.Marshal(m)
		if err != nil {
			return fmt.Sprintf("JSON-decoded message cannot be re-encoded: %v (input %q)", err, c.Data), true
		}
		var m2 message.Message
		if err := json.Unmarshal(js, &m2); err != nil {
			return fmt.Sprintf("re-encoded JSON does not decode: %v (input %q)", err, c.Data), true
		}
		if d := msgEq(m, m2); d != "" {
			return fmt.Sprintf("JSON decode->encode->decode changed %s (input %q)", d, c.Data), true
		}
		return "", true
	}
	in := append([]byte(nil), c.Data...)
	var before, after runtime.MemStats
	runtime.ReadMemStats(&before)
	err := m.UnmarshalCBOR(bytes.NewReader(in))
	runtime.ReadMemStats(&after)
	if alloc := after.TotalAlloc - before.TotalAlloc; alloc > uint64(2*len(c.Data)+allocBound) {
		return fmt.Sprintf("UnmarshalCBOR(%x) allocated %d bytes for %d input bytes (bound 2*len + 2MiB + 8192*24 + 64KiB)", c.Data, alloc, len(c.Data)), false
	}
	if err != nil {
		return "", false
	}
	var buf bytes.Buffer
	if err := m.MarshalCBOR(&buf); err != nil {
		return fmt.Sprintf("decoded message cannot be re-encoded: %v (input %x)", err, c.Data), true
	}
	var m2 message.Message
	if err := m2.UnmarshalCBOR(bytes.NewReader(buf.Bytes())); err != nil {
		return fmt.Sprintf("re-encoding of a decoded message does not decode: %v (input %x)", err, c.Data), true
	}
	if d := msgEq(m, m2); d != "" {
		return fmt.Sprintf("decode->encode->decode changed %s (input %x)", d, c.Data), true
	}
	return "", true
}

func runDec(c decCase) pbt.Result {
	fail, decoded := decodeChecked(c)
	res := pbt.Result{Fail: fail, Classes: []string{fmt.Sprintf("json=%v", c.JSON)}}
	res.NonTrivial = decoded || (len(c.Data) > 1 && (c.Data[0] == 0x83 || c.Data[0] == 0x84))
	if decoded {
		res.Classes = append(res.Classes, "decoded-ok")
	} else {
		res.Classes = append(res.Classes, "rejected")
	}
	return res
}

func TestC10_Decode(t *testing.T) {
	pbt.Run(t, pbt.Config{Prop: "C10", Unit: "TestC10_Decode", TrackCurrent: true,
		Rule: "decoder input: raw bytes and valid CBOR / JSON encodings with 0..3 mutations (bit flip, truncation, insertion, deletion, insertion or substitution of hostile CBOR headers: byte/text/array lengths 2^63, 2^64-1, 2^40, 2 MiB+-1, 8192+-1, indefinite-length markers, break, null, tag 42); oracle: no panic; error, or a message m with decode(encode(m)) == m; for CBOR the runtime TotalAlloc delta <= 2*len + 2 MiB + 8192*24 + 64 KiB. Non-trivial: decoded successfully or a CBOR input that passes the outer array header; distinct by input.",
	}, genDec, runDec)
}

func FuzzC10_UnmarshalCBOR(f *testing.F) {
	m := message.Message{Cid: cid.MustParse("bafkreiaaaaaaaaaaaaaaaaaaaaaaaaaaaaaaaaaaaaaaaaaaaaaaaaaaaa"), Addrs: [][]byte{multiaddr.StringCast("/ip4/1.2.3.4/tcp/5").Bytes(), nil}, ExtraData: []byte("x")}
	var buf bytes.Buffer
	_ = m.MarshalCBOR(&buf)
	f.Add(buf.Bytes())
	m.OrigPeer = gen.Keys()[0].ID.String()
	buf.Reset()
	_ = m.MarshalCBOR(&buf)
	f.Add(buf.Bytes())
	for _, h := range hostile {
		f.Add(append([]byte{0x83, 0xd8, 0x2a, 0x45, 0, 1, 0x55, 0, 0}, h...))
		f.Add(append([]byte{0x83, 0xd8, 0x2a, 0x45, 0, 1, 0x55, 0, 0, 0x81}, h...))
	}
	f.Fuzz(func(t *testing.T, data []byte) {
		if len(data) > 1<<16 {
			return
		}
		if fail, _ := decodeChecked(decCase{Data: data}); fail != "" {
			t.Fatal(fail)
		}
	})
}
