// Package adgen generates descriptors of advertisements and entry chunks
// (JSON-serialisable, so that a failing case can be replayed) and builds the
// library values from them.
package adgen

import (
	"github.com/ipfs/go-cid"
	cidlink "github.com/ipld/go-ipld-prime/linking/cid"
	"github.com/ipni/go-libipni/ingest/schema"
	"github.com/libp2p/go-libp2p/core/peer"
	"github.com/multiformats/go-multibase"
	"github.com/multiformats/go-multihash"
	"pgregory.net/rapid"

	"verif/h23/gen"
)

type EP struct {
	IDKey    int // key pool index of the identity the entry names
	Addrs    []string
	Metadata []byte
	SignKey  int // key pool index used to sign the entry (C05); == IDKey when correctly keyed
}

type Ad struct {
	HasPrev   bool
	Prev      string
	NoEntries bool
	Entries   string
	Provider  int // key pool index; ad.Provider = its peer ID string
	Signer    int // key pool index of the ad signer
	Addrs     []string
	Metadata  []byte
	ContextID []byte
	IsRm      bool
	HasEP     bool
	Override  bool
	EPs       []EP
	Signature []byte // arbitrary signature bytes (C13 only; C05 signs)
	IDForm    int    // text form of every peer ID in the ad: 0 base58 multihash, 1 CIDv1 base32 ("bafz..."), 2 CIDv1 base36 ("k51...")
}

// IDString renders a peer ID in one of the text forms peer.Decode accepts.
func IDString(id peer.ID, form int) string {
	switch form {
	case 1:
		return peer.ToCid(id).String()
	case 2:
		s, err := peer.ToCid(id).StringOfBase(multibase.Base36)
		if err == nil {
			return s
		}
	}
	return id.String()
}

var addrPool = []string{"/ip4/8.8.8.8/tcp/3003", "/ip6/2606:4700::1/tcp/443/https", "/dns4/provider.example.com/tcp/80/http", "/ip4/1.2.3.4/udp/4001/quic-v1", "/ip4/10.0.0.1/tcp/1", "", "not-a-multiaddr", "/ip4/8.8.8.8/tcp/3003/http/http-path/a%2Fb"}

func genAddrs(t *rapid.T, max int) []string {
	n := rapid.IntRange(0, max).Draw(t, "naddrs")
	var out []string
	if n == 0 && rapid.Bool().Draw(t, "emptynotnil") {
		out = []string{} // present but empty, as opposed to absent
	}
	for i := 0; i < n; i++ {
		out = append(out, rapid.SampledFrom(addrPool).Draw(t, "addr"))
	}
	return out
}

func genMeta(t *rapid.T) []byte {
	switch rapid.IntRange(0, 9).Draw(t, "mdclass") {
	case 0:
		return nil
	case 1:
		return gen.Bytes(schema.MaxMetadataLen, schema.MaxMetadataLen).Draw(t, "mdmax")
	case 2:
		return gen.Bytes(0, schema.MaxMetadataLen).Draw(t, "mdany")
	default:
		return gen.Bytes(0, 24).Draw(t, "md")
	}
}

// GenAd draws an advertisement descriptor. signed=true restricts to what can be
// signed (no removal flag together with extended providers).
func GenAd(signed bool) *rapid.Generator[Ad] {
	return rapid.Custom(func(t *rapid.T) Ad {
		nk := len(gen.Keys())
		a := Ad{HasPrev: rapid.Bool().Draw(t, "hasprev"), NoEntries: rapid.IntRange(0, 3).Draw(t, "noentries") == 0}
		a.Prev = gen.Cid().Draw(t, "prev").String()
		if rapid.IntRange(0, 9).Draw(t, "wellknown-prev") == 4 {
			a.Prev = schema.NoEntries.Cid.String()
		}
		a.Entries = gen.Cid().Draw(t, "entries").String()
		a.Provider = gen.KeyIdx().Draw(t, "provider")
		a.IDForm = rapid.SampledFrom([]int{0, 0, 0, 1, 2}).Draw(t, "idform")
		a.Signer = a.Provider
		if rapid.IntRange(0, 3).Draw(t, "publisher-signs") == 0 {
			a.Signer = gen.KeyIdx().Draw(t, "signer")
		}
		a.Addrs = genAddrs(t, 5)
		a.Metadata = genMeta(t)
		switch rapid.IntRange(0, 5).Draw(t, "ctxclass") {
		case 0:
			a.ContextID = nil
		case 1:
			a.ContextID = gen.Bytes(schema.MaxContextIDLen, schema.MaxContextIDLen).Draw(t, "ctxmax")
		default:
			a.ContextID = gen.Bytes(0, 20).Draw(t, "ctx")
		}
		a.HasEP = rapid.IntRange(0, 2).Draw(t, "hasep") > 0
		if a.HasEP {
			a.Override = rapid.Bool().Draw(t, "override")
			n := rapid.IntRange(0, 4).Draw(t, "neps")
			mainAt := -1
			if n > 0 && rapid.IntRange(0, 5).Draw(t, "main-present") > 0 {
				mainAt = rapid.IntRange(0, n-1).Draw(t, "mainat")
			}
			for i := 0; i < n; i++ {
				e := EP{Addrs: genAddrs(t, 3), Metadata: genMeta(t)}
				if i == mainAt {
					e.IDKey = a.Provider
					// the main provider's own entry often repeats the advertisement's addresses and metadata, or omits them
					switch rapid.IntRange(0, 5).Draw(t, "mainform") {
					case 0, 1:
						e.Addrs, e.Metadata = append([]string(nil), a.Addrs...), append([]byte(nil), a.Metadata...)
					case 2:
						e.Addrs = nil
					case 3:
						e.Metadata = nil
					case 4:
						e.Addrs, e.Metadata = nil, nil
					}
				} else {
					for {
						e.IDKey = rapid.IntRange(0, nk-4).Draw(t, "epkey") // non-RSA identities for speed
						if e.IDKey != a.Provider {
							break
						}
					}
				}
				e.SignKey = e.IDKey
				if e.IDKey == a.Provider {
					e.SignKey = a.Signer
				}
				a.EPs = append(a.EPs, e)
			}
		}
		if !a.HasEP || !signed {
			a.IsRm = rapid.Bool().Draw(t, "isrm")
		}
		if !signed {
			a.Signature = gen.Bytes(0, 80).Draw(t, "sig")
		}
		return a
	})
}

func mustCid(s string) cid.Cid {
	c, err := cid.Decode(s)
	if err != nil {
		panic(err)
	}
	return c
}

// Build constructs the (unsigned) library value.
func (a Ad) Build() *schema.Advertisement {
	keys := gen.Keys()
	ad := &schema.Advertisement{
		Provider:  IDString(keys[a.Provider].ID, a.IDForm),
		Addresses: a.Addrs,
		Metadata:  a.Metadata,
		ContextID: a.ContextID,
		IsRm:      a.IsRm,
		Signature: a.Signature,
	}
	if a.HasPrev {
		ad.PreviousID = cidlink.Link{Cid: mustCid(a.Prev)}
	}
	if a.NoEntries {
		ad.Entries = schema.NoEntries
	} else {
		ad.Entries = cidlink.Link{Cid: mustCid(a.Entries)}
	}
	if a.HasEP {
		ad.ExtendedProvider = &schema.ExtendedProvider{Override: a.Override}
		for _, e := range a.EPs {
			ad.ExtendedProvider.Providers = append(ad.ExtendedProvider.Providers, schema.Provider{ID: IDString(keys[e.IDKey].ID, a.IDForm), Addresses: e.Addrs, Metadata: e.Metadata})
		}
	}
	return ad
}

type Chunk struct {
	Entries [][]byte
	HasNext bool
	Next    string
	Big     int // additional synthetic sha2-256 multihashes (a full-size chunk of an index provider is 16384 entries)
}

func GenChunk() *rapid.Generator[Chunk] {
	return rapid.Custom(func(t *rapid.T) Chunk {
		n := rapid.OneOf(rapid.IntRange(0, 6), rapid.IntRange(0, 200)).Draw(t, "nmh")
		c := Chunk{HasNext: rapid.Bool().Draw(t, "hasnext"), Next: gen.Cid().Draw(t, "next").String()}
		if rapid.IntRange(0, 5).Draw(t, "wellknown-next") == 3 {
			// links with a meaning elsewhere in the schema are still just links here
			c.Next = schema.NoEntries.Cid.String()
		}
		for i := 0; i < n; i++ {
			c.Entries = append(c.Entries, gen.Multihash().Draw(t, "mh"))
		}
		if rapid.IntRange(0, 299).Draw(t, "bigchunk") == 171 { // rare (an interior value of the range)
			c.Big = rapid.SampledFrom([]int{4096, 16384, 30000}).Draw(t, "big")
		}
		return c
	})
}

func (c Chunk) Build() *schema.EntryChunk {
	ch := &schema.EntryChunk{}
	for _, e := range c.Entries {
		ch.Entries = append(ch.Entries, multihash.Multihash(e))
	}
	for i := 0; i < c.Big; i++ {
		mh, _ := multihash.Sum([]byte{byte(i), byte(i >> 8), byte(i >> 16), 0x5c}, multihash.SHA2_256, -1)
		ch.Entries = append(ch.Entries, mh)
	}
	if c.HasNext {
		ch.Next = cidlink.Link{Cid: mustCid(c.Next)}
	}
	return ch
}
