// Package pbt is the glue between the property tests and the driver
// (/verif/lib/driver.py): it runs a generator + oracle pair under rapid (or
// over an enumerated space), counts what was explored, writes an evidence
// fragment, saves the failing case as a replay file and replays such files
// bypassing the generators.
package pbt

import (
	"encoding/json"
	"fmt"
	"hash/fnv"
	"os"
	"path/filepath"
	"runtime/debug"
	"sort"
	"strconv"
	"strings"
	"sync"
	"testing"
	"time"

	"pgregory.net/rapid"
)

// Result is what an oracle returns for one case.
type Result struct {
	Fail       string   // non-empty: the oracle was violated
	NonTrivial bool     // non-trivial by the rule stated in Config.Rule
	Classes    []string // labels counted in the class histogram
	Key        string   // distinctness key (default: JSON of the case)
	Known      string   // id of a known finding this failure matches (then not a failure)
	Skip       bool     // case is outside the domain (counted, not evaluated)
}

func Failf(format string, a ...any) Result { return Result{Fail: fmt.Sprintf(format, a...)} }

// Config names a unit of checking. Unit must equal the name of the test function.
type Config struct {
	Prop         string
	Unit         string
	Rule         string
	Assumptions  []string
	TrackCurrent bool // write the case to a file before running it (crash / hang diagnosis)
}

type fragment struct {
	Property      string            `json:"property"`
	Unit          string            `json:"unit"`
	Shard         int               `json:"shard"`
	Evaluations   int               `json:"evaluations"`
	Skipped       int               `json:"skipped"`
	ExcludedKnown map[string]int    `json:"excluded_known"`
	NonTrivial    int               `json:"nontrivial_evaluations"`
	Hashes        []string          `json:"nontrivial_hashes"`
	Classes       map[string]int    `json:"classes"`
	Samples       []json.RawMessage `json:"samples"`
	Rule          string            `json:"rule"`
	Assumptions   []string          `json:"assumptions"`
	Exhaustive    bool              `json:"exhaustive"`
	SpaceSize     int               `json:"space_size,omitempty"`
	HashCapHit    bool              `json:"hash_cap_hit"`
	Failed        bool              `json:"failed"`
	FailMsg       string            `json:"fail_msg,omitempty"`
	WallS         float64           `json:"wall_s"`
	Extra         map[string]any    `json:"extra,omitempty"`
}

type replayFile struct {
	Property string          `json:"property"`
	Unit     string          `json:"unit"`
	Message  string          `json:"message,omitempty"`
	Case     json.RawMessage `json:"case"`
}

type state struct {
	mu       sync.Mutex
	cfg      Config
	frag     fragment
	hashes   map[uint64]struct{}
	start    time.Time
	lastFail json.RawMessage
	lastMsg  string
	seen     int
	extra    map[string]any
}

func outDir() string {
	d := os.Getenv("VERIF_OUT")
	if d == "" {
		d = os.TempDir()
	}
	return d
}

func shard() (int, int) {
	s, _ := strconv.Atoi(os.Getenv("VERIF_SHARD"))
	n, _ := strconv.Atoi(os.Getenv("VERIF_NSHARDS"))
	if n <= 0 {
		n = 1
	}
	return s, n
}

// per shard; beyond it distinct_nontrivial becomes a lower bound (the driver says so in the evidence)
const maxHashes = 500_000

func (s *state) record(caseJSON func() []byte, r Result) {
	s.mu.Lock()
	defer s.mu.Unlock()
	if r.Skip {
		s.frag.Skipped++
		return
	}
	s.frag.Evaluations++
	for _, c := range r.Classes {
		s.frag.Classes[c]++
	}
	if r.Known != "" {
		s.frag.ExcludedKnown[r.Known]++
	}
	var js []byte
	if r.NonTrivial {
		s.frag.NonTrivial++
		if len(s.hashes) >= maxHashes {
			s.frag.HashCapHit = true
		}
		if len(s.hashes) < maxHashes {
			h := fnv.New64a()
			if r.Key != "" {
				h.Write([]byte(r.Key))
			} else {
				js = caseJSON()
				h.Write(js)
			}
			s.hashes[h.Sum64()] = struct{}{}
		}
	}
	// samples: first three, then three spread by doubling intervals.
	s.seen++
	take := s.seen <= 3 || (s.seen&(s.seen-1)) == 0
	if take && (r.NonTrivial || s.seen <= 3) {
		if js == nil {
			js = caseJSON()
		}
		sm := sample(js, r)
		if len(s.frag.Samples) < 3 {
			s.frag.Samples = append(s.frag.Samples, sm)
		} else if len(s.frag.Samples) < 6 {
			s.frag.Samples = append(s.frag.Samples, sm)
		} else {
			s.frag.Samples[3+(s.seen%3)] = sm
		}
	}
}

func sample(js []byte, r Result) json.RawMessage {
	if len(js) > 1500 {
		b, _ := json.Marshal(map[string]any{"truncated_case_json": string(js[:1500]), "classes": r.Classes, "nontrivial": r.NonTrivial})
		return b
	}
	b, _ := json.Marshal(map[string]any{"case": json.RawMessage(js), "classes": r.Classes, "nontrivial": r.NonTrivial})
	return b
}

func (s *state) flush(t *testing.T) {
	s.mu.Lock()
	defer s.mu.Unlock()
	sh, _ := shard()
	s.frag.Shard = sh
	s.frag.WallS = time.Since(s.start).Seconds()
	s.frag.Hashes = s.frag.Hashes[:0]
	for h := range s.hashes {
		s.frag.Hashes = append(s.frag.Hashes, strconv.FormatUint(h, 16))
	}
	sort.Strings(s.frag.Hashes)
	s.frag.Failed = s.lastFail != nil
	s.frag.FailMsg = s.lastMsg
	s.frag.Extra = s.extra
	b, _ := json.Marshal(s.frag)
	base := filepath.Join(outDir(), fmt.Sprintf("%s.%s.%d", s.cfg.Prop, s.cfg.Unit, sh))
	_ = os.WriteFile(base+".frag.json", b, 0o644)
	if s.lastFail != nil {
		rb, _ := json.MarshalIndent(replayFile{Property: s.cfg.Prop, Unit: s.cfg.Unit, Message: s.lastMsg, Case: s.lastFail}, "", " ")
		_ = os.WriteFile(base+".fail.json", rb, 0o644)
	}
}

func newState(cfg Config) *state {
	return &state{cfg: cfg, hashes: map[uint64]struct{}{}, start: time.Now(), extra: map[string]any{},
		frag: fragment{Property: cfg.Prop, Unit: cfg.Unit, Rule: cfg.Rule, Assumptions: cfg.Assumptions,
			Classes: map[string]int{}, ExcludedKnown: map[string]int{}}}
}

// guarded runs the oracle and converts a panic on the calling goroutine into a
// failure that carries the stack.
func guarded[C any](run func(C) Result, c C) (r Result) {
	defer func() {
		if p := recover(); p != nil {
			r = Result{Fail: fmt.Sprintf("panic: %v\n%s", p, debug.Stack()), NonTrivial: true, Classes: []string{"panic"}}
		}
	}()
	return run(c)
}

func (s *state) trackCurrent(js []byte) {
	sh, _ := shard()
	rb, _ := json.Marshal(replayFile{Property: s.cfg.Prop, Unit: s.cfg.Unit, Message: "case in progress when the worker died", Case: js})
	_ = os.WriteFile(filepath.Join(outDir(), fmt.Sprintf("%s.%s.%d.current.json", s.cfg.Prop, s.cfg.Unit, sh)), rb, 0o644)
}

func (s *state) one(run func(any) Result, c any) Result {
	var js []byte
	cj := func() []byte {
		if js == nil {
			js, _ = json.Marshal(c)
		}
		return js
	}
	if s.cfg.TrackCurrent {
		s.trackCurrent(cj())
	}
	r := guarded(run, c)
	if r.Fail != "" && r.Known != "" {
		r.Fail = ""
	}
	s.record(cj, r)
	if r.Fail != "" {
		s.mu.Lock()
		// keep the smallest failing rendering seen (rapid re-runs the shrunk case last)
		if s.lastFail == nil || len(cj()) <= len(s.lastFail) {
			s.lastFail = append(json.RawMessage(nil), cj()...)
			s.lastMsg = r.Fail
		}
		s.mu.Unlock()
	}
	return r
}

// replayMode reports whether this process replays a saved case, and if so
// whether it is addressed to this unit.
func replayMode[C any](t *testing.T, cfg Config, run func(C) Result) bool {
	p := os.Getenv("VERIF_REPLAY")
	if p == "" {
		return false
	}
	b, err := os.ReadFile(p)
	if err != nil {
		t.Fatalf("replay: %v", err)
	}
	var rf replayFile
	if err := json.Unmarshal(b, &rf); err != nil {
		t.Fatalf("replay: %v", err)
	}
	if rf.Unit != cfg.Unit {
		t.Skip("replay addressed to another unit")
	}
	var c C
	if err := json.Unmarshal(rf.Case, &c); err != nil {
		t.Fatalf("replay: bad case: %v", err)
	}
	r := guarded(run, c)
	if r.Fail != "" {
		fmt.Printf("REPLAY-FAIL unit=%s known=%q\n%s\n", cfg.Unit, r.Known, r.Fail)
		t.Fatalf("replayed case violates the oracle")
	}
	fmt.Printf("REPLAY-PASS unit=%s\n", cfg.Unit)
	return true
}

// Run checks run(gen()) on rapid-generated cases.
func Run[C any](t *testing.T, cfg Config, gen func(*rapid.T) C, run func(C) Result) {
	if cfg.Unit == "" {
		cfg.Unit = t.Name()
	}
	if replayMode(t, cfg, run) {
		return
	}
	s := newState(cfg)
	t.Cleanup(func() { s.flush(t) })
	anyRun := func(c any) Result { return run(c.(C)) }
	rapid.Check(t, func(rt *rapid.T) {
		c := gen(rt)
		r := s.one(anyRun, c)
		if r.Fail != "" {
			rt.Fatalf("%s", r.Fail)
		}
	})
}

// RunEnum checks run on every case of an enumerated finite space. The space is
// split across shards by index. each must call yield for every case, in a
// deterministic order, smallest cases first.
func RunEnum[C any](t *testing.T, cfg Config, each func(yield func(C) bool), run func(C) Result) {
	if cfg.Unit == "" {
		cfg.Unit = t.Name()
	}
	if replayMode(t, cfg, run) {
		return
	}
	s := newState(cfg)
	s.frag.Exhaustive = true
	t.Cleanup(func() { s.flush(t) })
	sh, n := shard()
	anyRun := func(c any) Result { return run(c.(C)) }
	i := 0
	var failed *Result
	each(func(c C) bool {
		idx := i
		i++
		if idx%n != sh {
			return true
		}
		r := s.one(anyRun, c)
		if r.Fail != "" {
			failed = &r
			return false
		}
		return true
	})
	s.frag.SpaceSize = i
	if failed != nil {
		t.Fatalf("%s", failed.Fail)
	}
	fmt.Printf("ENUM-OK unit=%s space=%d shard=%d/%d\n", cfg.Unit, i, sh, n)
}

// Note attaches a free-form measured value to the evidence fragment of the
// unit that is currently running (keyed by name; last write wins).
var (
	notesMu sync.Mutex
	notes   = map[string]any{}
)

// Hex renders bytes for failure messages.
func Hex(b []byte) string {
	const hexd = "0123456789abcdef"
	var sb strings.Builder
	for _, x := range b {
		sb.WriteByte(hexd[x>>4])
		sb.WriteByte(hexd[x&15])
	}
	return sb.String()
}

// IsKnown reports whether id is listed as an open known finding for the
// property being checked (the driver passes the ids from KNOWN_FINDINGS.txt).
func IsKnown(id string) bool {
	for _, k := range strings.Split(os.Getenv("VERIF_KNOWN"), ",") {
		if k == id && id != "" {
			return true
		}
	}
	return false
}

// Tier returns "quick" or "thorough" (default quick).
func Tier() string {
	if os.Getenv("VERIF_TIER") == "thorough" {
		return "thorough"
	}
	return "quick"
}
