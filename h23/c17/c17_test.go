package c17

import (
	"bytes"
	"context"
	"encoding/json"
	"fmt"
	"testing"
	"unicode/utf8"

	"github.com/ipni/go-libipni/find/model"
	"github.com/ipni/go-libipni/pcache"
	"github.com/libp2p/go-libp2p/core/peer"
	"github.com/multiformats/go-multiaddr"
	"pgregory.net/rapid"

	"verif/h23/gen"
	"verif/h23/pbt"
)

// md describes one metadata list element: kind in {nil, empty, same (as looked up), own}.
type xp struct {
	Peer int    // key pool index; 0 is the main provider
	MD   string // nil | empty | same | own
	Own  []byte
}

type xset struct {
	ContextID []byte
	Override  bool
	Providers []xp
	MDLen     int // length of the metadata list: -1 = nil list, otherwise may be shorter/longer than Providers
}

type recCase struct {
	HasExt     bool
	Chain      xset
	Contextual []xset
	LookupCtx  []byte
	LookupMD   []byte // nil allowed
	JSON       bool   // pass the record through a JSON round trip first (how it arrives from an indexer)
}

func genXP(t *rapid.T) xp {
	p := xp{Peer: rapid.IntRange(0, 4).Draw(t, "peer"), MD: rapid.SampledFrom([]string{"nil", "empty", "same", "own", "own"}).Draw(t, "mdkind")}
	if p.MD == "own" {
		p.Own = gen.Bytes(1, 12).Draw(t, "ownmd")
	}
	return p
}

func genSet(t *rapid.T, maxN int) xset {
	n := rapid.IntRange(0, maxN).Draw(t, "nprov")
	s := xset{Override: rapid.Bool().Draw(t, "override")}
	for i := 0; i < n; i++ {
		s.Providers = append(s.Providers, genXP(t))
	}
	switch rapid.IntRange(0, 5).Draw(t, "mdlen") {
	case 0:
		s.MDLen = -1
	case 1:
		s.MDLen = rapid.IntRange(0, n).Draw(t, "short")
	case 2:
		s.MDLen = n + rapid.IntRange(1, 2).Draw(t, "long")
	default:
		s.MDLen = n
	}
	return s
}

func genRec(t *rapid.T) recCase {
	c := recCase{HasExt: rapid.IntRange(0, 9).Draw(t, "hasext") > 0, JSON: rapid.Bool().Draw(t, "json")}
	c.Chain = genSet(t, 4)
	nc := rapid.IntRange(0, 3).Draw(t, "nctx")
	ids := [][]byte{[]byte("ctx-a"), []byte("ctx-b"), {0xff, 0x00, 0x01}, []byte(""), []byte("crab"), []byte("abcd1234")} // the last two read as base64 too
	off := rapid.IntRange(0, len(ids)-1).Draw(t, "ctxoff")
	for i := 0; i < nc; i++ {
		s := genSet(t, 3)
		s.ContextID = ids[(off+i)%len(ids)]
		c.Contextual = append(c.Contextual, s)
	}
	if nc > 0 && rapid.IntRange(0, 3).Draw(t, "hitctx") > 0 {
		c.LookupCtx = c.Contextual[rapid.IntRange(0, nc-1).Draw(t, "which")].ContextID
	} else {
		c.LookupCtx = rapid.SampledFrom([][]byte{[]byte("other"), {}, []byte("ctx-b")}).Draw(t, "missctx")
	}
	if rapid.IntRange(0, 5).Draw(t, "nilmd") == 0 {
		c.LookupMD = nil
	} else {
		c.LookupMD = gen.Bytes(1, 12).Draw(t, "lookupmd")
	}
	return c
}

func addrInfo(i int) peer.AddrInfo {
	a, _ := multiaddr.NewMultiaddr(fmt.Sprintf("/ip4/8.8.4.%d/tcp/%d", i+1, 3000+i))
	return peer.AddrInfo{ID: gen.Keys()[i].ID, Addrs: []multiaddr.Multiaddr{a}}
}

func (s xset) lists(lookupMD []byte) ([]peer.AddrInfo, [][]byte) {
	var ps []peer.AddrInfo
	for _, p := range s.Providers {
		ps = append(ps, addrInfo(p.Peer))
	}
	if s.MDLen < 0 {
		return ps, nil
	}
	mds := make([][]byte, s.MDLen)
	for i := range mds {
		if i >= len(s.Providers) {
			mds[i] = []byte("extra")
			continue
		}
		mds[i] = s.Providers[i].md(lookupMD)
	}
	return ps, mds
}

func (p xp) md(lookupMD []byte) []byte {
	switch p.MD {
	case "nil":
		return nil
	case "empty":
		return []byte{}
	case "same":
		if lookupMD == nil {
			return nil
		}
		return append([]byte(nil), lookupMD...)
	}
	return p.Own
}

type fakeSource struct{ infos []*model.ProviderInfo }

func (f *fakeSource) Fetch(_ context.Context, pid peer.ID) (*model.ProviderInfo, error) {
	for _, i := range f.infos {
		if i.AddrInfo.ID == pid {
			return i, nil
		}
	}
	return nil, nil
}
func (f *fakeSource) FetchAll(context.Context) ([]*model.ProviderInfo, error) { return f.infos, nil }
func (f *fakeSource) String() string                                          { return "fake" }

type result struct {
	Ctx, MD []byte
	ID      peer.ID
	Addrs   string
}

// spec is the reference written from the property statement.
func spec(c recCase) []result {
	main := addrInfo(0)
	mk := func(ai peer.AddrInfo, md []byte) result {
		return result{Ctx: c.LookupCtx, MD: md, ID: ai.ID, Addrs: fmt.Sprint(ai.Addrs)}
	}
	out := []result{mk(main, c.LookupMD)}
	if !c.HasExt {
		return out
	}
	expand := func(s xset) {
		for i, p := range s.Providers {
			var own []byte
			if s.MDLen >= 0 && i < s.MDLen {
				own = p.md(c.LookupMD)
			}
			if p.Peer == 0 && (len(own) == 0 || bytes.Equal(own, c.LookupMD)) {
				continue // the provider's own entry adds no new metadata
			}
			if len(own) == 0 {
				own = c.LookupMD
			}
			out = append(out, mk(addrInfo(p.Peer), own))
		}
	}
	override := false
	for _, s := range c.Contextual {
		if bytes.Equal(s.ContextID, c.LookupCtx) {
			override = s.Override
			expand(s)
		}
	}
	if !override {
		expand(c.Chain)
	}
	return out
}

func runRec(c recCase) pbt.Result {
	res := pbt.Result{}
	info := &model.ProviderInfo{AddrInfo: addrInfo(0)}
	mismatch, ctxHit := false, false
	if c.HasExt {
		ep := &model.ExtendedProviders{}
		ep.Providers, ep.Metadatas = c.Chain.lists(c.LookupMD)
		mismatch = mismatch || len(ep.Metadatas) != len(ep.Providers)
		for _, s := range c.Contextual {
			ps, mds := s.lists(c.LookupMD)
			mismatch = mismatch || len(mds) != len(ps)
			ep.Contextual = append(ep.Contextual, model.ContextualExtendedProviders{Override: s.Override, ContextID: string(s.ContextID), Providers: ps, Metadatas: mds})
			if bytes.Equal(s.ContextID, c.LookupCtx) {
				ctxHit = true
				if s.Override {
					res.Classes = append(res.Classes, "override")
				}
			}
		}
		info.ExtendedProviders = ep
	}
	if mismatch {
		res.Classes = append(res.Classes, "list-length-mismatch")
	}
	if ctxHit {
		res.Classes = append(res.Classes, "context-hit")
	}
	if c.JSON {
		res.Classes = append(res.Classes, "json-roundtrip")
		b, err := json.Marshal(info)
		if err != nil {
			return merge(res, pbt.Failf("marshal record: %v", err))
		}
		info = &model.ProviderInfo{}
		if err := json.Unmarshal(b, info); err != nil {
			return merge(res, pbt.Failf("unmarshal record: %v", err))
		}
		// a context ID that is valid text arrives unchanged (only byte strings that are not valid UTF-8 are
		// altered by JSON itself)
		if info.ExtendedProviders != nil {
			for i, x := range info.ExtendedProviders.Contextual {
				if i < len(c.Contextual) && utf8.Valid(c.Contextual[i].ContextID) && x.ContextID != string(c.Contextual[i].ContextID) {
					return merge(res, pbt.Failf("the contextual set with context ID %q arrives from its JSON form with context ID %q: lookups for the published context ID no longer find it", c.Contextual[i].ContextID, x.ContextID))
				}
			}
		}
		// JSON turns empty lists and empty byte strings into nil/empty differently; the
		// specification works on what the source delivers, so rebuild the case view from it.
		c = reread(c, info)
	}
	res.NonTrivial = c.HasExt && ((ctxHit && len(c.Chain.Providers) > 0) || mismatch)
	src := &fakeSource{infos: []*model.ProviderInfo{info}}
	pc, err := pcache.New(pcache.WithSource(src), pcache.WithPreload(true), pcache.WithRefreshInterval(0))
	if err != nil {
		return merge(res, pbt.Failf("pcache.New: %v", err))
	}
	got, err := pc.GetResults(context.Background(), addrInfo(0).ID, c.LookupCtx, c.LookupMD)
	if err != nil {
		res.Classes = append(res.Classes, "returned-error")
		return res // "results or an error, never a panic"
	}
	want := spec(c)
	if len(got) != len(want) {
		return merge(res, pbt.Failf("GetResults returned %d results, specification %d\n got: %s\nwant: %s\ncase: %+v", len(got), len(want), render(got), renderWant(want), c))
	}
	for i := range got {
		g := got[i]
		if g.Provider == nil || !bytes.Equal(g.ContextID, want[i].Ctx) || !bytes.Equal(g.Metadata, want[i].MD) || g.Provider.ID != want[i].ID || fmt.Sprint(g.Provider.Addrs) != want[i].Addrs {
			return merge(res, pbt.Failf("GetResults result %d differs\n got: %s\nwant: %s\ncase: %+v", i, render(got), renderWant(want), c))
		}
	}
	if c.HasExt && len(c.Contextual) > 0 && !c.JSON {
		// the provider publishes a newer advertisement whose contextual sets changed (override flipped, providers
		// in reverse order); like the first record it carries no advertisement CID, only a later time
		c3 := c
		c3.Contextual = nil
		ep := &model.ExtendedProviders{}
		ep.Providers, ep.Metadatas = c.Chain.lists(c.LookupMD)
		for _, s := range c.Contextual {
			s3 := xset{ContextID: s.ContextID, Override: !s.Override, MDLen: s.MDLen}
			for i := len(s.Providers) - 1; i >= 0; i-- {
				s3.Providers = append(s3.Providers, s.Providers[i])
			}
			c3.Contextual = append(c3.Contextual, s3)
			ps, mds := s3.lists(c.LookupMD)
			ep.Contextual = append(ep.Contextual, model.ContextualExtendedProviders{Override: s3.Override, ContextID: string(s3.ContextID), Providers: ps, Metadatas: mds})
		}
		src.infos = []*model.ProviderInfo{{AddrInfo: info.AddrInfo, LastAdvertisementTime: "2030-03-03T03:03:03Z", ExtendedProviders: ep}}
		if err := pc.Refresh(context.Background()); err != nil {
			return merge(res, pbt.Failf("Refresh: %v", err))
		}
		got3, err := pc.GetResults(context.Background(), addrInfo(0).ID, c.LookupCtx, c.LookupMD)
		want3 := spec(c3)
		if err != nil || len(got3) != len(want3) {
			return merge(res, pbt.Failf("after a refresh that delivered a newer record with changed contextual sets GetResults returned %d results (err %v), specification %d\n got: %s\nwant: %s\ncase: %+v", len(got3), err, len(want3), render(got3), renderWant(want3), c))
		}
		for i := range got3 {
			g := got3[i]
			if g.Provider == nil || !bytes.Equal(g.ContextID, want3[i].Ctx) || !bytes.Equal(g.Metadata, want3[i].MD) || g.Provider.ID != want3[i].ID || fmt.Sprint(g.Provider.Addrs) != want3[i].Addrs {
				return merge(res, pbt.Failf("after a refresh that delivered a newer record with changed contextual sets (override flipped, providers reversed) GetResults result %d differs\n got: %s\nwant: %s\ncase: %+v", i, render(got3), renderWant(want3), c))
			}
		}
		res.Classes = append(res.Classes, "refresh-changed-contextual")
	}
	if c.HasExt {
		// the provider publishes a newer advertisement without any extended providers: after the refresh the
		// expansion follows the record now current
		src.infos = []*model.ProviderInfo{{AddrInfo: info.AddrInfo, LastAdvertisementTime: "2031-05-05T05:05:05Z"}}
		if err := pc.Refresh(context.Background()); err != nil {
			return merge(res, pbt.Failf("Refresh: %v", err))
		}
		c2 := c
		c2.HasExt = false
		got2, err := pc.GetResults(context.Background(), addrInfo(0).ID, c.LookupCtx, c.LookupMD)
		want2 := spec(c2)
		if err != nil || len(got2) != len(want2) {
			return merge(res, pbt.Failf("after a refresh that delivered a newer record without extended providers GetResults returned %d results (err %v), specification %d\n got: %s\nwant: %s", len(got2), err, len(want2), render(got2), renderWant(want2)))
		}
		for i := range got2 {
			g := got2[i]
			if g.Provider == nil || !bytes.Equal(g.Metadata, want2[i].MD) || g.Provider.ID != want2[i].ID {
				return merge(res, pbt.Failf("after the refresh GetResults result %d differs\n got: %s\nwant: %s", i, render(got2), renderWant(want2)))
			}
		}
	}
	return res
}

// reread adjusts the metadata kinds of the case to what survived the JSON round trip
// (an empty non-nil byte string may come back as nil or empty; both are "none of its own").
func reread(c recCase, info *model.ProviderInfo) recCase {
	fix := func(s *xset, ps []peer.AddrInfo, mds [][]byte) {
		if mds == nil {
			s.MDLen = -1
		} else {
			s.MDLen = len(mds)
		}
		if len(ps) != len(s.Providers) {
			s.Providers = s.Providers[:len(ps)]
		}
	}
	if info.ExtendedProviders == nil {
		c.HasExt = false
		return c
	}
	fix(&c.Chain, info.ExtendedProviders.Providers, info.ExtendedProviders.Metadatas)
	for i := range c.Contextual {
		if i < len(info.ExtendedProviders.Contextual) {
			x := info.ExtendedProviders.Contextual[i]
			fix(&c.Contextual[i], x.Providers, x.Metadatas)
			c.Contextual[i].ContextID = []byte(x.ContextID)
		}
	}
	c.Contextual = c.Contextual[:len(info.ExtendedProviders.Contextual)]
	return c
}

func render(rs []model.ProviderResult) string {
	s := ""
	for _, r := range rs {
		id := "<nil>"
		if r.Provider != nil {
			id = r.Provider.ID.String()[len(r.Provider.ID.String())-6:]
		}
		s += fmt.Sprintf("{ctx=%q md=%v id=%s} ", r.ContextID, r.Metadata, id)
	}
	return s
}

func renderWant(rs []result) string {
	s := ""
	for _, r := range rs {
		s += fmt.Sprintf("{ctx=%q md=%v id=%s} ", r.Ctx, r.MD, r.ID.String()[len(r.ID.String())-6:])
	}
	return s
}

func merge(base, f pbt.Result) pbt.Result {
	base.Fail = f.Fail
	return base
}

func TestC17_Expand(t *testing.T) {
	pbt.Run(t, pbt.Config{Prop: "C17", Unit: "TestC17_Expand",
		Rule:        "provider records with 0..4 chain-level and 0..3 contextual sets (0..3 providers each, override on/off), per-entry metadata nil / empty / equal to the looked-up metadata / own, main provider present or absent in either list, metadata lists nil / shorter / equal / longer than provider lists, looked-up context hitting or missing a set, looked-up metadata nil or bytes, optionally passed through a JSON round trip; served by a fake ProviderSource to a real ProviderCache; oracle: element-wise equality with a specification function written from the statement, any panic is a violation; context IDs that are valid text survive the JSON form unchanged; after a refresh that delivers a newer record with changed contextual sets, and after one that delivers a record without extended providers, the expansion follows the record now current. Non-trivial: a contextual set matches and chain-level entries exist, or a list-length mismatch; distinct by case.",
		Assumptions: []string{"contextual sets have distinct context IDs", "context ID strings that are not valid UTF-8 are re-read from the JSON round trip before the specification is applied"},
	}, genRec, runRec)
}
