package c09p

import (
	"os"
	"bytes"
	"context"
	"fmt"
	"sync"
	"testing"
	"time"

	"github.com/ipfs/go-cid"
	"github.com/ipni/go-libipni/announce"
	"github.com/ipni/go-libipni/announce/message"
	"github.com/ipni/go-libipni/announce/p2psender"
	dstest "github.com/ipni/go-libipni/dagsync/test"
	pubsub "github.com/libp2p/go-libp2p-pubsub"
	"github.com/libp2p/go-libp2p/core/host"
	"github.com/libp2p/go-libp2p/core/peer"
	"github.com/multiformats/go-multiaddr"
	"github.com/multiformats/go-multihash"
	"pgregory.net/rapid"

	"verif/h23/gen"
	"verif/h23/pbt"
)

// Pubsub path of the receiver with three real libp2p hosts on loopback:
// A runs receiver R1 (re-publishing direct announcements), B runs receiver R2, C is a publisher.

type op struct {
	Kind string // pub | direct | selfrepub | dup
	Cid  int    // case-local CID number
	Peer int    // key pool index of the (original) publisher named in direct / selfrepub
	Addr bool
}

type Case struct {
	Ops []op
}

func genCase(t *rapid.T) Case {
	n := rapid.IntRange(1, 6).Draw(t, "nops")
	var c Case
	next := 0
	for i := 0; i < n; i++ {
		o := op{Kind: rapid.SampledFrom([]string{"pub", "direct", "direct", "selfrepub", "selfrepub", "dup"}).Draw(t, "kind"), Peer: rapid.IntRange(0, 5).Draw(t, "peer"), Addr: rapid.Bool().Draw(t, "addr")}
		if o.Kind == "dup" && next > 0 {
			o.Cid = rapid.IntRange(0, next-1).Draw(t, "dupof")
		} else {
			if o.Kind == "dup" {
				o.Kind = "pub"
			}
			o.Cid = next
			next++
		}
		c.Ops = append(c.Ops, o)
	}
	return c
}

var (
	meshOnce sync.Once
	hosts    []host.Host
	topics   []*pubsub.Topic
	meshErr  string
	caseSeq  int
	r1, r2   *announce.Receiver // long-lived: re-subscribing per case would race with subscription gossip
	r3       *announce.Receiver // on host B like r2, with an allow filter
	r4       *announce.Receiver // on host B, with address filtering on
	snd      *p2psender.Sender
)

const topicName = "/verif/c09/announce"

func mesh(t *testing.T) {
	meshOnce.Do(func() {
		for i := 0; i < 3; i++ {
			hosts = append(hosts, dstest.MkTestHost(t))
		}
		topics = dstest.WaitForMeshWithMessage(t, topicName, hosts...)
		if topics == nil {
			meshErr = "mesh did not form"
			return
		}
		var err error
		if r1, err = announce.NewReceiver(hosts[0], "", announce.WithTopic(topics[0]), announce.WithResend(true)); err != nil {
			meshErr = err.Error()
			return
		}
		if r2, err = announce.NewReceiver(hosts[1], "", announce.WithTopic(topics[1])); err != nil {
			meshErr = err.Error()
			return
		}
		if r3, err = announce.NewReceiver(hosts[1], "", announce.WithTopic(topics[1]), announce.WithAllowPeer(allow3)); err != nil {
			meshErr = err.Error()
			return
		}
		if r4, err = announce.NewReceiver(hosts[1], "", announce.WithTopic(topics[1]), announce.WithFilterIPs(true)); err != nil {
			meshErr = err.Error()
			return
		}
		if snd, err = p2psender.New(nil, "", p2psender.WithTopic(topics[2])); err != nil {
			meshErr = err.Error()
			return
		}
		// warm-up: publish until both receivers have seen a message from C (their subscriptions are known to C)
		seen := [2]bool{}
		for i := 0; i < 200 && !(seen[0] && seen[1]); i++ {
			_ = snd.Send(context.Background(), message.Message{Cid: cidFor(-1, i)})
			for k, r := range []*announce.Receiver{r1, r2} {
				ctx, cancel := context.WithTimeout(context.Background(), 50*time.Millisecond)
				for {
					if _, err := r.Next(ctx); err != nil {
						break
					}
					seen[k] = true
				}
				cancel()
			}
		}
		if !(seen[0] && seen[1]) {
			meshErr = "receivers never saw the publisher"
		}
		t.Cleanup(func() { r1.Close(); r2.Close(); r3.Close(); r4.Close() })
	})
}

// allow3 is R3's filter: the relay host A and two of the six original publishers are not allowed. A message
// re-published by A for an allowed original publisher must pass (the filter applies to the original publisher).
func allow3(p peer.ID) bool {
	if len(hosts) > 0 && p == hosts[0].ID() {
		return false
	}
	keys := gen.Keys()
	return p != keys[4].ID && p != keys[5].ID
}

func cidFor(caseNo, n int) cid.Cid {
	mh, _ := multihash.Sum([]byte(fmt.Sprintf("c09p-%d-%d-%d", time.Now().UnixNano()/1e12, caseNo, n)), multihash.SHA2_256, -1)
	return cid.NewCidV1(cid.DagJSON, mh)
}

type delivery struct {
	Cid  string
	Peer peer.ID
}

// collect reads announcements until both sentinels (one per publishing host) arrived, or the budget is spent.
func collect(r *announce.Receiver, sentinels []cid.Cid, mine map[string]bool, budget time.Duration) (got []delivery, sawSentinels bool) {
	ctx, cancel := context.WithTimeout(context.Background(), budget)
	defer cancel()
	left := map[cid.Cid]bool{}
	for _, s := range sentinels {
		left[s] = true
	}
	for len(left) > 0 {
		a, err := r.Next(ctx)
		if err != nil {
			return got, false
		}
		if left[a.Cid] {
			delete(left, a.Cid)
			continue
		}
		if mine[a.Cid.String()] {
			got = append(got, delivery{a.Cid.String(), a.PeerID})
		}
	}
	return got, true
}

func runCase(t *testing.T) func(Case) pbt.Result {
	return func(c Case) (res pbt.Result) {
		mesh(t)
		if meshErr != "" {
			return pbt.Result{Skip: true}
		}
		caseSeq++
		caseNo := caseSeq
		keys := gen.Keys()
		C := hosts[2]
		ctx := context.Background()
		mine := map[string]bool{}
		for _, o := range c.Ops {
			mine[cidFor(caseNo, o.Cid).String()] = true
		}
		want1, want2 := map[delivery]bool{}, map[delivery]bool{}
		never1 := map[string]string{} // cid -> why R1 must not deliver it
		seen := map[int]bool{}
		withAddr := map[string]bool{} // CIDs every announcement of which carried the address list
		for _, o := range c.Ops {
			k := cidFor(caseNo, o.Cid).String()
			if _, ok := withAddr[k]; !ok {
				withAddr[k] = true
			}
			withAddr[k] = withAddr[k] && o.Addr
		}
		addr := multiaddr.StringCast("/ip4/8.8.8.8/tcp/4001")
		nonPublic := []multiaddr.Multiaddr{multiaddr.StringCast("/ip4/10.1.2.3/tcp/4001"), multiaddr.StringCast("/ip4/127.0.0.1/tcp/4001"), multiaddr.StringCast("/ip4/0.0.0.0/tcp/4001")}
		// R1 and R2 must be consuming while messages flow (the delivery slot holds one message)
		sentinels := []cid.Cid{cidFor(caseNo, 1000), cidFor(caseNo, 1001)}
		var got1, got2 []delivery
		var ok1, ok2 bool
		var wg sync.WaitGroup
		wg.Add(2)
		go func() { defer wg.Done(); got1, ok1 = collect(r1, sentinels, mine, 20*time.Second) }()
		go func() { defer wg.Done(); got2, ok2 = collect(r2, sentinels, mine, 20*time.Second) }()
		// R3 shares host B's pubsub with R2: both subscriptions are fed the same messages in the same order. Its
		// window is closed by a flush message that C publishes after R2 has seen both sentinels (A's sentinel
		// does not pass R3's filter): when R3 delivers the flush, it has processed everything R2 saw.
		flush := cidFor(caseNo, 1002)
		var got3 []delivery
		var ok3 bool
		// R4 (address filtering on) sees every sender's sentinel: same window rule as R1 / R2
		type addrDelivery struct {
			Cid   string
			Addrs []multiaddr.Multiaddr
		}
		var got4 []addrDelivery
		done4 := make(chan struct{})
		go func() {
			defer close(done4)
			ctx4, cancel4 := context.WithTimeout(context.Background(), 20*time.Second)
			defer cancel4()
			left := map[cid.Cid]bool{sentinels[0]: true, sentinels[1]: true}
			for len(left) > 0 {
				a, err := r4.Next(ctx4)
				if err != nil {
					return
				}
				if left[a.Cid] {
					delete(left, a.Cid)
					continue
				}
				if mine[a.Cid.String()] {
					got4 = append(got4, addrDelivery{a.Cid.String(), a.Addrs})
				}
			}
		}()
		done3 := make(chan struct{})
		go func() { defer close(done3); got3, ok3 = collect(r3, []cid.Cid{flush}, mine, 40*time.Second) }()
		for i, o := range c.Ops {
			ci := cidFor(caseNo, o.Cid)
			res.Classes = append(res.Classes, "op="+o.Kind)
			var addrs []multiaddr.Multiaddr
			if o.Addr {
				addrs = []multiaddr.Multiaddr{nonPublic[i%3], addr, nonPublic[(i+1)%3]}
			}
			switch o.Kind {
			case "pub", "dup":
				msg := message.Message{Cid: ci}
				msg.SetAddrs(addrs)
				if err := snd.Send(ctx, msg); err != nil {
					return pbt.Failf("op %d: p2psender.Send: %v", i, err)
				}
				// a repeated CID may reach a receiver before or after the first announcement of it travelled
				// another path: either announcer is an acceptable attribution (still delivered once)
				want1[delivery{ci.String(), C.ID()}] = true
				want2[delivery{ci.String(), C.ID()}] = true
			case "direct":
				// handed to R1 directly: R1 delivers it and re-publishes it for the original publisher
				p := keys[o.Peer].ID
				if err := r1.Direct(ctx, ci, peer.AddrInfo{ID: p, Addrs: addrs}); err != nil {
					return pbt.Failf("op %d: Direct: %v", i, err)
				}
				want1[delivery{ci.String(), p}] = true
				want2[delivery{ci.String(), p}] = true // attributed to the original publisher, not to relay A
			case "selfrepub":
				// a re-publication that host A itself put on the topic: R1 (on A) ignores it, R2 attributes it to the original publisher
				p := keys[o.Peer].ID
				m := message.Message{Cid: ci, OrigPeer: p.String()}
				m.SetAddrs(addrs)
				var buf bytes.Buffer
				if err := m.MarshalCBOR(&buf); err != nil {
					return pbt.Failf("marshal: %v", err)
				}
				if err := topics[0].Publish(ctx, buf.Bytes()); err != nil {
					return pbt.Failf("op %d: publish from A: %v", i, err)
				}
				never1[ci.String()] = "it is the receiver's own re-publication (and nobody else announced it for that publisher)"
				want2[delivery{ci.String(), p}] = true
			}
			seen[o.Cid] = true
		}
		// sentinel from C closes the observation window
		// gossipsub validates messages concurrently, so even one sender's messages may be reordered; a short
		// real-time pause only reduces how many cases end up inconclusive, it decides nothing
		time.Sleep(15 * time.Millisecond)
		// one sentinel per publishing host (C, and A as a plain publisher) closes the observation window:
		// messages of one sender arrive before that sender's sentinel
		if err := snd.Send(ctx, message.Message{Cid: sentinels[0]}); err != nil {
			return pbt.Failf("sentinel: %v", err)
		}
		var sb bytes.Buffer
		sm := message.Message{Cid: sentinels[1]}
		_ = sm.MarshalCBOR(&sb)
		if err := topics[0].Publish(ctx, sb.Bytes()); err != nil {
			return pbt.Failf("sentinel from A: %v", err)
		}
		wg.Wait()
		if err := snd.Send(ctx, message.Message{Cid: flush}); err != nil {
			return pbt.Failf("flush: %v", err)
		}
		<-done3
		<-done4
		for _, d := range got4 {
			for _, a := range d.Addrs {
				for _, np := range nonPublic {
					if a.Equal(np) {
						res.Fail = fmt.Sprintf("R4 (address filtering on) delivered %s with the non-public address %s; ops %+v", d.Cid, a, c.Ops)
						return res
					}
				}
			}
			if withAddr[d.Cid] && (len(d.Addrs) != 1 || !d.Addrs[0].Equal(addr)) {
				res.Fail = fmt.Sprintf("R4 (address filtering on) delivered %s with addresses %v, want exactly the public one %s", d.Cid, d.Addrs, addr)
				return res
			}
			if withAddr[d.Cid] {
				res.Classes = append(res.Classes, "r4:filtered-delivery")
			}
		}
		res.NonTrivial = len(never1) > 0 || len(c.Ops) >= 3
		check := func(name string, got []delivery, want map[delivery]bool, never map[string]string) string {
			cnt := map[string]int{}
			for _, d := range got {
				cnt[d.Cid]++
				if why, bad := never[d.Cid]; bad && !want[d] {
					return fmt.Sprintf("%s delivered %s (attributed to %s) although %s", name, d.Cid, d.Peer, why)
				}
				if !want[d] {
					return fmt.Sprintf("%s delivered %s attributed to %s; expected attribution: %v", name, d.Cid, d.Peer, wantFor(want, d.Cid))
				}
				if cnt[d.Cid] > 1 {
					return fmt.Sprintf("%s delivered %s twice", name, d.Cid)
				}
			}
			return ""
		}
		if msg := check("R1", got1, want1, never1); msg != "" {
			res.Fail = msg
			return res
		}
		if msg := check("R2", got2, want2, nil); msg != "" {
			res.Fail = msg
			return res
		}
		// R3: only allowed original publishers, and everything R2 delivered for an allowed publisher
		{
			have := map[string]int{}
			for _, d := range got3 {
				have[d.Cid]++
				if !allow3(d.Peer) {
					res.Fail = fmt.Sprintf("R3 delivered %s attributed to %s, which its allow filter rejects", d.Cid, d.Peer)
					return res
				}
				if !want2[d] {
					res.Fail = fmt.Sprintf("R3 delivered %s attributed to %s; expected attribution: %v", d.Cid, d.Peer, wantFor(want2, d.Cid))
					return res
				}
				if have[d.Cid] > 1 {
					res.Fail = fmt.Sprintf("R3 delivered %s twice", d.Cid)
					return res
				}
			}
			if ok2 && ok3 {
				for _, d := range got2 {
					if allow3(d.Peer) && have[d.Cid] == 0 {
						relayed := ""
						if d.Peer != C.ID() {
							relayed = " (re-published by host A, which the filter rejects as a source but which is only the relay)"
						}
						res.Fail = fmt.Sprintf("R2 delivered %s for publisher %s, which R3's allow filter accepts%s, but R3, fed the same messages in the same order on the same host, did not deliver it; ops %+v", d.Cid, d.Peer, relayed, c.Ops)
						return res
					}
					if allow3(d.Peer) && d.Peer != C.ID() {
						res.Classes = append(res.Classes, "r3:allowed-original-via-disallowed-relay")
					}
					if !allow3(d.Peer) {
						res.Classes = append(res.Classes, "r3:disallowed-original")
					}
				}
			} else {
				res.Classes = append(res.Classes, "inconclusive:r3-window")
			}
		}
		ncids := func(w map[delivery]bool) int {
			m := map[string]bool{}
			for d := range w {
				m[d.Cid] = true
			}
			return len(m)
		}
		if !ok1 || !ok2 || len(got1) != ncids(want1) || len(got2) != ncids(want2) {
			// a message did not arrive within the budget (or arrived after the sentinel on another path):
			// not decidable without a clock; counted, never reported
			res.Classes = append(res.Classes, "inconclusive:late-or-lost")
			if os.Getenv("C09P_DEBUG") != "" {
				fmt.Printf("INCONCLUSIVE ok1=%v ok2=%v got1=%d/%d got2=%d/%d ops=%+v\n", ok1, ok2, len(got1), ncids(want1), len(got2), ncids(want2), c.Ops)
			}
			res.NonTrivial = false
		}
		return res
	}
}

func wantFor(want map[delivery]bool, c string) []peer.ID {
	var out []peer.ID
	for d := range want {
		if d.Cid == c {
			out = append(out, d.Peer)
		}
	}
	return out
}

func TestC09_Pubsub(t *testing.T) {
	pbt.Run(t, pbt.Config{Prop: "C09", Unit: "TestC09_Pubsub",
		Rule: "three real libp2p hosts on loopback in one gossipsub mesh (A: receiver R1 with WithResend, B: plain receiver R2, receiver R3 whose allow filter rejects host A and two of the six original publishers, and receiver R4 with address filtering, C: p2psender); 1..6 operations: C publishes a new CID, a direct announcement handed to A's receiver for a drawn original publisher (re-published by A), a re-publication put on the topic by host A itself, a repeated CID; a sentinel message from C closes the observation window (no timeout decides non-delivery); oracle: every delivered announcement carries the announced CID once, direct and re-published announcements are attributed to the original publisher (never the relay), the receiver on A never delivers A's own re-publication; R3 delivers only announcements whose original publisher its filter accepts, and delivers every CID that R2 (same host, same message order) delivered for an accepted publisher, in particular those relayed by the rejected host A; R4 (address filtering on) never delivers a private, loopback or unspecified address, whether the announcement came directly from its publisher or was re-published, and keeps the public one. Messages that did not arrive before the sentinel are counted as inconclusive, never reported. Non-trivial: the case contains a self re-publication or >= 3 operations and nothing was inconclusive; distinct by case.",
		Assumptions: []string{"gossipsub delivery on loopback; ordering across different senders is not assumed", "missing deliveries are not asserted here (the direct path in TestC09_Direct decides 'delivered iff' exactly)"},
	}, genCase, runCase(t))
}
