package c18

import (
	"bytes"
	"crypto/sha256"
	"fmt"
	"testing"

	"github.com/ipni/go-libipni/ingest/model"
	ic "github.com/libp2p/go-libp2p/core/crypto"
	"github.com/libp2p/go-libp2p/core/peer"
	"github.com/libp2p/go-libp2p/core/record"
	recpb "github.com/libp2p/go-libp2p/core/record/pb"
	"github.com/multiformats/go-multiaddr"
	"github.com/multiformats/go-multihash"
	"google.golang.org/protobuf/proto"
	"pgregory.net/rapid"

	"verif/h23/gen"
	"verif/h23/pbt"
)

type reqCase struct {
	Kind     string // ingest | register
	Provider int    // key named inside the request
	Signer   int    // key that signs
	MH       []byte
	CtxID    []byte
	Metadata []byte
	Addrs    []string
	Alter    string // none | key | payloadtype | payload | signature | rawflip | domain | crossfeed | truncate
	Pos      int    // position selector for byte-level alterations
	Bit      int
	OtherKey int
	Craft    int // 0: the named provider is a pool key's ID; 1..4: an ID crafted from the signer's own public key that is not its peer ID
}

var validAddrs = []string{"/ip4/8.8.8.8/tcp/3003", "/ip6/2606:4700::1/tcp/443/https", "/dns4/provider.example.com/tcp/80/http", "/ip4/1.2.3.4/udp/4001/quic-v1", "/ip4/10.0.0.1/tcp/1"}

func genReq(t *rapid.T) reqCase {
	c := reqCase{Kind: rapid.SampledFrom([]string{"ingest", "register"}).Draw(t, "kind")}
	c.Provider = gen.KeyIdx().Draw(t, "provider")
	if rapid.IntRange(0, 2).Draw(t, "foreign") == 0 {
		c.Signer = gen.KeyIdx().Draw(t, "signer")
	} else {
		c.Signer = c.Provider
	}
	if rapid.IntRange(0, 5).Draw(t, "crafted") == 0 {
		c.Craft = rapid.IntRange(1, 4).Draw(t, "craft")
	}
	c.MH = gen.Multihash().Draw(t, "mh")
	c.CtxID = gen.Bytes(0, 64).Draw(t, "ctx")
	c.Metadata = gen.Bytes(0, 100).Draw(t, "md")
	if rapid.IntRange(0, 7).Draw(t, "bigmd") == 0 {
		// sizes around the advertisement limits (the request format itself has no limit)
		c.Metadata = gen.BoundaryBytes(256, 1024, 2048, 4096).Draw(t, "mdbig")
	}
	if rapid.IntRange(0, 15).Draw(t, "bigctx") == 0 {
		c.CtxID = gen.BoundaryBytes(64, 128).Draw(t, "ctxbig")
	}
	na := rapid.IntRange(0, 4).Draw(t, "naddrs")
	if c.Kind == "register" && na == 0 {
		na = 1
	}
	for i := 0; i < na; i++ {
		if c.Kind == "register" || rapid.Bool().Draw(t, "validaddr") {
			a := rapid.SampledFrom(validAddrs).Draw(t, "addr")
			if rapid.IntRange(0, 3).Draw(t, "p2pform") == 0 {
				// the p2p-address form: the same address with the provider's /p2p component
				a += "/p2p/" + gen.Keys()[c.Provider].ID.String()
			}
			c.Addrs = append(c.Addrs, a)
		} else {
			c.Addrs = append(c.Addrs, rapid.StringN(0, 12, -1).Draw(t, "rawaddr"))
		}
	}
	c.Alter = rapid.SampledFrom([]string{"none", "none", "key", "payloadtype", "payload", "signature", "rawflip", "rawflip", "domain", "retype", "retype", "crossfeed", "truncate"}).Draw(t, "alter")
	c.Pos = rapid.IntRange(0, 1<<20).Draw(t, "pos")
	c.Bit = rapid.IntRange(0, 7).Draw(t, "bit")
	c.OtherKey = gen.KeyIdx().Draw(t, "otherkey")
	return c
}

// foreign wraps a record so that it is sealed for another domain with the right payload type.
type foreign struct {
	record.Record
	domain string
}

func (f foreign) Domain() string { return f.domain }

// retyped wraps a record so that it is sealed for the right domain with another payload type.
type retyped struct {
	record.Record
	codec []byte
}

func (r retyped) Codec() []byte { return r.codec }

func sameEnvelope(a, b []byte) (same bool, parsed bool) {
	var ea, eb recpb.Envelope
	if proto.Unmarshal(a, &ea) != nil {
		return false, false
	}
	if proto.Unmarshal(b, &eb) != nil {
		return false, false
	}
	ka, _ := proto.Marshal(ea.GetPublicKey())
	kb, _ := proto.Marshal(eb.GetPublicKey())
	keySame := bytes.Equal(ka, kb) && ea.GetPublicKey().GetType() == eb.GetPublicKey().GetType() && bytes.Equal(ea.GetPublicKey().GetData(), eb.GetPublicKey().GetData())
	return keySame && bytes.Equal(ea.PayloadType, eb.PayloadType) && bytes.Equal(ea.Payload, eb.Payload) && bytes.Equal(ea.Signature, eb.Signature), true
}

// craftID derives, from the signer's own public key, peer IDs that are not the signer's peer ID: the named
// provider then differs from the signer although the two are related.
func craftID(k gen.Key, kind int) peer.ID {
	pub, _ := ic.MarshalPublicKey(k.Priv.GetPublic())
	sum := sha256.Sum256(pub)
	var mh multihash.Multihash
	switch kind {
	case 1: // sha2-256 multihash of the key (the peer ID of large keys; for small keys the ID is the identity form)
		mh, _ = multihash.Encode(sum[:], multihash.SHA2_256)
	case 2: // the same digest labelled with another 256-bit hash function
		mh, _ = multihash.Encode(sum[:], multihash.SHA3_256)
	case 3: // the digest wrapped as an identity multihash
		mh, _ = multihash.Encode(sum[:], multihash.IDENTITY)
	default: // identity multihash of the key (the peer ID of small keys; for large keys the ID is the sha2-256 form)
		mh, _ = multihash.Encode(pub, multihash.IDENTITY)
	}
	id := peer.ID(mh)
	if id == k.ID {
		// this form is the signer's real ID for this key type: use the digest under blake2b-256 instead
		mh, _ = multihash.Encode(sum[:], multihash.BLAKE2B_MIN+31)
		id = peer.ID(mh)
	}
	return id
}

func runReq(c reqCase) pbt.Result {
	keys := gen.Keys()
	prov, signer := keys[c.Provider], keys[c.Signer]
	res := pbt.Result{Classes: []string{"kind=" + c.Kind, "alter=" + c.Alter, "signer=" + signer.Type}}
	provID := prov.ID
	if c.Craft != 0 {
		provID = craftID(signer, c.Craft)
		res.Classes = append(res.Classes, "crafted-provider-id")
	}
	foreignSigner := provID != signer.ID
	if foreignSigner {
		res.Classes = append(res.Classes, "foreign-signer")
	}
	res.NonTrivial = foreignSigner || c.Alter != "none"

	var data []byte
	var err error
	if c.Kind == "ingest" {
		data, err = model.MakeIngestRequest(provID, signer.Priv, multihash.Multihash(c.MH), c.CtxID, c.Metadata, c.Addrs)
	} else {
		data, err = model.MakeRegisterRequest(provID, signer.Priv, c.Addrs)
	}
	if err != nil {
		return merge(res, pbt.Failf("Make%sRequest: %v", c.Kind, err))
	}
	orig := append([]byte(nil), data...)
	altered := false
	feedTo := c.Kind
	switch c.Alter {
	case "none":
	case "crossfeed":
		feedTo = map[string]string{"ingest": "register", "register": "ingest"}[c.Kind]
		altered = true
	case "domain":
		// same record, same payload type, sealed for a different domain
		var rec record.Record
		if c.Kind == "ingest" {
			rec = &model.IngestRequest{Multihash: c.MH, ProviderID: provID, ContextID: c.CtxID, Metadata: c.Metadata, Addrs: c.Addrs, Seq: 7}
		} else {
			pr := peer.NewPeerRecord()
			pr.PeerID = provID
			for _, a := range c.Addrs {
				pr.Addrs = append(pr.Addrs, multiaddr.StringCast(a))
			}
			rec = pr
		}
		dom := []string{"libp2p-peer-record", "indexer-ingest-request-record", "some-other-domain", ""}[c.Pos%4]
		if dom == rec.Domain() {
			dom = "some-other-domain"
		}
		env, err := record.Seal(foreign{Record: rec, domain: dom}, signer.Priv)
		if err != nil {
			if dom == "" {
				return pbt.Result{Skip: true} // Seal refuses an empty domain
			}
			return merge(res, pbt.Failf("Seal: %v", err))
		}
		data, _ = env.Marshal()
		altered = true
	case "retype":
		// same record, right domain, validly signed, but sealed with another payload type
		var rec record.Record
		if c.Kind == "ingest" {
			rec = &model.IngestRequest{Multihash: c.MH, ProviderID: provID, ContextID: c.CtxID, Metadata: c.Metadata, Addrs: c.Addrs, Seq: 7}
		} else {
			pr := peer.NewPeerRecord()
			pr.PeerID = provID
			for _, a := range c.Addrs {
				pr.Addrs = append(pr.Addrs, multiaddr.StringCast(a))
			}
			rec = pr
		}
		codecs := [][]byte{model.IngestRequestEnvelopePayloadType, peer.PeerRecordEnvelopePayloadType, []byte("unregistered-type"), {0x03, 0x99}}
		codec := codecs[c.Pos%len(codecs)]
		if bytes.Equal(codec, rec.Codec()) {
			codec = codecs[(c.Pos+1)%len(codecs)]
		}
		env, err := record.Seal(retyped{Record: rec, codec: codec}, signer.Priv)
		if err != nil {
			return merge(res, pbt.Failf("Seal: %v", err))
		}
		data, _ = env.Marshal()
		altered = true
	case "truncate":
		data = data[:c.Pos%len(data)]
		altered = true
	case "rawflip":
		data[c.Pos%len(data)] ^= 1 << uint(c.Bit)
		same, _ := sameEnvelope(orig, data)
		altered = !same
	default:
		var e recpb.Envelope
		if err := proto.Unmarshal(data, &e); err != nil {
			return merge(res, pbt.Failf("harness: cannot parse envelope: %v", err))
		}
		switch c.Alter {
		case "key":
			other := keys[c.OtherKey]
			if other.ID == signer.ID {
				return pbt.Result{Skip: true}
			}
			pk, err := ic.PublicKeyToProto(other.Priv.GetPublic())
			if err != nil {
				return merge(res, pbt.Failf("harness: %v", err))
			}
			e.PublicKey = pk
		case "payloadtype":
			if len(e.PayloadType) == 0 {
				return pbt.Result{Skip: true}
			}
			e.PayloadType[c.Pos%len(e.PayloadType)] ^= 1 << uint(c.Bit)
		case "payload":
			e.Payload[c.Pos%len(e.Payload)] ^= 1 << uint(c.Bit)
		case "signature":
			e.Signature[c.Pos%len(e.Signature)] ^= 1 << uint(c.Bit)
		}
		data, err = proto.Marshal(&e)
		if err != nil {
			return merge(res, pbt.Failf("harness: %v", err))
		}
		altered = true
	}

	wantAccept := !foreignSigner && !altered
	var accepted bool
	var rerr error
	var gotIngest *model.IngestRequest
	var gotReg *peer.PeerRecord
	if feedTo == "ingest" {
		gotIngest, rerr = model.ReadIngestRequest(data)
		accepted = rerr == nil
	} else {
		gotReg, rerr = model.ReadRegisterRequest(data)
		accepted = rerr == nil
	}
	if accepted != wantAccept {
		return merge(res, pbt.Failf("Read%sRequest: accepted=%v (err %v), want accepted=%v; request kind %s naming provider %s (%s) signed by %s (%s), alteration %s (really altered: %v)",
			feedTo, accepted, rerr, wantAccept, c.Kind, provID, prov.Type, signer.ID, signer.Type, c.Alter, altered))
	}
	if !accepted {
		if gotIngest != nil || gotReg != nil {
			return merge(res, pbt.Failf("Read%sRequest returned an error and a request", feedTo))
		}
		return res
	}
	res.Classes = append(res.Classes, "accepted")
	if c.Kind == "ingest" {
		g := gotIngest
		if g == nil || !bytes.Equal(g.Multihash, c.MH) || g.ProviderID != provID || !bytes.Equal(g.ContextID, c.CtxID) || !bytes.Equal(g.Metadata, c.Metadata) || !sameStrings(g.Addrs, c.Addrs) {
			return merge(res, pbt.Failf("ReadIngestRequest returned %+v, built from mh=%x provider=%s ctx=%x md=%x addrs=%q", g, c.MH, provID, c.CtxID, c.Metadata, c.Addrs))
		}
	} else {
		g := gotReg
		if g == nil || g.PeerID != provID || len(g.Addrs) != len(c.Addrs) {
			return merge(res, pbt.Failf("ReadRegisterRequest returned %+v, built from provider=%s addrs=%q", g, provID, c.Addrs))
		}
		for i, a := range c.Addrs {
			if !g.Addrs[i].Equal(multiaddr.StringCast(a)) {
				return merge(res, pbt.Failf("ReadRegisterRequest address %d = %s, want %s", i, g.Addrs[i], a))
			}
		}
	}
	return res
}

func sameStrings(a, b []string) bool {
	if len(a) != len(b) {
		return false
	}
	for i := range a {
		if a[i] != b[i] {
			return false
		}
	}
	return true
}

func merge(base, f pbt.Result) pbt.Result {
	base.Fail = f.Fail
	return base
}

func TestC18_Requests(t *testing.T) {
	pbt.Run(t, pbt.Config{Prop: "C18", Unit: "TestC18_Requests",
		Rule: "ingest and register requests (multihash of mixed functions, context ID 0..64 B or 63..65 / 127..129 B, metadata 0..100 B or within one byte of 256 / 1024 / 2048 / 4096 B, 0..4 addresses) with the named provider and the signing key drawn independently from a pool of ed25519/secp256k1/ecdsa/rsa keys; alterations: envelope key replaced, payload type / payload / signature byte flipped through the envelope protobuf, raw bit flip, truncation, sealed for another domain with the right payload type, fed to the other reader; oracle: accepted <=> signer = named provider and not semantically altered and right domain/type; accepted requests return the fields they were built from; never a panic. Non-trivial: foreign signer or an alteration; distinct by case.",
		Assumptions: []string{fmt.Sprintf("a raw bit flip that leaves key, payload type, payload and signature of the parsed envelope unchanged is not an alteration")},
	}, genReq, runReq)
}
