package c18

import (
	"bytes"
	"fmt"
	"sync"
	"testing"

	"github.com/ipni/go-libipni/ingest/model"
	"github.com/multiformats/go-multihash"
	"pgregory.net/rapid"

	"verif/h23/gen"
	"verif/h23/pbt"
)

// Requests are built and read by many goroutines of one process (an indexer's HTTP handlers, a provider
// announcing several context IDs): what one goroutine builds must not depend on what the others build at the
// same moment. Built with the race detector; every request is read back and compared with what it was built from.

type concReq struct {
	Workers int
	Rounds  int
	Sizes   []int // metadata size per worker
}

func TestC18_Concurrent(t *testing.T) {
	pbt.Run(t, pbt.Config{Prop: "C18", Unit: "TestC18_Concurrent", TrackCurrent: true,
		Rule: "2..8 goroutines each build 10..80 ingest requests (own provider key = signer, own context ID and metadata of 1..600 B, different per worker and round) and register requests with the library constructors at the same time and read each back at once; oracle: every constructor-built request is accepted and returns exactly the fields it was built from; the race detector reports no data race inside the library. Non-trivial: >= 4 goroutines; distinct by case.",
		Assumptions: []string{"interleavings are sampled by the Go scheduler on 16 cores"},
	}, func(t *rapid.T) concReq {
		c := concReq{Workers: rapid.IntRange(2, 8).Draw(t, "workers"), Rounds: rapid.IntRange(10, 80).Draw(t, "rounds")}
		for i := 0; i < c.Workers; i++ {
			c.Sizes = append(c.Sizes, rapid.IntRange(1, 600).Draw(t, "size"))
		}
		return c
	}, func(c concReq) pbt.Result {
		res := pbt.Result{NonTrivial: c.Workers >= 4}
		keys := gen.Keys()
		var mu sync.Mutex
		fail := ""
		report := func(f string, a ...any) {
			mu.Lock()
			if fail == "" {
				fail = fmt.Sprintf(f, a...)
			}
			mu.Unlock()
		}
		var wg sync.WaitGroup
		start := make(chan struct{})
		for w := 0; w < c.Workers; w++ {
			wg.Add(1)
			go func(w int) {
				defer wg.Done()
				k := keys[w%len(keys)]
				<-start
				for r := 0; r < c.Rounds; r++ {
					mh, _ := multihash.Sum([]byte(fmt.Sprintf("c18-conc-%d-%d", w, r)), multihash.SHA2_256, -1)
					ctxID := []byte(fmt.Sprintf("ctx-%d-%d", w, r))
					md := bytes.Repeat([]byte{byte(w*31 + r)}, c.Sizes[w])
					addrs := []string{fmt.Sprintf("/ip4/8.8.%d.%d/tcp/%d", w, r%250, 1000+r)}
					data, err := model.MakeIngestRequest(k.ID, k.Priv, mh, ctxID, md, addrs)
					if err != nil {
						report("worker %d round %d: MakeIngestRequest: %v", w, r, err)
						return
					}
					got, err := model.ReadIngestRequest(data)
					if err != nil {
						report("worker %d round %d: a request built by MakeIngestRequest while %d other goroutines build theirs is rejected: %v", w, r, c.Workers-1, err)
						return
					}
					if got.ProviderID != k.ID || !bytes.Equal(got.Multihash, mh) || !bytes.Equal(got.ContextID, ctxID) || !bytes.Equal(got.Metadata, md) || len(got.Addrs) != 1 || got.Addrs[0] != addrs[0] {
						report("worker %d round %d: the request reads back with other fields than it was built from (context ID %q, %d B metadata starting %x; built with %q, %d B starting %x)", w, r, got.ContextID, len(got.Metadata), got.Metadata[:min(4, len(got.Metadata))], ctxID, len(md), md[:min(4, len(md))])
						return
					}
					rdata, err := model.MakeRegisterRequest(k.ID, k.Priv, addrs)
					if err != nil {
						report("worker %d round %d: MakeRegisterRequest: %v", w, r, err)
						return
					}
					rr, err := model.ReadRegisterRequest(rdata)
					if err != nil || rr.PeerID != k.ID || len(rr.Addrs) != 1 || rr.Addrs[0].String() != addrs[0] {
						report("worker %d round %d: register request built concurrently: %v / %+v", w, r, err, rr)
						return
					}
				}
			}(w)
		}
		close(start)
		wg.Wait()
		res.Fail = fail
		return res
	})
}
