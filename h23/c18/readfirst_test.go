package c18

import (
	"bytes"
	"testing"

	"github.com/ipni/go-libipni/ingest/model"
	"github.com/libp2p/go-libp2p/core/record"
	"github.com/multiformats/go-multihash"
	"pgregory.net/rapid"

	"verif/h23/gen"
	"verif/h23/pbt"
)

// An indexer only reads requests: the first thing this process does with the package is to read a request that
// was sealed without any of the package's constructors (which may do set-up work as a side effect). The driver
// runs every unit in a process of its own, so nothing has touched the package before.

type readFirstCase struct {
	Key      int
	CtxID    []byte
	Metadata []byte
}

func TestC18_ReadFirst(t *testing.T) {
	pbt.Run(t, pbt.Config{Prop: "C18", Unit: "TestC18_ReadFirst",
		Rule: "in a fresh process that has not called any constructor of the package: ingest requests sealed directly with libp2p's record.Seal (the provider's own key, drawn context ID and metadata) are read with ReadIngestRequest; oracle: accepted, fields as sealed. Non-trivial: always; distinct by case.",
	}, func(t *rapid.T) readFirstCase {
		return readFirstCase{Key: gen.KeyIdx().Draw(t, "key"), CtxID: gen.Bytes(0, 64).Draw(t, "ctx"), Metadata: gen.Bytes(0, 100).Draw(t, "md")}
	}, func(c readFirstCase) pbt.Result {
		res := pbt.Result{NonTrivial: true}
		k := gen.Keys()[c.Key]
		mh, _ := multihash.Sum(c.CtxID, multihash.SHA2_256, -1)
		rec := &model.IngestRequest{Multihash: mh, ProviderID: k.ID, ContextID: c.CtxID, Metadata: c.Metadata, Addrs: []string{"/ip4/8.8.8.8/tcp/3003"}, Seq: 1}
		env, err := record.Seal(rec, k.Priv)
		if err != nil {
			return pbt.Failf("record.Seal: %v", err)
		}
		data, err := env.Marshal()
		if err != nil {
			return pbt.Failf("envelope.Marshal: %v", err)
		}
		got, err := model.ReadIngestRequest(data)
		if err != nil {
			return merge(res, pbt.Failf("a valid ingest request, signed by the provider it names, is rejected by a process that has only read requests so far: %v", err))
		}
		if got.ProviderID != k.ID || !bytes.Equal(got.ContextID, c.CtxID) || !bytes.Equal(got.Metadata, c.Metadata) || !bytes.Equal(got.Multihash, mh) {
			return merge(res, pbt.Failf("ReadIngestRequest returned %+v", got))
		}
		return res
	})
}
